"""Per-property configuration of bin/check."""

COMMON_TRUSTED = [
    "Coq 8.16.1 kernel (coqc); vm_compute used to evaluate the model and the checker on the harness cases; no native_compute",
    "no axioms declared by this development; Print Assumptions output of every property theorem is in coverage.axioms",
    "correspondence harness (Go, /verif/harness): generators, fakes and the Coq-literal emitter lib/cq",
    "the hand-written model is related to the Go code only by differential execution on generated inputs and, where listed, by the go2coq translator",
]

NOT_APPLICABLE = {}
HOOK_COMMITS = []

PROPS = {
    "C16": {
        "harness": "h_c16",
        "level_text": "Theorems (Coq, closed under the global context) over an executable model of util.ChannelMapping and of the manager's offer discipline: for all channel counts and all offer sequences each key keeps exactly one value, an assignment never changes, no value serves more than avg keys, avg = ceil(larger/smaller) and 1 for equal counts. util.average is re-translated from /repo on every run and proved equal to the model's; the model is run against the real ChannelMapping on 3000 generated operation sequences per run and a checker for the property is evaluated on the implementation's own answers.",
        "level_note": "Trusted: Coq kernel + VM; go2coq translator; the Go harness. The manager's wait/forward path (waitChannel/forwardChannel) is modelled only through the offer discipline, not driven through replicateChannelManager.",
        "n": {"quick": 3000, "thorough": 20000, "search": 6000},
        "gen": [{"out": "Gen_average.v", "args": ["$REPO/core/util/channel_mapping.go", "average", "N"]}],
        "rule": "random (source_cnt,target_cnt) in 0..8, 1..6 names per side, 1..16 operations (80% of the cases offers only, as startReadChannel issues them; the rest mix raw AddKeyValue); after every operation CheckKeyExist and CheckKeyNotExist are read for the whole name grid and compared with the model; non-trivial = a case in which some offer was refused because a channel was full, distinct by (counts, op list)",
        "trusted": ["tools/go2coq translator for util.average (unverified; its output is also covered by the differential harness)"],
        "assumptions": ["callers follow the manager discipline (assign only when the key has no handler and CheckKeyNotExist holds); AddKeyValue alone overwrites",
                        "channel counts are non-negative (Go int modelled as N)"],
    },
}
