"""Per-property configuration of bin/check."""

COMMON_TRUSTED = [
    "Coq 8.16.1 kernel (coqc); vm_compute used to evaluate the model and the checker on the harness cases; no native_compute",
    "no axioms declared by this development; Print Assumptions output of every property theorem is in coverage.axioms",
    "correspondence harness (Go, /verif/harness): generators, fakes and the Coq-literal emitter lib/cq",
    "the hand-written model is related to the Go code only by differential execution on generated inputs and, where listed, by the go2coq translator",
]

NOT_APPLICABLE = {}
HOOK_COMMITS = ["159567f verif hook H4: msgpacker memory protector reset/read (build tag verif)"]

PROPS = {
    "C16": {
        "harness": "h_c16",
        "level_text": "Theorems (Coq, closed under the global context) over an executable model of util.ChannelMapping and of the manager's offer discipline: for all channel counts and all offer sequences each key keeps exactly one value, an assignment never changes, no value serves more than avg keys, avg = ceil(larger/smaller) and 1 for equal counts. util.average is re-translated from /repo on every run and proved equal to the model's; the model is run against the real ChannelMapping on 3000 generated operation sequences per run and a checker for the property is evaluated on the implementation's own answers.",
        "level_note": "Trusted: Coq kernel + VM; go2coq translator; the Go harness. The manager's wait/forward path (waitChannel/forwardChannel) is modelled only through the offer discipline, not driven through replicateChannelManager.",
        "n": {"quick": 3000, "thorough": 20000, "search": 6000},
        "gen": [{"out": "Gen_average.v", "args": ["$REPO/core/util/channel_mapping.go", "average", "N"]}],
        "rule": "random (source_cnt,target_cnt) in 0..8, 1..6 names per side, 1..16 operations (80% of the cases offers only, as startReadChannel issues them; the rest mix raw AddKeyValue); after every operation CheckKeyExist and CheckKeyNotExist are read for the whole name grid and compared with the model; non-trivial = a case in which some offer was refused because a channel was full, distinct by (counts, op list)",
        "trusted": ["tools/go2coq translator for util.average (unverified; its output is also covered by the differential harness)"],
        "assumptions": ["callers follow the manager discipline (assign only when the key has no handler and CheckKeyNotExist holds); AddKeyValue alone overwrites",
                        "channel counts are non-negative (Go int modelled as N)"],
    },
    "C14": {
        "harness": "h_c14",
        "n": {"quick": 3000, "thorough": 30000, "search": 6000},
        "level_text": "Theorems (Coq, closed under the global context) over an executable model of Packer.Receive/ClearMsgs, both checkers and the shared MemoryProtector: for every configuration, any number of packers, every operation sequence, timer pattern and callback-failure pattern, (ids handed to the callback) ++ (ids still buffered) is exactly the received sequence per packer; ClearMsgs hands over everything; the global counter equals the buffered bytes (zero when all buffers are empty); a callback error is the call's result. The model is run against the real packers (global protector reset through hook H4) on 3000 generated sequences per run, and a checker for the property is evaluated on the implementation's own callback log.",
        "level_note": "Trusted: Coq kernel + VM; the Go harness (fake TsMsg with a chosen Size()). The timer is an oracle bit: forced by configuration (interval 1 h = never; 20 ms with measured sleeps = fires), ambiguous timings are discarded and counted. The consumer loop in server/cdc_impl.go that calls Receive/ClearMsgs is covered under C05, not here.",
        "rule": "1..3 packers sharing the global protector; thresholds from {default,1,2,3,5} x {default,1,2,4} KB x {default,4,8,16} KB; 1..24 operations (Receive of a pack made of 0..3 messages with sizes incl. 0 and oversize, ClearMsgs, callback failing in ~20% of the calls, 1/3 of the cases end with a shutdown clear of every packer; 1/40 of the cases run with a 20 ms timer and forced firings); compared: every callback invocation (packer, ids in order), the error of every call, the global counter after every call; non-trivial = at least two callback invocations, distinct by (config, ops)",
        "assumptions": ["Receive/ClearMsgs of one packer are not called concurrently (one consumer goroutine per channel, as in startReplicateDMLMsg)",
                        "message sizes are non-negative and sums stay below 2^63 (Go int modelled as Z)"],
    },
    "C17": {
        "harness": "h_c17",
        "n": {"quick": 1500, "thorough": 20000, "search": 3000},
        "level_text": "Theorems (Coq, closed under the global context) over an executable model of ReplicateMeteImpl (both message maps, the store, update/remove/reload): for every history of shard reports (any order, duplicates, several tasks and messages), removals and reloads, memory and store agree entry by entry, the recorded ready set is exactly the union of the reports since the last removal, an update answers ready iff that union equals the target set, removal clears store and both memory maps, and a reload reproduces memory. The model is run against the real implementation over a JSON-text store on 1500 generated histories per run (incl. pairs of concurrent reports with a stalled store write), and a checker for the property is evaluated on the implementation's own dumps.",
        "level_note": "Trusted: Coq kernel + VM; the Go harness and its in-memory api.ReplicateStore (stores json.Marshal text and decodes with json.Unmarshal into api.MetaMsg like both real stores). Target lists and each report's ready list are duplicate-free (as the reader builds them); store failures are not injected here (the callers log.Panic on them).",
        "rule": "1..2 tasks x 1..3 messages (collection and partition drops, ids as the reader builds them), 2..5 channels, target = random non-empty subset; 1..16 operations: shard report (usually one channel of the target, 10% a foreign channel, 10% two channels), removal (1/12), crash+reload (1/12), 1/25 of the reports run concurrently with the next one while their store Put is stalled; DropTS around 4.5e17 with random low bits (75%) or small; after every operation the result and the full memory (both maps) and store dumps over the key universe are compared; non-trivial = at least 3 reports, distinct by op list",
        "assumptions": ["message ids of collection and partition drops never coincide (drop-collection-<id> vs drop-partition-<c>-<p>)",
                        "target and per-report ready lists are duplicate-free"],
    },
    "C08": {
        "harness": "h_writer", "harness_args": ["-mode", "c08"], "model_target": "theories/C08/Check.vo",
        "n": {"quick": 1500, "thorough": 20000, "search": 3000},
        "gen": [{"out": "Gen_getObjState.v", "args": ["$REPO/core/writer/channel_writer.go", "getObjState", "InfoState"],
                 "header": "From Coq Require Import NArith Bool.\nInductive InfoState := InfoStateUnknown | InfoStateCreated | InfoStateDropped.\n"}],
        "level_text": "Theorems (Coq, closed under the global context): getObjState as re-translated from /repo on every run equals the model's decision; complete characterisation of Dropped/Created over all (op time, create time, drop time, presence bits); incarnation lemma (with a recorded drop horizon d and creation recorded, if at all, as d+1: stamped <= d is skipped, later is applied or probed, never skipped); the cascade makes a skipped operation silent (no downstream mutation, success, tables as the test left them) and an unknown object an error without mutation, for every single-object operation kind; replay of a dead incarnation after restart is skipped without any call and a newer recorded incarnation is applied; the checker used on implementation traces accepts every model run. Model run against the real ChannelWriter on 1500 generated histories per run.",
        "level_note": "Trusted: Coq kernel + VM; the Go harness (recording fake api.DataHandler whose Describe* probes answer from per-case existence sets and whose next non-probe call can be made to fail; fake ReplicateMeta; real msgstream message types). The model Writer/Model.v follows core/writer/channel_writer.go handler by handler and is compared call by call (kind, routed database, request database, collection, partition/collection lists, identity payload, stamp, replication flag, result). The Milvus SDK client behind MilvusDataHandler and the Kafka handler are not modelled. Ground truth of incarnations is represented by the recorded tables (start-up snapshot of C15 + drops replayed by the writer); the downstream probe is an oracle.",
        "rule": "random environment (7 name-mapping shapes, existence sets of databases/collections/partitions, start-up tables with drop horizons and some recorded creations, milvus or non-milvus downstream, with/without replicate id); histories of 1..8 operations over 25 kinds (2/3 of them from the DDL kinds that consult the tables) on 4 source databases x 3 collections x 2 partitions with times 1..22 so that every order relation to the recorded times occurs, 25% failing downstream calls; one fixed corpus history first; non-trivial = at least two downstream calls, distinct by (environment, ops)",
        "assumptions": ["the downstream probe oracle is static within one case", "timestamps are below 2^64 (uint64 modelled as N)"],
        "trusted": ["tools/go2coq translator for getObjState (unverified; its output is also covered by the differential harness)"],
    },
    "C09": {
        "harness": "h_writer", "harness_args": ["-mode", "c09"], "model_target": "theories/C09/Check.vo",
        "n": {"quick": 600, "thorough": 20000, "search": 2000},
        "level_text": "Theorems (Coq, closed under the global context): the mapping function is exact-entry, else whole-database entry, else unchanged; every call the writer model makes for any operation kind, table state, mapping and oracle (the request and every readiness probe, before and after a failing call) is routed to the mapped database and names the mapped database/collection (stated through the same checker that is run on implementation traces; proved under the well-formedness hypothesis op_wf, with the unrestricted statement refuted by vm_compute witnesses that are configuration corner cases: an RBAC message tagged with a non-RBAC kind, a mapping to an empty database name); never in the default database unless mapped there; the tables change only at keys built from the operation's source names. Model run against the real ChannelWriter on the exhaustive kind x source database x mapping shape table (1232 cases) plus 600 random histories per run.",
        "level_note": "Trusted: Coq kernel + VM; the Go harness (recording fake api.DataHandler whose Describe* probes answer from per-case existence sets and whose next non-probe call can be made to fail; fake ReplicateMeta; real msgstream message types). The model Writer/Model.v follows core/writer/channel_writer.go handler by handler and is compared call by call (kind, routed database, request database, collection, partition/collection lists, identity payload, stamp, replication flag, result). The Milvus SDK client behind MilvusDataHandler and the Kafka handler are not modelled. TargetClient.mapDBAndCollectionName (reader side) shares the repaired logic but is exercised only through C02's harness.",
        "rule": "exhaustive table: 22 operation kinds x source database in {empty, default, db1, db2} x 7 mapping shapes (none, exact, whole-db, unrelated, exact+whole-db, exact on default, whole-db on default + exact) x {ok, failing downstream call}, each on a fresh writer with random existence sets; then random histories as for C08; non-trivial = at least two downstream calls, distinct by (environment, ops)",
        "assumptions": ["mapping tables have one entry per source name and non-empty target database names (op_wf)", "all entries of one source database map to the same target database (needed for database-level operations)"],
    },
    "C20": {
        "harness": "h_writer", "harness_args": ["-mode", "c20"], "model_target": "theories/C20/Check.vo",
        "n": {"quick": 1500, "thorough": 20000, "search": 3000},
        "level_text": "Theorems (Coq, closed under the global context): for every operation kind, table state, mapping and oracle the non-probe calls made for one operation are none (skipped or failed before the request) or exactly one, of the corresponding kind, with the source's identity payload, the replication flag and the source operation's timestamp; when the readiness test says Go the request is made (followed only by probes when it fails); partition lists are the source list minus members the test skips, in order; malformed packs (empty, two messages, unknown type) are errors without any call. Model run against the real ChannelWriter on 1500 histories per run with random field contents (names with separators, quotes, non-ASCII), identity payload rendered from the source message and from the captured request by the same function.",
        "level_note": "Trusted: Coq kernel + VM; the Go harness (recording fake api.DataHandler whose Describe* probes answer from per-case existence sets and whose next non-probe call can be made to fail; fake ReplicateMeta; real msgstream message types). The model Writer/Model.v follows core/writer/channel_writer.go handler by handler and is compared call by call (kind, routed database, request database, collection, partition/collection lists, identity payload, stamp, replication flag, result). The Milvus SDK client behind MilvusDataHandler and the Kafka handler are not modelled. Identity payloads are compared as rendered strings (index/field names and params, replica number, resource groups, user/role/privilege tuples, password strings, schema: description, auto-id, dynamic flag, per field name/id/type/pk/auto-id/description/partition-key/clustering-key/element type/type+index params/nullable/default/function-output, function count, shards, consistency, properties). Event timestamps produced by the reader (barrier time etc.) belong to C04's harness.",
        "rule": "as C08 but all 25 kinds uniformly, 10% of the create-collection events with a nullable field carrying a default value (known finding class 1); one fixed witness of that class first; non-trivial = at least two downstream calls, distinct by (environment, ops)",
        "assumptions": ["the replicate meta store does not fail on RemoveTaskMsg"],
    },
    "C07": {
        "harness": "h_c07",
        "n": {"quick": 800, "thorough": 20000, "search": 2000},
        "level_text": "TODO", "level_note": "TODO", "rule": "TODO",
    },
}

