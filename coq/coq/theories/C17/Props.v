From Verif Require Import C17.Model.
