(* C08 — checker over the implementation's observations (no proofs here) *)
From Coq Require Import List String NArith Bool.
From Verif Require Import Base.Util Writer.Model.
Import ListNotations.
Local Open Scope N_scope.

Definition is_probe (k : ckind) : bool :=
  match k with KDescribeDatabase | KDescribeCollection | KDescribePartition => true | _ => false end.

(* The property, on one observed step, given the tables *before* the step (computed by replaying the
   observed history through the table-update rules, see [tables_after]): an op whose object is recorded
   dropped at or after its time (no later re-creation recorded) makes no downstream mutation call and
   succeeds. *)
Definition tbl_state (m : smap) (k : string) (ts : N) : state :=
  decide ts (sdef m (ckey k)) (sdef m (dkey k))
         (match m (ckey k) with Some _ => true | None => false end)
         (match m (dkey k) with Some _ => true | None => false end).

(* database level first (as the cascade does): a recorded drop of the database skips; the collection level
   is only consulted when the database is current (recorded, default, or found downstream by the probe) *)
Definition obj_dropped (e : env) (s : wst) (db coll : string) (ts : N) : bool :=
  if String.eqb db "" || String.eqb db "default" then
    negb (String.eqb coll "") && match tbl_state (coli s) (coll_key coll db) ts with Dropped => true | _ => false end
  else
    match tbl_state (dbi s) (db_key db) ts with
    | Dropped => true
    | Created => negb (String.eqb coll "") && match tbl_state (coli s) (coll_key coll db) ts with Dropped => true | _ => false end
    | Unknown =>
        mem_str (fst (map_names (e_nm e) db coll)) (e_dbs e)
        && negb (String.eqb coll "") && match tbl_state (coli s) (coll_key coll db) ts with Dropped => true | _ => false end
    end.

Definition op_target (o : wop) : option (string * string * N) :=
  match o with
  | EvCreateColl db _ ts _ | EvDropColl db _ ts => Some (db, ""%string, ts)
  | EvCreatePart db coll _ ts | EvDropPart db coll _ ts => Some (db, coll, ts)
  | MCreateIndex db coll _ ets _ | MDropIndex db coll _ ets _ | MAlterIndex db coll _ ets _
  | MLoadColl db coll _ ets _ | MReleaseColl db coll _ ets => Some (db, coll, ets)
  | _ => None
  end.

(* partition lists (load / release partitions): a partition recorded dropped at or after the operation's time
   must not be named in the request *)
Definition parts_of (o : wop) : option (string * string * list string * N) :=
  match o with
  | MLoadParts db coll ps _ ets _ | MReleaseParts db coll ps _ ets => Some (db, coll, ps, ets)
  | _ => None
  end.
Definition part_dropped (s : wst) (db coll p : string) (ts : N) : bool :=
  negb (String.eqb coll "") && negb (String.eqb p "")
  && match tbl_state (parti s) (part_key p coll db) ts with Dropped => true | _ => false end.

Fixpoint check_steps (e : env) (s : wst) (ops : list (wop * bool)) (obs : list step_obs) : bool :=
  match ops, obs with
  | [], [] => true
  | (o, f) :: r, ob :: obr =>
      (if e_milvus e then
         match op_target o with
         | Some (db, coll, ts) =>
             if obj_dropped e s db coll ts
             then so_ok ob && forallb (fun c => is_probe (k_kind c)) (so_calls ob)
             else true
         | None => true
         end
         && match parts_of o with
            | Some (db, coll, ps, ts) =>
                forallb (fun c => is_probe (k_kind c)
                                  || forallb (fun p => negb (part_dropped s db coll p ts)) (k_names c)) (so_calls ob)
            | None => true
            end
       else true)
      && check_steps e (let '(s1, _, _) := handle e s o f in s1) r obr
  | _, _ => false
  end.

Definition check_C08 (c : case) : bool :=
  check_steps (c_env c) (winit (c_dbs c) (c_colls c) (c_parts c)) (c_ops c) (c_obs c).

Definition mismatches (l : list (N * case)) : list N := failing_ids agrees l.
Definition checkfails (l : list (N * case)) : list N := failing_ids check_C08 l.
Definition knownclass (l : list (N * case)) : list (N * N) := [].
Definition explain (c : case) := (run_obs (c_env c) (winit (c_dbs c) (c_colls c) (c_parts c)) (c_ops c), c_obs c).
