(* C08 — proofs of the lemmas used by C08/Props.v *)
From Coq Require Import List String NArith Bool Lia ZifyN ZifyBool.
From Verif Require Import Base.Util Writer.Model C08.Check.
From Verif Require gen.Gen_getObjState.
Import ListNotations.
Local Open Scope N_scope.

Definition conv (x : Gen_getObjState.InfoState) : state :=
  match x with
  | Gen_getObjState.InfoStateUnknown => Unknown
  | Gen_getObjState.InfoStateCreated => Created
  | Gen_getObjState.InfoStateDropped => Dropped
  end.

(* ---- the decision function ---- *)

Lemma decide_gen_eq : forall m c d cok dok,
  conv (Gen_getObjState.getObjState m c d cok dok) = decide m c d cok dok.
Proof.
  intros m c d cok dok.
  unfold Gen_getObjState.getObjState, decide.
  destruct cok, dok; cbn [negb andb];
    repeat match goal with
           | |- context [N.leb ?a ?b] => destruct (N.leb a b)
           | |- context [N.ltb ?a ?b] => destruct (N.ltb a b)
           end; reflexivity.
Qed.

Lemma decide_spec : forall m c d cok dok,
  (decide m c d cok dok = Dropped <->
     (cok = false /\ dok = true /\ m <= d) \/ (cok = true /\ dok = false /\ m < c)
     \/ (cok = true /\ dok = true /\ d <= c /\ m < c) \/ (cok = true /\ dok = true /\ c < d /\ m <= d))
  /\ (decide m c d cok dok = Created <->
     (cok = true /\ dok = false /\ c <= m) \/ (cok = true /\ dok = true /\ d <= c /\ c <= m)).
Proof.
  intros m c d cok dok.
  unfold decide.
  destruct cok, dok; cbn [negb andb];
    repeat match goal with
           | |- context [N.leb ?a ?b] => let E := fresh "E" in destruct (N.leb a b) eqn:E
           | |- context [N.ltb ?a ?b] => let E := fresh "E" in destruct (N.ltb a b) eqn:E
           end;
    (split; split; intros HH;
     first [ discriminate HH | reflexivity | (exfalso; lia) | (clear HH; lia) | lia ]).
Qed.

Lemma incarnation : forall t c d cok, (cok = true -> c = d + 1) ->
  (t <= d -> decide t c d cok true = Dropped)
  /\ (d < t -> decide t c d cok true = if cok then Created else Unknown).
Proof.
  intros t c d cok Hc.
  unfold decide.
  destruct cok; cbn [negb andb].
  - specialize (Hc eq_refl). subst c.
    split; intros H.
    + destruct (N.leb_spec d (d + 1)); [| lia].
      destruct (N.leb_spec (d + 1) t); [lia | reflexivity].
    + destruct (N.leb_spec d (d + 1)); [| lia].
      destruct (N.leb_spec (d + 1) t); [reflexivity | lia].
  - split; intros H.
    + destruct (N.leb_spec t d); [reflexivity | lia].
    + destruct (N.leb_spec t d); [lia | reflexivity].
Qed.

(* ---- the cascade ---- *)

Lemma skip_is_silent : forall e s o f db coll ts s1 c1,
  op_target o = Some (db, coll, ts) ->
  wait_obj e s db coll "" ts = (s1, c1, Skip) ->
  handle e s o f = (s1, c1, true).
Proof.
  intros e s o f db coll ts s1 c1 Ht Hw.
  destruct o; cbn in Ht; try discriminate Ht;
    injection Ht as <- <- <-; cbn [handle]; rewrite Hw; reflexivity.
Qed.

Lemma unknown_is_error : forall e s o f db coll ts s1 c1,
  op_target o = Some (db, coll, ts) ->
  wait_obj e s db coll "" ts = (s1, c1, Fail) ->
  handle e s o f = (s1, c1, false).
Proof.
  intros e s o f db coll ts s1 c1 Ht Hw.
  destruct o; cbn in Ht; try discriminate Ht;
    injection Ht as <- <- <-; cbn [handle]; rewrite Hw; reflexivity.
Qed.

(* wait_coll / wait_db in terms of tbl_state *)
Lemma wait_coll_tbl : forall e s coll db ts,
  wait_coll e s coll db ts =
  match tbl_state (coli s) (coll_key coll db) ts with
  | Unknown =>
      let '(tdb, tcoll) := map_names (e_nm e) db coll in
      let pc := probe_call KDescribeCollection tdb "" tcoll [] in
      if existsb (pair_str_eqb (tdb, tcoll)) (e_colls e)
      then ({| dbi := dbi s; coli := sput (coli s) (ckey (coll_key coll db)) (sdef (coli s) (dkey (coll_key coll db)) + 1);
               parti := parti s |}, [pc], Created)
      else (s, [pc], Unknown)
  | st => (s, [], st)
  end.
Proof. intros. reflexivity. Qed.

Lemma wait_coll_dropped : forall e s coll db ts,
  tbl_state (coli s) (coll_key coll db) ts = Dropped ->
  wait_coll e s coll db ts = (s, [], Dropped).
Proof. intros e s coll db ts H. rewrite wait_coll_tbl, H. reflexivity. Qed.

Lemma wait_coll_created : forall e s coll db ts,
  tbl_state (coli s) (coll_key coll db) ts = Created ->
  wait_coll e s coll db ts = (s, [], Created).
Proof. intros e s coll db ts H. rewrite wait_coll_tbl, H. reflexivity. Qed.

Lemma wait_db_tbl : forall e s db ts coll,
  wait_db e s db ts coll =
  if String.eqb db "" || String.eqb db "default" then (s, [], Created)
  else
    match tbl_state (dbi s) (db_key db) ts with
    | Unknown =>
        let tdb := fst (map_names (e_nm e) db coll) in
        let pc := probe_call KDescribeDatabase "" tdb "" [] in
        if mem_str tdb (e_dbs e)
        then ({| dbi := sput (dbi s) (ckey (db_key db)) (sdef (dbi s) (dkey (db_key db)) + 1);
                 coli := coli s; parti := parti s |}, [pc], Created)
        else (s, [pc], Unknown)
    | st => (s, [], st)
    end.
Proof. intros. reflexivity. Qed.

(* the database stage of wait_obj, as a function *)
Definition db_stage (e : env) (s : wst) (db coll : string) (ts : N) : wst * list call * state :=
  if String.eqb db "" then (s, [], Created) else wait_db e s db ts coll.

Lemma wait_obj_unfold : forall e s db coll part ts,
  e_milvus e = true ->
  wait_obj e s db coll part ts =
  let '(s1, c1, r1) := db_stage e s db coll ts in
  match r1 with
  | Unknown => (s1, c1, Fail) | Dropped => (s1, c1, Skip)
  | Created =>
      let '(s2, c2, r2) := if String.eqb coll "" then (s1, [], Created) else wait_coll e s1 coll db ts in
      match r2 with
      | Unknown => (s2, c1 ++ c2, Fail) | Dropped => (s2, c1 ++ c2, Skip)
      | Created =>
          let '(s3, c3, r3) := if String.eqb coll "" || String.eqb part "" then (s2, [], Created)
                               else wait_part e s2 coll part db ts in
          (s3, c1 ++ c2 ++ c3, match r3 with Unknown => Fail | Dropped => Skip | Created => Go end)
      end
  end.
Proof. intros e s db coll part ts Hm. unfold wait_obj, db_stage. rewrite Hm. reflexivity. Qed.

Lemma db_stage_default : forall e s db coll ts,
  (db = "" \/ db = "default")%string -> db_stage e s db coll ts = (s, [], Created).
Proof.
  intros e s db coll ts [-> | ->]; reflexivity.
Qed.

Lemma neq_eqb_false : forall a b : string, a <> b -> String.eqb a b = false.
Proof. intros a b H. destruct (String.eqb_spec a b); [contradiction | reflexivity]. Qed.

Lemma wait_obj_dead : forall e s db coll ts d,
  e_milvus e = true -> (db = "" \/ db = "default")%string -> coll <> ""%string ->
  coli s (dkey (coll_key coll db)) = Some d ->
  (coli s (ckey (coll_key coll db)) = None \/ coli s (ckey (coll_key coll db)) = Some (d + 1)) ->
  ts <= d ->
  wait_obj e s db coll "" ts = (s, [], Skip).
Proof.
  intros e s db coll ts d Hm Hdb Hcoll Hd Hc Hts.
  rewrite (wait_obj_unfold _ _ _ _ _ _ Hm).
  rewrite (db_stage_default _ _ _ _ _ Hdb).
  rewrite (neq_eqb_false _ _ Hcoll).
  assert (Ht : tbl_state (coli s) (coll_key coll db) ts = Dropped).
  { unfold tbl_state, sdef. rewrite Hd.
    destruct Hc as [Hc | Hc]; rewrite Hc.
    - apply (proj1 (incarnation ts 0 d false (fun H => False_ind _ (diff_false_true H)))). exact Hts.
    - apply (proj1 (incarnation ts (d + 1) d true (fun _ => eq_refl))). exact Hts. }
  rewrite (wait_coll_dropped _ _ _ _ _ Ht). reflexivity.
Qed.

Lemma replay_dead_incarnation : forall e s o f db coll ts d,
  e_milvus e = true -> (db = "" \/ db = "default")%string -> coll <> ""%string ->
  op_target o = Some (db, coll, ts) ->
  coli s (dkey (coll_key coll db)) = Some d ->
  (coli s (ckey (coll_key coll db)) = None \/ coli s (ckey (coll_key coll db)) = Some (d + 1)) ->
  ts <= d ->
  handle e s o f = (s, [], true).
Proof.
  intros e s o f db coll ts d Hm Hdb Hcoll Ht Hd Hc Hts.
  apply (skip_is_silent e s o f db coll ts s [] Ht).
  exact (wait_obj_dead e s db coll ts d Hm Hdb Hcoll Hd Hc Hts).
Qed.

Lemma newer_incarnation_applies : forall e s db coll ts d,
  e_milvus e = true -> (db = "" \/ db = "default")%string -> coll <> ""%string ->
  coli s (dkey (coll_key coll db)) = Some d -> coli s (ckey (coll_key coll db)) = Some (d + 1) -> d < ts ->
  wait_obj e s db coll "" ts = (s, [], Go).
Proof.
  intros e s db coll ts d Hm Hdb Hcoll Hd Hc Hts.
  rewrite (wait_obj_unfold _ _ _ _ _ _ Hm).
  rewrite (db_stage_default _ _ _ _ _ Hdb).
  rewrite (neq_eqb_false _ _ Hcoll).
  assert (Ht : tbl_state (coli s) (coll_key coll db) ts = Created).
  { unfold tbl_state, sdef. rewrite Hd, Hc.
    apply (proj2 (incarnation ts (d + 1) d true (fun _ => eq_refl))). exact Hts. }
  rewrite (wait_coll_created _ _ _ _ _ Ht).
  cbn. reflexivity.
Qed.

(* ---- the checker accepts the model ---- *)

Definition all_probes (cs : list call) : bool := forallb (fun c => is_probe (k_kind c)) cs.

(* the collection stage, when the collection is recorded dropped *)
Lemma coll_stage_dropped : forall e s coll db ts,
  negb (String.eqb coll "") && match tbl_state (coli s) (coll_key coll db) ts with Dropped => true | _ => false end = true ->
  (if String.eqb coll "" then (s, [], Created) else wait_coll e s coll db ts) = (s, [], Dropped).
Proof.
  intros e s coll db ts H.
  apply andb_prop in H. destruct H as [H1 H2].
  destruct (String.eqb coll ""); [discriminate H1 |].
  destruct (tbl_state (coli s) (coll_key coll db) ts) eqn:Ht; try discriminate H2.
  apply wait_coll_dropped. exact Ht.
Qed.

Lemma dropped_skips : forall e s db coll ts,
  e_milvus e = true ->
  obj_dropped e s db coll ts = true ->
  exists s1 c1, wait_obj e s db coll "" ts = (s1, c1, Skip) /\ all_probes c1 = true.
Proof.
  intros e s db coll ts Hm Hd.
  rewrite (wait_obj_unfold _ _ _ _ _ _ Hm).
  unfold obj_dropped in Hd.
  unfold db_stage. rewrite wait_db_tbl.
  destruct (String.eqb db "" || String.eqb db "default") eqn:Hdef.
  - (* default database *)
    assert (Hs : (if String.eqb db "" then (s, @nil call, Created) else (s, [], Created)) = (s, [], Created))
      by (destruct (String.eqb db ""); reflexivity).
    rewrite Hs.
    rewrite (coll_stage_dropped e s coll db ts Hd).
    exists s, []. split; reflexivity.
  - apply orb_false_elim in Hdef. destruct Hdef as [Hdef1 Hdef2].
    rewrite Hdef1.
    destruct (tbl_state (dbi s) (db_key db) ts) eqn:Hdb.
    + (* Unknown: found downstream *)
      rewrite <- andb_assoc in Hd.
      apply andb_prop in Hd. destruct Hd as [Hmem Hd].
      cbv zeta. rewrite Hmem.
      set (s' := {| dbi := sput (dbi s) (ckey (db_key db)) (sdef (dbi s) (dkey (db_key db)) + 1);
                    coli := coli s; parti := parti s |}).
      assert (Hd' : negb (String.eqb coll "") &&
                    match tbl_state (coli s') (coll_key coll db) ts with Dropped => true | _ => false end = true)
        by exact Hd.
      rewrite (coll_stage_dropped e s' coll db ts Hd').
      eexists. eexists. split; reflexivity.
    + (* Created *)
      rewrite (coll_stage_dropped e s coll db ts Hd).
      exists s, []. split; reflexivity.
    + (* Dropped *)
      exists s, []. split; reflexivity.
Qed.

Lemma model_passes_checker : forall e s ops,
  check_steps e s ops (run_obs e s ops) = true.
Proof.
  intros e s ops. revert s.
  induction ops as [| [o f] r IH]; intros s.
  - reflexivity.
  - cbn [run_obs check_steps].
    destruct (handle e s o f) as [[s1 cs] ok] eqn:Hh.
    cbn [so_ok so_calls].
    rewrite IH, andb_true_r.
    destruct (e_milvus e) eqn:Hm; [| reflexivity].
    destruct (op_target o) as [[[db coll] ts] |] eqn:Ht; [| reflexivity].
    destruct (obj_dropped e s db coll ts) eqn:Hd; [| reflexivity].
    destruct (dropped_skips e s db coll ts Hm Hd) as [s1' [c1' [Hw Hp]]].
    rewrite (skip_is_silent e s o f db coll ts s1' c1' Ht Hw) in Hh.
    injection Hh as <- <- <-.
    exact Hp.
Qed.
