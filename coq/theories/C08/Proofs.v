(* C08 — proofs of the lemmas used by C08/Props.v *)
From Coq Require Import List String NArith Bool Lia ZifyN ZifyBool.
From Verif Require Import Base.Util Writer.Model C08.Check.
From Verif Require gen.Gen_getObjState.
Import ListNotations.
Local Open Scope N_scope.

Definition conv (x : Gen_getObjState.InfoState) : state :=
  match x with
  | Gen_getObjState.InfoStateUnknown => Unknown
  | Gen_getObjState.InfoStateCreated => Created
  | Gen_getObjState.InfoStateDropped => Dropped
  end.

(* ---- the decision function ---- *)

Lemma decide_gen_eq : forall m c d cok dok,
  conv (Gen_getObjState.getObjState m c d cok dok) = decide m c d cok dok.
Proof.
  intros m c d cok dok.
  unfold Gen_getObjState.getObjState, decide.
  destruct cok, dok; cbn [negb andb];
    repeat match goal with
           | |- context [N.leb ?a ?b] => destruct (N.leb a b)
           | |- context [N.ltb ?a ?b] => destruct (N.ltb a b)
           end; reflexivity.
Qed.

Lemma decide_spec : forall m c d cok dok,
  (decide m c d cok dok = Dropped <->
     (cok = false /\ dok = true /\ m <= d) \/ (cok = true /\ dok = false /\ m < c)
     \/ (cok = true /\ dok = true /\ d <= c /\ m < c) \/ (cok = true /\ dok = true /\ c < d /\ m <= d))
  /\ (decide m c d cok dok = Created <->
     (cok = true /\ dok = false /\ c <= m) \/ (cok = true /\ dok = true /\ d <= c /\ c <= m)).
Proof.
  intros m c d cok dok.
  unfold decide.
  destruct cok, dok; cbn [negb andb];
    repeat match goal with
           | |- context [N.leb ?a ?b] => let E := fresh "E" in destruct (N.leb a b) eqn:E
           | |- context [N.ltb ?a ?b] => let E := fresh "E" in destruct (N.ltb a b) eqn:E
           end;
    (split; split; intros HH;
     first [ discriminate HH | reflexivity | (exfalso; lia) | (clear HH; lia) | lia ]).
Qed.

Lemma incarnation : forall t c d cok, (cok = true -> c = d + 1) ->
  (t <= d -> decide t c d cok true = Dropped)
  /\ (d < t -> decide t c d cok true = if cok then Created else Unknown).
Proof.
  intros t c d cok Hc.
  unfold decide.
  destruct cok; cbn [negb andb].
  - specialize (Hc eq_refl). subst c.
    split; intros H.
    + destruct (N.leb_spec d (d + 1)); [| lia].
      destruct (N.leb_spec (d + 1) t); [lia | reflexivity].
    + destruct (N.leb_spec d (d + 1)); [| lia].
      destruct (N.leb_spec (d + 1) t); [reflexivity | lia].
  - split; intros H.
    + destruct (N.leb_spec t d); [reflexivity | lia].
    + destruct (N.leb_spec t d); [lia | reflexivity].
Qed.

(* ---- the cascade ---- *)

Lemma skip_is_silent : forall e s o f db coll ts s1 c1,
  op_target o = Some (db, coll, ts) ->
  wait_obj e s db coll "" ts = (s1, c1, Skip) ->
  handle e s o f = (s1, c1, true).
Proof.
  intros e s o f db coll ts s1 c1 Ht Hw.
  destruct o; cbn in Ht; try discriminate Ht;
    injection Ht as <- <- <-; cbn [handle]; rewrite Hw; reflexivity.
Qed.

Lemma unknown_is_error : forall e s o f db coll ts s1 c1,
  op_target o = Some (db, coll, ts) ->
  wait_obj e s db coll "" ts = (s1, c1, Fail) ->
  handle e s o f = (s1, c1, false).
Proof.
  intros e s o f db coll ts s1 c1 Ht Hw.
  destruct o; cbn in Ht; try discriminate Ht;
    injection Ht as <- <- <-; cbn [handle]; rewrite Hw; reflexivity.
Qed.

(* wait_coll / wait_db in terms of tbl_state *)
Lemma wait_coll_tbl : forall e s coll db ts,
  wait_coll e s coll db ts =
  match tbl_state (coli s) (coll_key coll db) ts with
  | Unknown =>
      let '(tdb, tcoll) := map_names (e_nm e) db coll in
      let pc := probe_call KDescribeCollection tdb "" tcoll [] in
      if existsb (pair_str_eqb (tdb, tcoll)) (e_colls e)
      then ({| dbi := dbi s; coli := sput (coli s) (ckey (coll_key coll db)) (sdef (coli s) (dkey (coll_key coll db)) + 1);
               parti := parti s |}, [pc], Created)
      else (s, [pc], Unknown)
  | st => (s, [], st)
  end.
Proof. intros. reflexivity. Qed.

Lemma wait_coll_dropped : forall e s coll db ts,
  tbl_state (coli s) (coll_key coll db) ts = Dropped ->
  wait_coll e s coll db ts = (s, [], Dropped).
Proof. intros e s coll db ts H. rewrite wait_coll_tbl, H. reflexivity. Qed.

Lemma wait_coll_created : forall e s coll db ts,
  tbl_state (coli s) (coll_key coll db) ts = Created ->
  wait_coll e s coll db ts = (s, [], Created).
Proof. intros e s coll db ts H. rewrite wait_coll_tbl, H. reflexivity. Qed.

Lemma wait_db_tbl : forall e s db ts coll,
  wait_db e s db ts coll =
  if String.eqb db "" || String.eqb db "default" then (s, [], Created)
  else
    match tbl_state (dbi s) (db_key db) ts with
    | Unknown =>
        let tdb := fst (map_names (e_nm e) db coll) in
        let pc := probe_call KDescribeDatabase "" tdb "" [] in
        if mem_str tdb (e_dbs e)
        then ({| dbi := sput (dbi s) (ckey (db_key db)) (sdef (dbi s) (dkey (db_key db)) + 1);
                 coli := coli s; parti := parti s |}, [pc], Created)
        else (s, [pc], Unknown)
    | st => (s, [], st)
    end.
Proof. intros. reflexivity. Qed.

(* the database stage of wait_obj, as a function *)
Definition db_stage (e : env) (s : wst) (db coll : string) (ts : N) : wst * list call * state :=
  if String.eqb db "" then (s, [], Created) else wait_db e s db ts coll.

Lemma wait_obj_unfold : forall e s db coll part ts,
  e_milvus e = true ->
  wait_obj e s db coll part ts =
  let '(s1, c1, r1) := db_stage e s db coll ts in
  match r1 with
  | Unknown => (s1, c1, Fail) | Dropped => (s1, c1, Skip)
  | Created =>
      let '(s2, c2, r2) := if String.eqb coll "" then (s1, [], Created) else wait_coll e s1 coll db ts in
      match r2 with
      | Unknown => (s2, c1 ++ c2, Fail) | Dropped => (s2, c1 ++ c2, Skip)
      | Created =>
          let '(s3, c3, r3) := if String.eqb coll "" || String.eqb part "" then (s2, [], Created)
                               else wait_part e s2 coll part db ts in
          (s3, c1 ++ c2 ++ c3, match r3 with Unknown => Fail | Dropped => Skip | Created => Go end)
      end
  end.
Proof. intros e s db coll part ts Hm. unfold wait_obj, db_stage. rewrite Hm. reflexivity. Qed.

Lemma db_stage_default : forall e s db coll ts,
  (db = "" \/ db = "default")%string -> db_stage e s db coll ts = (s, [], Created).
Proof.
  intros e s db coll ts [-> | ->]; reflexivity.
Qed.

Lemma neq_eqb_false : forall a b : string, a <> b -> String.eqb a b = false.
Proof. intros a b H. destruct (String.eqb_spec a b); [contradiction | reflexivity]. Qed.

Lemma wait_obj_dead : forall e s db coll ts d,
  e_milvus e = true -> (db = "" \/ db = "default")%string -> coll <> ""%string ->
  coli s (dkey (coll_key coll db)) = Some d ->
  (coli s (ckey (coll_key coll db)) = None \/ coli s (ckey (coll_key coll db)) = Some (d + 1)) ->
  ts <= d ->
  wait_obj e s db coll "" ts = (s, [], Skip).
Proof.
  intros e s db coll ts d Hm Hdb Hcoll Hd Hc Hts.
  rewrite (wait_obj_unfold _ _ _ _ _ _ Hm).
  rewrite (db_stage_default _ _ _ _ _ Hdb).
  rewrite (neq_eqb_false _ _ Hcoll).
  assert (Ht : tbl_state (coli s) (coll_key coll db) ts = Dropped).
  { unfold tbl_state, sdef. rewrite Hd.
    destruct Hc as [Hc | Hc]; rewrite Hc.
    - apply (proj1 (incarnation ts 0 d false (fun H => False_ind _ (diff_false_true H)))). exact Hts.
    - apply (proj1 (incarnation ts (d + 1) d true (fun _ => eq_refl))). exact Hts. }
  rewrite (wait_coll_dropped _ _ _ _ _ Ht). reflexivity.
Qed.

Lemma replay_dead_incarnation : forall e s o f db coll ts d,
  e_milvus e = true -> (db = "" \/ db = "default")%string -> coll <> ""%string ->
  op_target o = Some (db, coll, ts) ->
  coli s (dkey (coll_key coll db)) = Some d ->
  (coli s (ckey (coll_key coll db)) = None \/ coli s (ckey (coll_key coll db)) = Some (d + 1)) ->
  ts <= d ->
  handle e s o f = (s, [], true).
Proof.
  intros e s o f db coll ts d Hm Hdb Hcoll Ht Hd Hc Hts.
  apply (skip_is_silent e s o f db coll ts s [] Ht).
  exact (wait_obj_dead e s db coll ts d Hm Hdb Hcoll Hd Hc Hts).
Qed.

Lemma newer_incarnation_applies : forall e s db coll ts d,
  e_milvus e = true -> (db = "" \/ db = "default")%string -> coll <> ""%string ->
  coli s (dkey (coll_key coll db)) = Some d -> coli s (ckey (coll_key coll db)) = Some (d + 1) -> d < ts ->
  wait_obj e s db coll "" ts = (s, [], Go).
Proof.
  intros e s db coll ts d Hm Hdb Hcoll Hd Hc Hts.
  rewrite (wait_obj_unfold _ _ _ _ _ _ Hm).
  rewrite (db_stage_default _ _ _ _ _ Hdb).
  rewrite (neq_eqb_false _ _ Hcoll).
  assert (Ht : tbl_state (coli s) (coll_key coll db) ts = Created).
  { unfold tbl_state, sdef. rewrite Hd, Hc.
    apply (proj2 (incarnation ts (d + 1) d true (fun _ => eq_refl))). exact Hts. }
  rewrite (wait_coll_created _ _ _ _ _ Ht).
  cbn. reflexivity.
Qed.

(* ---- the checker accepts the model ---- *)

Definition all_probes (cs : list call) : bool := forallb (fun c => is_probe (k_kind c)) cs.

(* the collection stage, when the collection is recorded dropped *)
Lemma coll_stage_dropped : forall e s coll db ts,
  negb (String.eqb coll "") && match tbl_state (coli s) (coll_key coll db) ts with Dropped => true | _ => false end = true ->
  (if String.eqb coll "" then (s, [], Created) else wait_coll e s coll db ts) = (s, [], Dropped).
Proof.
  intros e s coll db ts H.
  apply andb_prop in H. destruct H as [H1 H2].
  destruct (String.eqb coll ""); [discriminate H1 |].
  destruct (tbl_state (coli s) (coll_key coll db) ts) eqn:Ht; try discriminate H2.
  apply wait_coll_dropped. exact Ht.
Qed.

Lemma dropped_skips : forall e s db coll ts,
  e_milvus e = true ->
  obj_dropped e s db coll ts = true ->
  exists s1 c1, wait_obj e s db coll "" ts = (s1, c1, Skip) /\ all_probes c1 = true.
Proof.
  intros e s db coll ts Hm Hd.
  rewrite (wait_obj_unfold _ _ _ _ _ _ Hm).
  unfold obj_dropped in Hd.
  unfold db_stage. rewrite wait_db_tbl.
  destruct (String.eqb db "" || String.eqb db "default") eqn:Hdef.
  - (* default database *)
    assert (Hs : (if String.eqb db "" then (s, @nil call, Created) else (s, [], Created)) = (s, [], Created))
      by (destruct (String.eqb db ""); reflexivity).
    rewrite Hs.
    rewrite (coll_stage_dropped e s coll db ts Hd).
    exists s, []. split; reflexivity.
  - apply orb_false_elim in Hdef. destruct Hdef as [Hdef1 Hdef2].
    rewrite Hdef1.
    destruct (tbl_state (dbi s) (db_key db) ts) eqn:Hdb.
    + (* Unknown: found downstream *)
      rewrite <- andb_assoc in Hd.
      apply andb_prop in Hd. destruct Hd as [Hmem Hd].
      cbv zeta. rewrite Hmem.
      set (s' := {| dbi := sput (dbi s) (ckey (db_key db)) (sdef (dbi s) (dkey (db_key db)) + 1);
                    coli := coli s; parti := parti s |}).
      assert (Hd' : negb (String.eqb coll "") &&
                    match tbl_state (coli s') (coll_key coll db) ts with Dropped => true | _ => false end = true)
        by exact Hd.
      rewrite (coll_stage_dropped e s' coll db ts Hd').
      eexists. eexists. split; reflexivity.
    + (* Created *)
      rewrite (coll_stage_dropped e s coll db ts Hd).
      exists s, []. split; reflexivity.
    + (* Dropped *)
      exists s, []. split; reflexivity.
Qed.

(* ---- partition lists: the kept partitions are not recorded dropped in the tables before the step ---- *)

Lemma str_length_append : forall a b : string,
  String.length (a ++ b) = (String.length a + String.length b)%nat.
Proof. induction a as [| x a IH]; intros b; cbn; [reflexivity | rewrite IH; reflexivity]. Qed.

Lemma append_inj_suffix : forall a b c d : string,
  String.length c = String.length d -> (a ++ c = b ++ d)%string -> a = b /\ c = d.
Proof.
  induction a as [| x a IH]; intros b c d Hl H; destruct b as [| y b]; cbn in H.
  - split; [reflexivity | exact H].
  - exfalso. rewrite H in Hl. cbn in Hl. rewrite str_length_append in Hl. lia.
  - exfalso. rewrite <- H in Hl. cbn in Hl. rewrite str_length_append in Hl. lia.
  - injection H as -> H. destruct (IH b c d Hl H) as [-> ->]. split; reflexivity.
Qed.

Lemma ckey_neq : forall k0 k, k0 <> k -> String.eqb (ckey k0) (ckey k) = false.
Proof.
  intros k0 k Hn. apply neq_eqb_false. unfold ckey. intros H.
  apply append_inj_suffix in H; [| reflexivity]. destruct H as [H _]. contradiction.
Qed.

Lemma ckey_dkey_neq : forall k0 k, String.eqb (ckey k0) (dkey k) = false.
Proof.
  intros k0 k. apply neq_eqb_false. unfold ckey, dkey. intros H.
  apply append_inj_suffix in H; [| reflexivity]. destruct H as [_ H]. discriminate H.
Qed.

(* every key recorded dropped (at time ts) in m is still recorded dropped in m' *)
Definition pres (ts : N) (m m' : smap) : Prop :=
  forall k, tbl_state m k ts = Dropped -> tbl_state m' k ts = Dropped.

Lemma pres_refl : forall ts m, pres ts m m.
Proof. intros ts m k H. exact H. Qed.

Lemma pres_trans : forall ts m1 m2 m3, pres ts m1 m2 -> pres ts m2 m3 -> pres ts m1 m3.
Proof. intros ts m1 m2 m3 H1 H2 k H. apply H2, H1, H. Qed.

(* recording a creation for a key whose decision is Unknown keeps every Dropped decision *)
Lemma sput_ckey_pres : forall m k0 v ts,
  tbl_state m k0 ts = Unknown -> pres ts m (sput m (ckey k0) v).
Proof.
  intros m k0 v ts Hu k Hk.
  destruct (String.eqb_spec k0 k) as [-> | Hn].
  - rewrite Hu in Hk. discriminate Hk.
  - unfold tbl_state, sdef, sput in *.
    rewrite (ckey_neq _ _ Hn), (ckey_dkey_neq k0 k). exact Hk.
Qed.

Lemma wait_part_tbl : forall e s coll part db ts,
  wait_part e s coll part db ts =
  match tbl_state (parti s) (part_key part coll db) ts with
  | Unknown =>
      let '(tdb, tcoll) := map_names (e_nm e) db coll in
      let pc := probe_call KDescribePartition tdb "" tcoll [part] in
      if existsb (fun x => String.eqb (fst x) tdb && pair_str_eqb (snd x) (tcoll, part)) (e_parts e)
      then ({| dbi := dbi s; coli := coli s;
               parti := sput (parti s) (ckey (part_key part coll db)) (sdef (parti s) (dkey (part_key part coll db)) + 1) |},
            [pc], Created)
      else (s, [pc], Unknown)
  | st => (s, [], st)
  end.
Proof. intros. reflexivity. Qed.

Lemma wait_part_inv : forall e s coll part db ts s1 c1 r,
  wait_part e s coll part db ts = (s1, c1, r) ->
  pres ts (parti s) (parti s1) /\ all_probes c1 = true
  /\ (r <> Dropped -> tbl_state (parti s) (part_key part coll db) ts <> Dropped).
Proof.
  intros e s coll part db ts s1 c1 r H.
  rewrite wait_part_tbl in H.
  destruct (tbl_state (parti s) (part_key part coll db) ts) eqn:Ht.
  - destruct (map_names (e_nm e) db coll) as [tdb tcoll].
    cbv zeta in H.
    destruct (existsb _ (e_parts e)); injection H as <- <- <-.
    + split; [| split].
      * cbn [parti]. apply sput_ckey_pres. exact Ht.
      * reflexivity.
      * intros _. discriminate.
    + split; [apply pres_refl | split; [reflexivity | intros _; discriminate]].
  - injection H as <- <- <-.
    split; [apply pres_refl | split; [reflexivity | intros _; discriminate]].
  - injection H as <- <- <-.
    split; [apply pres_refl | split; [reflexivity | intros Hn; contradiction]].
Qed.

Lemma wait_db_inv : forall e s db ts coll s1 c1 r,
  wait_db e s db ts coll = (s1, c1, r) -> parti s1 = parti s /\ all_probes c1 = true.
Proof.
  intros e s db ts coll s1 c1 r H.
  rewrite wait_db_tbl in H.
  destruct (String.eqb db "" || String.eqb db "default").
  - injection H as <- <- <-. split; reflexivity.
  - destruct (tbl_state (dbi s) (db_key db) ts).
    + cbv zeta in H. destruct (mem_str _ (e_dbs e)); injection H as <- <- <-; split; reflexivity.
    + injection H as <- <- <-. split; reflexivity.
    + injection H as <- <- <-. split; reflexivity.
Qed.

Lemma db_stage_inv : forall e s db coll ts s1 c1 r,
  db_stage e s db coll ts = (s1, c1, r) -> parti s1 = parti s /\ all_probes c1 = true.
Proof.
  intros e s db coll ts s1 c1 r H. unfold db_stage in H.
  destruct (String.eqb db "").
  - injection H as <- <- <-. split; reflexivity.
  - exact (wait_db_inv _ _ _ _ _ _ _ _ H).
Qed.

Lemma wait_coll_inv : forall e s coll db ts s1 c1 r,
  wait_coll e s coll db ts = (s1, c1, r) -> parti s1 = parti s /\ all_probes c1 = true.
Proof.
  intros e s coll db ts s1 c1 r H.
  rewrite wait_coll_tbl in H.
  destruct (tbl_state (coli s) (coll_key coll db) ts).
  - destruct (map_names (e_nm e) db coll) as [tdb tcoll]. cbv zeta in H.
    destruct (existsb _ (e_colls e)); injection H as <- <- <-; split; reflexivity.
  - injection H as <- <- <-. split; reflexivity.
  - injection H as <- <- <-. split; reflexivity.
Qed.

Lemma all_probes_app : forall a b, all_probes a = true -> all_probes b = true -> all_probes (a ++ b) = true.
Proof. intros a b Ha Hb. unfold all_probes in *. rewrite forallb_app, Ha, Hb. reflexivity. Qed.

Lemma wait_obj_inv : forall e s db coll part ts s1 c1 r,
  e_milvus e = true ->
  wait_obj e s db coll part ts = (s1, c1, r) ->
  pres ts (parti s) (parti s1) /\ all_probes c1 = true
  /\ (r = Go -> coll <> ""%string -> part <> ""%string ->
      tbl_state (parti s) (part_key part coll db) ts <> Dropped).
Proof.
  intros e s db coll part ts s1 c1 r Hm H.
  rewrite (wait_obj_unfold _ _ _ _ _ _ Hm) in H.
  destruct (db_stage e s db coll ts) as [[sa ca] ra] eqn:Ha.
  destruct (db_stage_inv _ _ _ _ _ _ _ _ Ha) as [Hpa Hca].
  destruct ra.
  - injection H as <- <- <-. rewrite Hpa.
    split; [apply pres_refl | split; [exact Hca | intros HH; discriminate HH]].
  - (* Created *)
    destruct (if String.eqb coll "" then (sa, [], Created) else wait_coll e sa coll db ts) as [[sb cb] rb] eqn:Hb.
    assert (Hb' : parti sb = parti sa /\ all_probes cb = true).
    { destruct (String.eqb coll "").
      - injection Hb as <- <- <-. split; reflexivity.
      - exact (wait_coll_inv _ _ _ _ _ _ _ _ Hb). }
    destruct Hb' as [Hpb Hcb].
    destruct rb.
    + injection H as <- <- <-. rewrite Hpb, Hpa.
      split; [apply pres_refl | split; [apply all_probes_app; assumption | intros HH; discriminate HH]].
    + (* Created *)
      destruct (String.eqb_spec coll "") as [Hc0 | Hc0].
      * cbn [orb] in H. injection H as <- <- <-. rewrite Hpb, Hpa.
        split; [apply pres_refl |
                split; [repeat apply all_probes_app; try assumption; reflexivity | intros _ Hn; contradiction]].
      * cbn [orb] in H.
        destruct (String.eqb_spec part "") as [Hp0 | Hp0].
        -- injection H as <- <- <-. rewrite Hpb, Hpa.
           split; [apply pres_refl |
                   split; [repeat apply all_probes_app; try assumption; reflexivity | intros _ _ Hn; contradiction]].
        -- destruct (wait_part e sb coll part db ts) as [[sc cc] rc] eqn:Hc.
           destruct (wait_part_inv _ _ _ _ _ _ _ _ _ Hc) as [Hpc [Hcc Hrc]].
           injection H as <- <- <-.
           rewrite Hpb, Hpa in Hpc, Hrc.
           split; [exact Hpc | split; [repeat apply all_probes_app; assumption |]].
           intros Hgo _ _. apply Hrc. intros ->. discriminate Hgo.
    + injection H as <- <- <-. rewrite Hpb, Hpa.
      split; [apply pres_refl | split; [apply all_probes_app; assumption | intros HH; discriminate HH]].
  - injection H as <- <- <-. rewrite Hpa.
    split; [apply pres_refl | split; [exact Hca | intros HH; discriminate HH]].
Qed.

Lemma filter_parts_inv : forall e db coll ts ps s s1 c1 o,
  e_milvus e = true ->
  filter_parts e s db coll ps ts = (s1, c1, o) ->
  pres ts (parti s) (parti s1) /\ all_probes c1 = true
  /\ (forall kept p, o = Some kept -> In p kept -> coll <> ""%string -> p <> ""%string ->
      tbl_state (parti s) (part_key p coll db) ts <> Dropped).
Proof.
  intros e db coll ts ps.
  induction ps as [| p r IH]; intros s s1 c1 o Hm H; cbn [filter_parts] in H.
  - injection H as <- <- <-.
    split; [apply pres_refl | split; [reflexivity |]].
    intros kept p Hk Hin. injection Hk as <-. destruct Hin.
  - destruct (wait_obj e s db coll p ts) as [[sa ca] w] eqn:Hw.
    destruct (wait_obj_inv _ _ _ _ _ _ _ _ _ Hm Hw) as [Hpa [Hca Hgo]].
    destruct w.
    + (* Go *)
      destruct (filter_parts e sa db coll r ts) as [[sb cb] ob] eqn:Hf.
      destruct (IH _ _ _ _ Hm Hf) as [Hpb [Hcb Hk]].
      injection H as <- <- <-.
      split; [exact (pres_trans _ _ _ _ Hpa Hpb) | split; [apply all_probes_app; assumption |]].
      intros kept p0 Ho Hin Hc Hp0.
      destruct ob as [kept' |]; cbn in Ho; [| discriminate Ho].
      injection Ho as <-.
      destruct Hin as [<- | Hin].
      * apply Hgo; [reflexivity | exact Hc | exact Hp0].
      * intros Hd. apply (Hk kept' p0 eq_refl Hin Hc Hp0). apply Hpa. exact Hd.
    + (* Skip *)
      destruct (filter_parts e sa db coll r ts) as [[sb cb] ob] eqn:Hf.
      destruct (IH _ _ _ _ Hm Hf) as [Hpb [Hcb Hk]].
      injection H as <- <- <-.
      split; [exact (pres_trans _ _ _ _ Hpa Hpb) | split; [apply all_probes_app; assumption |]].
      intros kept p0 Ho Hin Hc Hp0 Hd.
      apply (Hk kept p0 Ho Hin Hc Hp0). apply Hpa. exact Hd.
    + (* Fail *)
      injection H as <- <- <-.
      split; [exact Hpa | split; [exact Hca |]].
      intros kept p0 Ho. discriminate Ho.
Qed.

Lemma recheck_all_probes : forall e db coll ts bycoll ps s s1 c1 b,
  e_milvus e = true ->
  recheck_all e s db coll ps ts bycoll = (s1, c1, b) -> all_probes c1 = true.
Proof.
  intros e db coll ts bycoll ps.
  induction ps as [| p r IH]; intros s s1 c1 b Hm H; cbn [recheck_all] in H.
  - injection H as <- <- <-. reflexivity.
  - destruct (if bycoll then wait_obj e s db p "" ts else wait_obj e s db coll p ts) as [[sa ca] w] eqn:Hw.
    assert (Hca : all_probes ca = true).
    { destruct bycoll; exact (proj1 (proj2 (wait_obj_inv _ _ _ _ _ _ _ _ _ Hm Hw))). }
    destruct w.
    + injection H as <- <- <-. exact Hca.
    + destruct (recheck_all e sa db coll r ts bycoll) as [[sb cb] b'] eqn:Hr.
      injection H as <- <- <-. apply all_probes_app; [exact Hca | exact (IH _ _ _ _ Hm Hr)].
    + injection H as <- <- <-. exact Hca.
Qed.

Definition parts_ok (s : wst) (db coll : string) (ts : N) (cs : list call) : bool :=
  forallb (fun c => is_probe (k_kind c)
                    || forallb (fun p => negb (part_dropped s db coll p ts)) (k_names c)) cs.

Lemma parts_ok_probes : forall s db coll ts cs, all_probes cs = true -> parts_ok s db coll ts cs = true.
Proof.
  intros s db coll ts cs. unfold all_probes, parts_ok.
  induction cs as [| c r IH]; cbn [forallb]; intros H; [reflexivity |].
  apply andb_prop in H. destruct H as [H1 H2]. rewrite H1, (IH H2). reflexivity.
Qed.

Lemma parts_ok_app : forall s db coll ts a b,
  parts_ok s db coll ts a = true -> parts_ok s db coll ts b = true -> parts_ok s db coll ts (a ++ b) = true.
Proof. intros s db coll ts a b Ha Hb. unfold parts_ok in *. rewrite forallb_app, Ha, Hb. reflexivity. Qed.

Lemma kept_not_dropped : forall s db coll ts kept,
  (forall p, In p kept -> coll <> ""%string -> p <> ""%string ->
             tbl_state (parti s) (part_key p coll db) ts <> Dropped) ->
  forallb (fun p => negb (part_dropped s db coll p ts)) kept = true.
Proof.
  intros s db coll ts kept H. apply forallb_forall. intros p Hin.
  unfold part_dropped.
  destruct (String.eqb_spec coll "") as [Hc | Hc]; [reflexivity |].
  destruct (String.eqb_spec p "") as [Hp | Hp]; [reflexivity |].
  specialize (H p Hin Hc Hp).
  destruct (tbl_state (parti s) (part_key p coll db) ts); try reflexivity.
  exfalso. apply H. reflexivity.
Qed.

(* shape shared by loadPartitions / releasePartitions *)
Lemma parts_shape_ok : forall e s db coll ps ts (f : bool) (mkcall : list string -> call) s1 cs ok,
  e_milvus e = true ->
  (forall kept, k_names (mkcall kept) = kept) ->
  (let '(sa, ca, o) := filter_parts e s db coll ps ts in
   match o with
   | None => (sa, ca, false)
   | Some [] => (sa, ca, true)
   | Some kept =>
       if f then let '(sb, cb, ok) := recheck_all e sa db coll kept ts false in (sb, ca ++ [mkcall kept] ++ cb, ok)
       else (sa, ca ++ [mkcall kept], true)
   end) = (s1, cs, ok) ->
  parts_ok s db coll ts cs = true.
Proof.
  intros e s db coll ps ts f mkcall s1 cs ok Hm Hn H.
  destruct (filter_parts e s db coll ps ts) as [[sa ca] o] eqn:Hf.
  destruct (filter_parts_inv _ _ _ _ _ _ _ _ _ Hm Hf) as [_ [Hca Hk]].
  destruct o as [kept |].
  - destruct kept as [| p0 kept'].
    + injection H as <- <- <-. apply parts_ok_probes. exact Hca.
    + set (kept := p0 :: kept') in *.
      assert (Hcl : parts_ok s db coll ts [mkcall kept] = true).
      { unfold parts_ok. cbn [forallb]. rewrite Hn.
        rewrite (kept_not_dropped s db coll ts kept (fun p Hin => Hk kept p eq_refl Hin)).
        rewrite orb_true_r. reflexivity. }
      destruct f.
      * destruct (recheck_all e sa db coll kept ts false) as [[sb cb] ok'] eqn:Hr.
        injection H as <- <- <-.
        apply parts_ok_app; [apply parts_ok_probes; exact Hca |].
        change (mkcall kept :: cb) with ([mkcall kept] ++ cb).
        apply parts_ok_app; [exact Hcl |].
        apply parts_ok_probes. exact (recheck_all_probes _ _ _ _ _ _ _ _ _ _ Hm Hr).
      * injection H as <- <- <-.
        apply parts_ok_app; [apply parts_ok_probes; exact Hca | exact Hcl].
  - injection H as <- <- <-. apply parts_ok_probes. exact Hca.
Qed.

Lemma handle_parts_ok : forall e s o f db coll ps ts s1 cs ok,
  e_milvus e = true ->
  parts_of o = Some (db, coll, ps, ts) ->
  handle e s o f = (s1, cs, ok) ->
  parts_ok s db coll ts cs = true.
Proof.
  intros e s o f db coll ps ts s1 cs ok Hm Hp Hh.
  destruct o; cbn in Hp; try discriminate Hp; injection Hp as <- <- <- <-; cbn [handle] in Hh.
  - destruct (map_names (e_nm e) db0 coll0) as [tdb tc] eqn:Hmn.
    apply (parts_shape_ok e s db0 coll0 parts ets f
             (fun kept => mk KLoadPartitions tdb "" tc kept pay stamp) s1 cs ok Hm (fun _ => eq_refl)).
    rewrite <- Hh.
    destruct (filter_parts e s db0 coll0 parts ets) as [[sa ca] [[| p0 k'] |]]; reflexivity.
  - destruct (map_names (e_nm e) db0 coll0) as [tdb tc] eqn:Hmn.
    apply (parts_shape_ok e s db0 coll0 parts ets f
             (fun kept => mk KReleasePartitions tdb "" tc kept [] stamp) s1 cs ok Hm (fun _ => eq_refl)).
    rewrite <- Hh.
    destruct (filter_parts e s db0 coll0 parts ets) as [[sa ca] [[| p0 k'] |]]; reflexivity.
Qed.

Lemma model_passes_checker : forall e s ops,
  check_steps e s ops (run_obs e s ops) = true.
Proof.
  intros e s ops. revert s.
  induction ops as [| [o f] r IH]; intros s.
  - reflexivity.
  - cbn [run_obs check_steps].
    destruct (handle e s o f) as [[s1 cs] ok] eqn:Hh.
    cbn [so_ok so_calls].
    rewrite IH, andb_true_r.
    destruct (e_milvus e) eqn:Hm; [| reflexivity].
    apply andb_true_intro. split.
    + destruct (op_target o) as [[[db coll] ts] |] eqn:Ht; [| reflexivity].
      destruct (obj_dropped e s db coll ts) eqn:Hd; [| reflexivity].
      destruct (dropped_skips e s db coll ts Hm Hd) as [s1' [c1' [Hw Hp]]].
      rewrite (skip_is_silent e s o f db coll ts s1' c1' Ht Hw) in Hh.
      injection Hh as <- <- <-.
      exact Hp.
    + destruct (parts_of o) as [[[[db coll] ps] ts] |] eqn:Hp; [| reflexivity].
      exact (handle_parts_ok e s o f db coll ps ts s1 cs ok Hm Hp Hh).
Qed.
