(* C08 — property theorems only.  Each is closed by [exact] of a lemma of C08/Proofs.v. *)
From Coq Require Import List String NArith Bool.
From Verif Require Import Base.Util Writer.Model C08.Check C08.Proofs.
From Verif Require gen.Gen_getObjState.
Import ListNotations.
Local Open Scope N_scope.

(* the decision function translated from core/writer/channel_writer.go on this run is the model's *)
Theorem C08_decision_is_source : forall m c d cok dok,
  conv (Gen_getObjState.getObjState m c d cok dok) = decide m c d cok dok.
Proof. exact decide_gen_eq. Qed.
Print Assumptions C08_decision_is_source.

(* complete characterisation of the decision over all times and presence bits *)
Theorem C08_decision_spec : forall m c d cok dok,
  (decide m c d cok dok = Dropped <->
     (cok = false /\ dok = true /\ m <= d) \/ (cok = true /\ dok = false /\ m < c)
     \/ (cok = true /\ dok = true /\ d <= c /\ m < c) \/ (cok = true /\ dok = true /\ c < d /\ m <= d))
  /\ (decide m c d cok dok = Created <->
     (cok = true /\ dok = false /\ c <= m) \/ (cok = true /\ dok = true /\ d <= c /\ c <= m)).
Proof. exact decide_spec. Qed.
Print Assumptions C08_decision_spec.

(* incarnations: with a recorded drop horizon d (a drop replayed at d, or the start-up snapshot's horizon
   which lies at or after the old incarnation's drop and before the new incarnation's creation) and a creation
   recorded, if at all, by a successful probe (d+1): operations stamped at or before d are skipped, later ones
   are never skipped — they are applied (creation recorded) or lead to a probe (creation unknown) *)
Theorem C08_incarnation : forall t c d cok, (cok = true -> c = d + 1) ->
  (t <= d -> decide t c d cok true = Dropped)
  /\ (d < t -> decide t c d cok true = if cok then Created else Unknown).
Proof. exact incarnation. Qed.
Print Assumptions C08_incarnation.

(* the cascade: an operation on (db, coll) whose readiness test says Skip makes no downstream call other than
   the probes of that test, succeeds, and leaves the tables as the test left them — for every single-object
   operation kind, every state, every oracle *)
Theorem C08_skip_is_silent : forall e s o f db coll ts s1 c1,
  op_target o = Some (db, coll, ts) ->
  wait_obj e s db coll "" ts = (s1, c1, Skip) ->
  handle e s o f = (s1, c1, true).
Proof. exact skip_is_silent. Qed.
Print Assumptions C08_skip_is_silent.

(* ... and one whose readiness test fails (object unknown and not found downstream) is an error without a
   downstream mutation *)
Theorem C08_unknown_is_error : forall e s o f db coll ts s1 c1,
  op_target o = Some (db, coll, ts) ->
  wait_obj e s db coll "" ts = (s1, c1, Fail) ->
  handle e s o f = (s1, c1, false).
Proof. exact unknown_is_error. Qed.
Print Assumptions C08_unknown_is_error.

(* replay after restart: a collection of the default database recorded dropped at horizon d (creation unknown,
   or recorded d+1): every collection-level operation stamped at or before d is skipped without any downstream
   call, without error and without touching the tables; *)
Theorem C08_replay_dead_incarnation : forall e s o f db coll ts d,
  e_milvus e = true -> (db = "" \/ db = "default")%string -> coll <> ""%string ->
  op_target o = Some (db, coll, ts) ->
  coli s (dkey (coll_key coll db)) = Some d ->
  (coli s (ckey (coll_key coll db)) = None \/ coli s (ckey (coll_key coll db)) = Some (d + 1)) ->
  ts <= d ->
  handle e s o f = (s, [], true).
Proof. exact replay_dead_incarnation. Qed.
Print Assumptions C08_replay_dead_incarnation.

(* ... and one stamped after d, the newer incarnation being recorded (d+1), is not skipped: the readiness test
   says Go without any probe *)
Theorem C08_newer_incarnation_applies : forall e s db coll ts d,
  e_milvus e = true -> (db = "" \/ db = "default")%string -> coll <> ""%string ->
  coli s (dkey (coll_key coll db)) = Some d -> coli s (ckey (coll_key coll db)) = Some (d + 1) -> d < ts ->
  wait_obj e s db coll "" ts = (s, [], Go).
Proof. exact newer_incarnation_applies. Qed.
Print Assumptions C08_newer_incarnation_applies.

(* the checker used on implementation traces accepts everything the model does (no false alarm on conforming code) *)
Theorem C08_model_passes_checker : forall e s ops,
  check_steps e s ops (run_obs e s ops) = true.
Proof. exact model_passes_checker. Qed.
Print Assumptions C08_model_passes_checker.

Example C08_nonvacuous :
  let e := {| e_milvus := true; e_rid := ""; e_nm := []; e_dbs := []; e_colls := [("default", "c1")]%string; e_parts := [] |} in
  let s := winit [] [("default_c1_d"%string, 10)] [] in
  handle e s (MLoadColl "" "c1" 9 9 []) false = (s, [], true)
  /\ so_ok (hd {| so_calls := []; so_ok := false |} (run_obs e s [(MLoadColl "" "c1" 12 12 [], false)])) = true
  /\ List.length (so_calls (hd {| so_calls := []; so_ok := false |} (run_obs e s [(MLoadColl "" "c1" 12 12 [], false)]))) = 2%nat.
Proof. vm_compute. repeat split. Qed.
