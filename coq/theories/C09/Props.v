(* C09 — property theorems only.  Each is closed by [exact] of a lemma of C09/Proofs.v. *)
From Coq Require Import List String NArith Bool.
From Verif Require Import Base.Util Writer.Model C09.Check C09.Proofs.
(* the target-client harness of this check (h_c09t) evaluates its cases with C09.TCheck *)
From Verif Require C09.TCheck.
Import ListNotations.
Local Open Scope string_scope.
Local Open Scope list_scope.

(* the mapping function: a collection-level entry, else a whole-database entry, otherwise unchanged
   (mapping tables with one entry per source name) *)
Theorem C09_map_names_spec : forall nm db coll, NoDup (map fst nm) ->
  (forall t, In ((defdb db, coll), t) nm -> map_names nm db coll = t)
  /\ (forall tdb tc, (forall t, ~ In ((defdb db, coll), t) nm) -> coll <> "" -> coll <> "*" ->
        In ((defdb db, "*"), (tdb, tc)) nm -> map_names nm db coll = (tdb, coll))
  /\ ((forall c t, ~ In ((defdb db, c), t) nm) -> map_names nm db coll = (defdb db, coll)).
Proof. exact map_names_spec. Qed.
Print Assumptions C09_map_names_spec.

(* every call the writer makes — the request of the operation and every readiness probe, before and after a
   failing downstream call — is addressed as the checker demands: routed to the mapped database, naming the
   mapped database (or none) and the mapped collection; for all operation kinds, tables, mappings and oracles.
   PARTIAL: the unconditional statement is false for the model (C09_every_call_well_addressed_false below, and
   cx_rbac_kind, cx_flush_skipped_same_name, cx_flush_empty_target in Proofs.v); it holds for operations that are
   well formed w.r.t. the mapping, [op_wf]: an RBAC message carries an RBAC kind, and the collections of one
   flush are mapped to non-empty database names, two of them with the same mapped collection name sharing the
   mapped database.  [op_wf] is [True] for every other operation. *)
Theorem C09_every_call_well_addressed_partial : forall e s o f,
  op_wf (e_nm e) o ->
  let '(_, calls, ok) := handle e s o f in
  step_ok (e_nm e) o {| so_calls := calls; so_ok := ok |} = true.
Proof. exact every_call_well_addressed_partial. Qed.
Print Assumptions C09_every_call_well_addressed_partial.

Theorem C09_every_call_well_addressed_false :
  ~ (forall e s o f, let '(_, calls, ok) := handle e s o f in
                     step_ok (e_nm e) o {| so_calls := calls; so_ok := ok |} = true).
Proof. exact every_call_well_addressed_false. Qed.
Print Assumptions C09_every_call_well_addressed_false.

(* hence over whole histories of well-formed operations: the checker used on implementation traces accepts
   everything the model does *)
Theorem C09_model_passes_checker_partial : forall e ops s,
  Forall (fun x => op_wf (e_nm e) (fst x)) ops ->
  steps_ok (e_nm e) ops (run_obs e s ops) = true.
Proof. exact model_passes_checker_partial. Qed.
Print Assumptions C09_model_passes_checker_partial.

(* an object of a non-default database is never operated on in the default database unless mapped there.
   PARTIAL: needs the mapped database name to be non-empty; a mapping entry with target database "" routes the
   request to "" (C09_never_in_default_false) *)
Theorem C09_never_in_default_partial : forall e s o f db coll c,
  op_pairs o = [(db, coll)] ->
  fst (map_names (e_nm e) db coll) <> "default" ->
  fst (map_names (e_nm e) db coll) <> "" ->
  In c (snd (fst (handle e s o f))) ->
  is_rbac (k_kind c) = false -> k_kind c <> KDescribeDatabase ->
  k_route c <> "default" /\ k_route c <> "".
Proof. exact never_in_default_partial. Qed.
Print Assumptions C09_never_in_default_partial.

Theorem C09_never_in_default_false :
  ~ (forall e s o f db coll c,
       op_pairs o = [(db, coll)] ->
       fst (map_names (e_nm e) db coll) <> "default" ->
       In c (snd (fst (handle e s o f))) ->
       is_rbac (k_kind c) = false -> k_kind c <> KDescribeDatabase ->
       k_route c <> "default" /\ k_route c <> "").
Proof. exact never_in_default_false. Qed.
Print Assumptions C09_never_in_default_false.

(* bookkeeping is keyed by source names only: the tables change at most at keys built from the operation's own
   (source) database, collection and partition names, whatever the mapping *)
Theorem C09_bookkeeping_source_keyed : forall e s o f k,
  let s1 := fst (fst (handle e s o f)) in
  (dbi s1 k <> dbi s k -> exists db, In db (op_dbs o) /\ (k = ckey (db_key db) \/ k = dkey (db_key db)))
  /\ (coli s1 k <> coli s k -> exists db coll, In (db, coll) (op_pairs o) /\ (k = ckey (coll_key coll db) \/ k = dkey (coll_key coll db)))
  /\ (parti s1 k <> parti s k -> exists db coll p, In (db, coll) (op_pairs o) /\ In p (op_parts o)
                                                  /\ (k = ckey (part_key p coll db) \/ k = dkey (part_key p coll db))).
Proof. exact bookkeeping_source_keyed. Qed.
Print Assumptions C09_bookkeeping_source_keyed.

Example C09_nonvacuous :
  let nm := [(("db1", "c1"), ("tdb", "c1x")); (("db1", "*"), ("tdb", "*"))] in
  map_names nm "db1" "c1" = ("tdb", "c1x") /\ map_names nm "db1" "c2" = ("tdb", "c2")
  /\ map_names nm "" "c1" = ("default", "c1") /\ map_names nm "db1" "" = ("tdb", "").
Proof. vm_compute. repeat split. Qed.
