(* C09 — proofs.  Statements are re-exported by C09/Props.v. *)
From Coq Require Import List String NArith Bool.
From Verif Require Import Base.Util Writer.Model C09.Check.
Import ListNotations.
Local Open Scope string_scope.
Local Open Scope list_scope.

(* ------------------------------------------------------------------ *)
(* helper functions used in the statements                             *)
(* ------------------------------------------------------------------ *)

(* source databases whose db-level table keys the operation may write *)
Definition op_dbs (o : wop) : list string :=
  match o with
  | EvCreateColl db _ _ _ | EvDropColl db _ _ | EvCreatePart db _ _ _ | EvDropPart db _ _ _ => [db]
  | MDropDb db _ _ => [db]
  | MFlush db _ _ _ => [db]
  | MCreateIndex db _ _ _ _ | MDropIndex db _ _ _ _ | MAlterIndex db _ _ _ _
  | MLoadColl db _ _ _ _ | MReleaseColl db _ _ _ => [db]
  | MLoadParts db _ _ _ _ _ | MReleaseParts db _ _ _ _ => [db]
  | _ => []
  end.

(* partition names whose partition-level table keys the operation may write *)
Definition op_parts (o : wop) : list string :=
  match o with
  | EvDropPart _ _ part _ => [part]
  | MLoadParts _ _ parts _ _ _ | MReleaseParts _ _ parts _ _ => parts
  | _ => []
  end.

(* well-formedness of an operation w.r.t. the mapping, needed by the checker (see the _partial lemmas):
   an RBAC message carries an RBAC kind; the collections of one flush are mapped to non-empty database
   names, and two of them with the same mapped collection name share the mapped database *)
Definition op_wf (nm : nmap) (o : wop) : Prop :=
  match o with
  | MRbac k _ _ => is_rbac k = true
  | MFlush db colls _ _ =>
      (forall c, In c colls -> fst (map_names nm db c) <> "")
      /\ (forall c1 c2, In c1 colls -> In c2 colls ->
            snd (map_names nm db c1) = snd (map_names nm db c2) ->
            fst (map_names nm db c1) = fst (map_names nm db c2))
  | _ => True
  end.

(* ------------------------------------------------------------------ *)
(* map_names                                                           *)
(* ------------------------------------------------------------------ *)

Lemma pair_str_eqb_true : forall a b, pair_str_eqb a b = true <-> a = b.
Proof.
  intros [a1 a2] [b1 b2]. unfold pair_str_eqb. cbn [fst snd].
  rewrite andb_true_iff, !String.eqb_eq. split.
  - intros [-> ->]. reflexivity.
  - intros H. inversion H. auto.
Qed.

Lemma pair_str_eqb_refl : forall a, pair_str_eqb a a = true.
Proof. intros. apply pair_str_eqb_true. reflexivity. Qed.

Lemma find_unique {K V : Type} : forall (f : K * V -> bool) (nm : list (K * V)) k t,
  NoDup (map fst nm) -> In (k, t) nm ->
  (forall e, f e = true -> fst e = k) -> f (k, t) = true ->
  find f nm = Some (k, t).
Proof.
  induction nm as [|e r IH]; intros k t Hnd Hin Hk Hf.
  - destruct Hin.
  - cbn [find]. cbn [map] in Hnd. inversion Hnd as [|? ? Hni Hnd']. subst.
    destruct (f e) eqn:Hfe.
    + destruct Hin as [->|Hin]; [reflexivity|].
      exfalso. apply Hni. rewrite (Hk e Hfe).
      change k with (fst (k, t)). apply in_map. exact Hin.
    + destruct Hin as [->|Hin]; [congruence|].
      apply IH; assumption.
Qed.

Lemma find_none_intro {A : Type} : forall (f : A -> bool) l,
  (forall x, In x l -> f x = false) -> find f l = None.
Proof.
  induction l as [|x r IH]; intros H; [reflexivity|].
  cbn [find]. rewrite (H x (or_introl eq_refl)). apply IH. intros y Hy. apply H. right. exact Hy.
Qed.

Lemma map_names_spec : forall nm db coll, NoDup (map fst nm) ->
  (forall t, In ((defdb db, coll), t) nm -> map_names nm db coll = t)
  /\ (forall tdb tc, (forall t, ~ In ((defdb db, coll), t) nm) -> coll <> "" -> coll <> "*" ->
        In ((defdb db, "*"), (tdb, tc)) nm -> map_names nm db coll = (tdb, coll))
  /\ ((forall c t, ~ In ((defdb db, c), t) nm) -> map_names nm db coll = (defdb db, coll)).
Proof.
  intros nm db coll Hnd. unfold map_names. set (d := defdb db). repeat split.
  - intros t Hin.
    rewrite (find_unique (fun e => pair_str_eqb (fst e) (d, coll)) nm (d, coll) t Hnd Hin).
    + reflexivity.
    + intros e He. apply pair_str_eqb_true in He. exact He.
    + cbn [fst]. apply pair_str_eqb_refl.
  - intros tdb tc Hno Hne Hns Hin.
    rewrite find_none_intro.
    2:{ intros [k t] Hx. cbn [fst]. destruct (pair_str_eqb k (d, coll)) eqn:E; [|reflexivity].
        apply pair_str_eqb_true in E. subst k. exfalso. exact (Hno t Hx). }
    rewrite (find_unique _ nm (d, "*") (tdb, tc) Hnd Hin).
    + reflexivity.
    + intros [[k1 k2] t] He. cbn [fst snd] in *. apply andb_true_iff in He. destruct He as [H1 H2].
      apply String.eqb_eq in H1. apply orb_true_iff in H2. destruct H2 as [H2|H2]; apply String.eqb_eq in H2.
      * subst. reflexivity.
      * contradiction.
    + cbn [fst snd]. rewrite String.eqb_refl. reflexivity.
  - intros Hno.
    rewrite find_none_intro.
    2:{ intros [k t] Hx. cbn [fst]. destruct (pair_str_eqb k (d, coll)) eqn:E; [|reflexivity].
        apply pair_str_eqb_true in E. subst k. exfalso. exact (Hno coll t Hx). }
    rewrite find_none_intro.
    2:{ intros [[k1 k2] t] Hx. cbn [fst snd]. destruct (String.eqb k1 d) eqn:E; [|reflexivity].
        apply String.eqb_eq in E. subst k1. exfalso. exact (Hno k2 t Hx). }
    reflexivity.
Qed.

(* ------------------------------------------------------------------ *)
(* the readiness cascade: which probes it sends, which keys it writes   *)
(* ------------------------------------------------------------------ *)

(* m' differs from m at most at keys satisfying P *)
Definition frame (P : string -> Prop) (m m' : smap) : Prop := forall k, m' k = m k \/ P k.

Lemma frame_refl : forall P m, frame P m m.
Proof. intros P m k. left. reflexivity. Qed.

Lemma frame_trans : forall P m1 m2 m3, frame P m1 m2 -> frame P m2 m3 -> frame P m1 m3.
Proof.
  intros P m1 m2 m3 H1 H2 k. destruct (H2 k) as [E2|]; [|right; assumption].
  destruct (H1 k) as [E1|]; [|right; assumption]. left. congruence.
Qed.

Lemma frame_sput : forall (P : string -> Prop) m k v, P k -> frame P m (sput m k v).
Proof.
  intros P m k v HP k'. unfold sput. destruct (String.eqb k k') eqn:E.
  - apply String.eqb_eq in E. subst. right. exact HP.
  - left. reflexivity.
Qed.

Lemma frame_mono : forall (P Q : string -> Prop) m m', (forall k, P k -> Q k) -> frame P m m' -> frame Q m m'.
Proof. intros P Q m m' H F k. destruct (F k); [left|right]; auto. Qed.

Definition probe_of (nm : nmap) (db coll part : string) (c : call) : Prop :=
  c = probe_call KDescribeDatabase "" (fst (map_names nm db coll)) "" []
  \/ (coll <> "" /\ c = probe_call KDescribeCollection (fst (map_names nm db coll)) "" (snd (map_names nm db coll)) [])
  \/ (coll <> "" /\ part <> "" /\
      c = probe_call KDescribePartition (fst (map_names nm db coll)) "" (snd (map_names nm db coll)) [part]).

(* raw transition spec of one cascade for the object (db, coll, part) *)
Definition raw (nm : nmap) (db coll part : string) (s s' : wst) (cs : list call) : Prop :=
  Forall (probe_of nm db coll part) cs
  /\ frame (fun k => k = ckey (db_key db)) (dbi s) (dbi s')
  /\ frame (fun k => coll <> "" /\ k = ckey (coll_key coll db)) (coli s) (coli s')
  /\ frame (fun k => coll <> "" /\ part <> "" /\ k = ckey (part_key part coll db)) (parti s) (parti s').

Lemma raw_refl : forall nm db coll part s, raw nm db coll part s s [].
Proof. intros. repeat split; try apply frame_refl. constructor. Qed.

Lemma raw_app : forall nm db coll part s1 s2 s3 c1 c2,
  raw nm db coll part s1 s2 c1 -> raw nm db coll part s2 s3 c2 -> raw nm db coll part s1 s3 (c1 ++ c2).
Proof.
  intros nm db coll part s1 s2 s3 c1 c2 (A1 & B1 & C1 & D1) (A2 & B2 & C2 & D2).
  repeat split.
  - apply Forall_app. split; assumption.
  - eapply frame_trans; eassumption.
  - eapply frame_trans; eassumption.
  - eapply frame_trans; eassumption.
Qed.

Lemma wait_db_raw : forall e s db ts coll part,
  raw (e_nm e) db coll part s (fst (fst (wait_db e s db ts coll))) (snd (fst (wait_db e s db ts coll))).
Proof.
  intros. unfold wait_db. cbv zeta.
  destruct (String.eqb db "" || String.eqb db "default")%bool; [apply raw_refl|].
  destruct (decide _ _ _ _ _); try apply raw_refl.
  destruct (mem_str _ _); cbn [fst snd].
  - repeat split; cbn [dbi coli parti]; try apply frame_refl.
    + constructor; [|constructor]. left. reflexivity.
    + apply frame_sput. reflexivity.
  - repeat split; try apply frame_refl. constructor; [|constructor]. left. reflexivity.
Qed.

Lemma wait_coll_raw : forall e s db ts coll part, coll <> "" ->
  raw (e_nm e) db coll part s (fst (fst (wait_coll e s coll db ts))) (snd (fst (wait_coll e s coll db ts))).
Proof.
  intros e s db ts coll part Hc. unfold wait_coll. cbv zeta.
  destruct (decide _ _ _ _ _); try apply raw_refl.
  destruct (map_names (e_nm e) db coll) as [tdb tc] eqn:Hm.
  assert (Hp : probe_of (e_nm e) db coll part (probe_call KDescribeCollection tdb "" tc [])).
  { right. left. split; [exact Hc|]. rewrite Hm. reflexivity. }
  destruct (existsb _ _); cbn [fst snd].
  - repeat split; cbn [dbi coli parti]; try apply frame_refl.
    + constructor; [exact Hp|constructor].
    + apply frame_sput. split; [exact Hc|reflexivity].
  - repeat split; try apply frame_refl. constructor; [exact Hp|constructor].
Qed.

Lemma wait_part_raw : forall e s db ts coll part, coll <> "" -> part <> "" ->
  raw (e_nm e) db coll part s (fst (fst (wait_part e s coll part db ts))) (snd (fst (wait_part e s coll part db ts))).
Proof.
  intros e s db ts coll part Hc Hp0. unfold wait_part. cbv zeta.
  destruct (decide _ _ _ _ _); try apply raw_refl.
  destruct (map_names (e_nm e) db coll) as [tdb tc] eqn:Hm.
  assert (Hp : probe_of (e_nm e) db coll part (probe_call KDescribePartition tdb "" tc [part])).
  { right. right. split; [exact Hc|]. split; [exact Hp0|]. rewrite Hm. reflexivity. }
  destruct (existsb _ _); cbn [fst snd].
  - repeat split; cbn [dbi coli parti]; try apply frame_refl.
    + constructor; [exact Hp|constructor].
    + apply frame_sput. repeat split; assumption.
  - repeat split; try apply frame_refl. constructor; [exact Hp|constructor].
Qed.

Lemma wait_obj_raw : forall e s db coll part ts,
  raw (e_nm e) db coll part s (fst (fst (wait_obj e s db coll part ts))) (snd (fst (wait_obj e s db coll part ts))).
Proof.
  intros. unfold wait_obj.
  destruct (negb (e_milvus e)); [apply raw_refl|].
  assert (H1 : raw (e_nm e) db coll part s
                 (fst (fst (if String.eqb db "" then (s, [], Created) else wait_db e s db ts coll)))
                 (snd (fst (if String.eqb db "" then (s, [], Created) else wait_db e s db ts coll)))).
  { destruct (String.eqb db ""); [apply raw_refl|apply wait_db_raw]. }
  destruct (if String.eqb db "" then (s, [], Created) else wait_db e s db ts coll) as [[s1 c1] r1].
  cbn [fst snd] in H1.
  destruct r1; cbn [fst snd]; try exact H1.
  assert (H2 : raw (e_nm e) db coll part s1
                 (fst (fst (if String.eqb coll "" then (s1, [], Created) else wait_coll e s1 coll db ts)))
                 (snd (fst (if String.eqb coll "" then (s1, [], Created) else wait_coll e s1 coll db ts)))).
  { destruct (String.eqb coll "") eqn:E; [apply raw_refl|]. apply wait_coll_raw.
    intros ->. discriminate. }
  destruct (if String.eqb coll "" then (s1, [], Created) else wait_coll e s1 coll db ts) as [[s2 c2] r2].
  cbn [fst snd] in H2.
  pose proof (raw_app _ _ _ _ _ _ _ _ _ H1 H2) as H12.
  destruct r2; cbn [fst snd]; try exact H12.
  assert (H3 : raw (e_nm e) db coll part s2
                 (fst (fst (if (String.eqb coll "" || String.eqb part "")%bool then (s2, [], Created) else wait_part e s2 coll part db ts)))
                 (snd (fst (if (String.eqb coll "" || String.eqb part "")%bool then (s2, [], Created) else wait_part e s2 coll part db ts)))).
  { destruct (String.eqb coll "") eqn:E1; [apply raw_refl|].
    destruct (String.eqb part "") eqn:E2; [apply raw_refl|]. cbn [orb].
    apply wait_part_raw; intros ->; discriminate. }
  destruct (if (String.eqb coll "" || String.eqb part "")%bool then (s2, [], Created) else wait_part e s2 coll part db ts) as [[s3 c3] r3].
  cbn [fst snd] in H3 |- *.
  rewrite app_assoc. eapply raw_app; eassumption.
Qed.

(* ------------------------------------------------------------------ *)
(* the invariant of one handled operation                               *)
(* ------------------------------------------------------------------ *)

Definition call_good (nm : nmap) (o : wop) (c : call) : Prop :=
  (op_wf nm o -> call_ok nm o c = true)
  /\ (forall db coll, op_pairs o = [(db, coll)] -> is_rbac (k_kind c) = false -> k_kind c <> KDescribeDatabase ->
        k_route c = fst (map_names nm db coll) \/ fst (map_names nm db coll) = "").

Definition Kd (o : wop) (k : string) : Prop :=
  exists db, In db (op_dbs o) /\ (k = ckey (db_key db) \/ k = dkey (db_key db)).
Definition Kc (o : wop) (k : string) : Prop :=
  exists db coll, In (db, coll) (op_pairs o) /\ (k = ckey (coll_key coll db) \/ k = dkey (coll_key coll db)).
Definition Kp (o : wop) (k : string) : Prop :=
  exists db coll p, In (db, coll) (op_pairs o) /\ In p (op_parts o)
                    /\ (k = ckey (part_key p coll db) \/ k = dkey (part_key p coll db)).

Definition good (nm : nmap) (o : wop) (s s' : wst) (cs : list call) : Prop :=
  Forall (call_good nm o) cs
  /\ frame (Kd o) (dbi s) (dbi s') /\ frame (Kc o) (coli s) (coli s') /\ frame (Kp o) (parti s) (parti s').

Lemma good_refl : forall nm o s, good nm o s s [].
Proof. intros. repeat split; try apply frame_refl. constructor. Qed.

Lemma good_app : forall nm o s1 s2 s3 c1 c2,
  good nm o s1 s2 c1 -> good nm o s2 s3 c2 -> good nm o s1 s3 (c1 ++ c2).
Proof.
  intros nm o s1 s2 s3 c1 c2 (A1 & B1 & C1 & D1) (A2 & B2 & C2 & D2).
  repeat split.
  - apply Forall_app. split; assumption.
  - eapply frame_trans; eassumption.
  - eapply frame_trans; eassumption.
  - eapply frame_trans; eassumption.
Qed.

Lemma good_call : forall nm o s c, call_good nm o c -> good nm o s s [c].
Proof. intros. repeat split; try apply frame_refl. constructor; [assumption|constructor]. Qed.

Lemma good_put_db : forall nm o s k v, Kd o k ->
  good nm o s {| dbi := sput (dbi s) k v; coli := coli s; parti := parti s |} [].
Proof. intros. repeat split; cbn [dbi coli parti]; try apply frame_refl. constructor. apply frame_sput. assumption. Qed.
Lemma good_put_coll : forall nm o s k v, Kc o k ->
  good nm o s {| dbi := dbi s; coli := sput (coli s) k v; parti := parti s |} [].
Proof. intros. repeat split; cbn [dbi coli parti]; try apply frame_refl. constructor. apply frame_sput. assumption. Qed.
Lemma good_put_part : forall nm o s k v, Kp o k ->
  good nm o s {| dbi := dbi s; coli := coli s; parti := sput (parti s) k v |} [].
Proof. intros. repeat split; cbn [dbi coli parti]; try apply frame_refl. constructor. apply frame_sput. assumption. Qed.

(* the cascade is run for an object the operation speaks about *)
Definition addr (o : wop) (db coll part : string) : Prop :=
  In db (op_dbs o)
  /\ (In (db, coll) (op_pairs o) \/ (coll = "" /\ exists c', In (db, c') (op_pairs o)))
  /\ (part = "" \/ In part (op_parts o)).

Lemma target_in : forall nm o db coll, In (db, coll) (op_pairs o) ->
  In (map_names nm db coll) (map (fun p => map_names nm (fst p) (snd p)) (op_pairs o)).
Proof.
  intros nm o db coll H.
  change (map_names nm db coll) with ((fun p => map_names nm (fst p) (snd p)) (db, coll)).
  apply in_map. exact H.
Qed.

Lemma probe_good : forall nm o db coll part c,
  addr o db coll part -> probe_of nm db coll part c -> call_good nm o c.
Proof.
  intros nm o db coll part c (Hdb & Hpair & Hpart) Hp.
  destruct Hp as [->|[[Hc ->]|(Hc & Hp & ->)]].
  - split.
    + intros _. unfold call_ok. cbn [k_kind probe_call k_db].
      apply orb_true_iff. destruct Hpair as [Hin|[-> [c' Hin]]].
      * left. apply existsb_exists. exists (db, coll). split; [exact Hin|]. cbn [fst snd]. apply String.eqb_refl.
      * right. apply existsb_exists. exists (db, c'). split; [exact Hin|]. cbn [fst snd]. apply String.eqb_refl.
    + intros d0 c0 _ _ Hk. exfalso. apply Hk. reflexivity.
  - destruct Hpair as [Hin|[-> _]]; [|contradiction]. split.
    + intros _. unfold call_ok. cbn [k_kind probe_call k_route k_coll].
      apply existsb_exists. exists (map_names nm db coll). split; [apply target_in; exact Hin|].
      rewrite !String.eqb_refl. reflexivity.
    + intros d0 c0 Hop _ _. rewrite Hop in Hin. destruct Hin as [E|[]]. inversion E. subst. left. reflexivity.
  - destruct Hpair as [Hin|[-> _]]; [|contradiction]. split.
    + intros _. unfold call_ok. cbn [k_kind probe_call k_route k_coll].
      apply existsb_exists. exists (map_names nm db coll). split; [apply target_in; exact Hin|].
      rewrite !String.eqb_refl. reflexivity.
    + intros d0 c0 Hop _ _. rewrite Hop in Hin. destruct Hin as [E|[]]. inversion E. subst. left. reflexivity.
Qed.

Lemma raw_good : forall nm o db coll part s s' cs,
  addr o db coll part -> raw nm db coll part s s' cs -> good nm o s s' cs.
Proof.
  intros nm o db coll part s s' cs Ha (A & B & C & D).
  pose proof Ha as (Hdb & Hpair & Hpart).
  repeat split.
  - eapply Forall_impl; [|exact A]. intros c Hc. eapply probe_good; eassumption.
  - eapply frame_mono; [|exact B]. intros k ->. exists db. split; [exact Hdb|]. left. reflexivity.
  - eapply frame_mono; [|exact C]. intros k [Hc ->].
    destruct Hpair as [Hin|[-> _]]; [|contradiction].
    exists db, coll. split; [exact Hin|]. left. reflexivity.
  - eapply frame_mono; [|exact D]. intros k (Hc & Hp & ->).
    destruct Hpair as [Hin|[-> _]]; [|contradiction].
    destruct Hpart as [->|Hpin]; [contradiction|].
    exists db, coll, part. split; [exact Hin|]. split; [exact Hpin|]. left. reflexivity.
Qed.

Lemma wait_obj_good : forall e o s db coll part ts, addr o db coll part ->
  good (e_nm e) o s (fst (fst (wait_obj e s db coll part ts))) (snd (fst (wait_obj e s db coll part ts))).
Proof. intros. eapply raw_good; [eassumption|apply wait_obj_raw]. Qed.

(* the request of a collection-level operation *)
Definition coll_kind (k : ckind) : bool :=
  match k with
  | KCreateCollection | KDropCollection | KCreatePartition | KDropPartition
  | KLoadCollection | KReleaseCollection | KLoadPartitions | KReleasePartitions
  | KCreateIndex | KDropIndex | KAlterIndex => true
  | _ => false
  end.

Lemma main_good : forall nm o k db coll tdb tc dbf names pay ts,
  coll_kind k = true -> In (db, coll) (op_pairs o) -> map_names nm db coll = (tdb, tc) ->
  dbf = "" \/ dbf = tdb ->
  call_good nm o (mk k tdb dbf tc names pay ts).
Proof.
  intros nm o k db coll tdb tc dbf names pay ts Hk Hin Hm Hdbf. split.
  - intros _.
    assert (G : existsb (fun t => String.eqb tdb (fst t) && String.eqb tc (snd t)
                                   && (String.eqb dbf "" || String.eqb dbf (fst t)))%bool
                  (map (fun p => map_names nm (fst p) (snd p)) (op_pairs o)) = true).
    { apply existsb_exists. exists (tdb, tc). split; [rewrite <- Hm; apply target_in; exact Hin|].
      cbn [fst snd]. rewrite !String.eqb_refl. cbn [andb].
      destruct Hdbf as [->| ->]; [reflexivity|]. rewrite String.eqb_refl. apply orb_true_r. }
    destruct k; try discriminate Hk; unfold call_ok; cbn [k_kind mk k_route k_coll k_db is_rbac]; exact G.
  - intros d0 c0 Hop _ _. rewrite Hop in Hin. destruct Hin as [E|[]]. inversion E. subst.
    rewrite Hm. left. reflexivity.
Qed.

(* ------------------------------------------------------------------ *)
(* the list helpers                                                     *)
(* ------------------------------------------------------------------ *)

Lemma filter_parts_good : forall e o db coll ts ps s,
  (forall p, In p ps -> addr o db coll p) ->
  good (e_nm e) o s (fst (fst (filter_parts e s db coll ps ts))) (snd (fst (filter_parts e s db coll ps ts)))
  /\ (forall kept, snd (filter_parts e s db coll ps ts) = Some kept -> incl kept ps).
Proof.
  intros e o db coll ts. induction ps as [|p r IH]; intros s Ha.
  - cbn [filter_parts fst snd]. split; [apply good_refl|]. intros kept E. inversion E. apply incl_refl.
  - cbn [filter_parts].
    pose proof (wait_obj_good e o s db coll p ts (Ha p (or_introl eq_refl))) as H1.
    destruct (wait_obj e s db coll p ts) as [[s1 c1] w]. cbn [fst snd] in H1.
    assert (Ha' : forall q, In q r -> addr o db coll q) by (intros q Hq; apply Ha; right; exact Hq).
    destruct (IH s1 Ha') as [H2 H3].
    destruct (filter_parts e s1 db coll r ts) as [[s2 c2] o2]. cbn [fst snd] in H2, H3.
    destruct w; cbn [fst snd].
    + split; [eapply good_app; eassumption|].
      intros kept E. destruct o2 as [k2|]; cbn [option_map] in E; inversion E. subst.
      intros x [<-|Hx]; [left; reflexivity|right; apply (H3 k2 eq_refl); exact Hx].
    + split; [eapply good_app; eassumption|].
      intros kept E. apply incl_tl. apply H3. exact E.
    + split; [exact H1|]. intros kept E. discriminate E.
Qed.

Lemma recheck_all_good : forall e o db coll ts (bycoll : bool) ps s,
  (forall p, In p ps -> if bycoll then addr o db p "" else addr o db coll p) ->
  good (e_nm e) o s (fst (fst (recheck_all e s db coll ps ts bycoll))) (snd (fst (recheck_all e s db coll ps ts bycoll))).
Proof.
  intros e o db coll ts bycoll. induction ps as [|p r IH]; intros s Ha.
  - cbn [recheck_all fst snd]. apply good_refl.
  - cbn [recheck_all].
    assert (H1 : good (e_nm e) o s
                   (fst (fst (if bycoll then wait_obj e s db p "" ts else wait_obj e s db coll p ts)))
                   (snd (fst (if bycoll then wait_obj e s db p "" ts else wait_obj e s db coll p ts)))).
    { pose proof (Ha p (or_introl eq_refl)) as Hp. destruct bycoll; apply wait_obj_good; exact Hp. }
    destruct (if bycoll then wait_obj e s db p "" ts else wait_obj e s db coll p ts) as [[s1 c1] w].
    cbn [fst snd] in H1.
    assert (Ha' : forall q, In q r -> if bycoll then addr o db q "" else addr o db coll q)
      by (intros q Hq; apply Ha; right; exact Hq).
    pose proof (IH s1 Ha') as H2.
    destruct (recheck_all e s1 db coll r ts bycoll) as [[s2 c2] b]. cbn [fst snd] in H2.
    destruct w; cbn [fst snd]; try exact H1.
    eapply good_app; eassumption.
Qed.

Lemma flush_names_good : forall e o db ts cs s m,
  (forall c, In c cs -> addr o db c "") ->
  good (e_nm e) o s (fst (fst (flush_names e s db cs ts m))) (snd (fst (flush_names e s db cs ts m)))
  /\ (forall kept mapped m', snd (flush_names e s db cs ts m) = Some (kept, mapped, m') ->
        incl kept cs
        /\ mapped = map (fun k => snd (map_names (e_nm e) db k)) kept
        /\ (forall k, In k kept -> fst (map_names (e_nm e) db k) = m' \/ fst (map_names (e_nm e) db k) = "")
        /\ (m <> "" -> m' = m)).
Proof.
  intros e o db ts. induction cs as [|c r IH]; intros s m Ha.
  - cbn [flush_names fst snd]. split; [apply good_refl|].
    intros kept mapped m' E. inversion E. subst. repeat split.
    + apply incl_refl.
    + intros k [].
  - cbn [flush_names].
    pose proof (wait_obj_good e o s db c "" ts (Ha c (or_introl eq_refl))) as H1.
    destruct (wait_obj e s db c "" ts) as [[s1 c1] w]. cbn [fst snd] in H1.
    assert (Ha' : forall q, In q r -> addr o db q "") by (intros q Hq; apply Ha; right; exact Hq).
    destruct w.
    + (* Go *)
      destruct (map_names (e_nm e) db c) as [tdb tc] eqn:Hm.
      destruct (negb (String.eqb m "") && negb (String.eqb m tdb))%bool eqn:Hcond.
      * cbn [fst snd]. split; [exact H1|]. intros kept mapped m' E. discriminate E.
      * destruct (IH s1 tdb Ha') as [H2 H3].
        destruct (flush_names e s1 db r ts tdb) as [[s2 c2] o2]. cbn [fst snd] in H2, H3 |- *.
        split; [eapply good_app; eassumption|].
        intros kept mapped m' E. destruct o2 as [[[k2 mp2] m2]|]; cbn [option_map] in E; [|discriminate E].
        cbn [fst snd] in E. inversion E. subst kept mapped m'. clear E.
        destruct (H3 k2 mp2 m2 eq_refl) as (I1 & I2 & I3 & I4).
        assert (Hm0 : m = "" \/ m = tdb).
        { apply andb_false_iff in Hcond. destruct Hcond as [Hc|Hc]; apply negb_false_iff in Hc;
            apply String.eqb_eq in Hc; auto. }
        repeat split.
        -- intros x [<-|Hx]; [left; reflexivity|right; apply I1; exact Hx].
        -- cbn [map]. rewrite Hm. cbn [snd]. rewrite I2. reflexivity.
        -- intros k [<-|Hk].
           ++ rewrite Hm. cbn [fst]. destruct (string_dec tdb "") as [->|Hne]; [right; reflexivity|].
              left. symmetry. apply I4. exact Hne.
           ++ apply I3. exact Hk.
        -- intros Hne. destruct Hm0 as [->| ->]; [contradiction|]. apply I4. exact Hne.
    + (* Skip *)
      destruct (IH s1 m Ha') as [H2 H3].
      destruct (flush_names e s1 db r ts m) as [[s2 c2] o2]. cbn [fst snd] in H2, H3 |- *.
      split; [eapply good_app; eassumption|].
      intros kept mapped m' E. destruct (H3 kept mapped m' E) as (I1 & I2 & I3 & I4).
      repeat split; try assumption. apply incl_tl. exact I1.
    + cbn [fst snd]. split; [exact H1|]. intros kept mapped m' E. discriminate E.
Qed.

(* ------------------------------------------------------------------ *)
(* handle                                                               *)
(* ------------------------------------------------------------------ *)

Lemma after_fail_good : forall e o s fail rc,
  (forall s0, good (e_nm e) o s0 (fst (fst (rc s0))) (snd (fst (rc s0)))) ->
  good (e_nm e) o s (fst (fst (after_fail e s fail rc))) (snd (fst (after_fail e s fail rc))).
Proof.
  intros e o s fail rc H. unfold after_fail. destruct fail; [|apply good_refl].
  specialize (H s). destruct (rc s) as [[s1 c1] r]. exact H.
Qed.

Lemma good_then_put : forall nm o s1 s2 s3 cs,
  good nm o s1 s2 cs -> good nm o s2 s3 [] -> good nm o s1 s3 cs.
Proof. intros. rewrite <- (app_nil_r cs). eapply good_app; eassumption. Qed.

Lemma db_main_good : forall nm o k db names pay ts,
  op_db o = Some db -> is_db_level k = true -> op_pairs o = [] ->
  call_good nm o (mk k "" (fst (map_names nm db "")) "" names pay ts).
Proof.
  intros nm o k db names pay ts Hdb Hk Hp. split.
  - intros _. destruct k; try discriminate Hk; unfold call_ok; cbn [k_kind mk k_db]; rewrite Hdb; apply String.eqb_refl.
  - intros d0 c0 Hop. rewrite Hp in Hop. discriminate Hop.
Qed.

Lemma rbac_main_good : forall nm k stamp pay,
  call_good nm (MRbac k stamp pay) (mk k "" "" "" [] pay stamp).
Proof.
  intros. split.
  - cbn [op_wf]. intros Hk. destruct k; try discriminate Hk; reflexivity.
  - intros d0 c0 Hop. discriminate Hop.
Qed.

Lemma flush_targets_in : forall nm db colls t,
  In t (map (fun p => map_names nm (fst p) (snd p)) (map (fun c => (db, c)) colls))
  <-> exists c, In c colls /\ t = map_names nm db c.
Proof.
  intros. rewrite map_map. cbn [fst snd]. rewrite in_map_iff. split.
  - intros [c [E H]]. exists c. auto.
  - intros [c [H E]]. exists c. auto.
Qed.

Lemma flush_main_good : forall nm db colls stamp ets kept mapped mdb,
  kept <> [] -> incl kept colls ->
  mapped = map (fun k => snd (map_names nm db k)) kept ->
  (forall k, In k kept -> fst (map_names nm db k) = mdb \/ fst (map_names nm db k) = "") ->
  call_good nm (MFlush db colls stamp ets) (mk KFlush mdb "" "" mapped [] stamp).
Proof.
  intros nm db colls stamp ets kept mapped mdb Hne Hincl Hmap Hk. split.
  - cbn [op_wf]. intros [W1 W2].
    assert (Hk' : forall k, In k kept -> fst (map_names nm db k) = mdb).
    { intros k Hin. destruct (Hk k Hin) as [E|E]; [exact E|]. exfalso. exact (W1 k (Hincl k Hin) E). }
    unfold call_ok. cbn [k_kind mk k_route k_names k_db op_pairs].
    rewrite String.eqb_refl. cbn [orb]. rewrite andb_true_r. apply andb_true_iff. split.
    + apply forallb_forall. intros t Ht. apply filter_In in Ht. destruct Ht as [Ht Hmem].
      apply flush_targets_in in Ht. destruct Ht as [c [Hc ->]].
      unfold mem_str in Hmem. apply existsb_exists in Hmem. destruct Hmem as [n [Hn En]].
      apply String.eqb_eq in En. subst mapped. apply in_map_iff in Hn. destruct Hn as [k [Ek Hkin]].
      apply String.eqb_eq. rewrite <- (Hk' k Hkin). symmetry.
      apply W2; [exact Hc|apply Hincl; exact Hkin|]. congruence.
    + apply forallb_forall. intros n Hn. subst mapped. apply in_map_iff in Hn. destruct Hn as [k [Ek Hkin]].
      apply existsb_exists. exists (map_names nm db k). split.
      * apply flush_targets_in. exists k. split; [apply Hincl; exact Hkin|reflexivity].
      * rewrite <- Ek, (Hk' k Hkin), !String.eqb_refl. reflexivity.
  - intros d0 c0 Hop _ _. cbn [op_pairs] in Hop. cbn [k_route mk].
    destruct colls as [|c [|c' r]]; cbn [map] in Hop; try discriminate Hop.
    inversion Hop. subst.
    destruct kept as [|k0 kr]; [contradiction|].
    assert (Hk0 : In k0 [c0]) by (apply Hincl; left; reflexivity).
    destruct Hk0 as [<-|[]].
    destruct (Hk c0 (or_introl eq_refl)) as [E|E]; [left; symmetry; exact E|right; exact E].
Qed.

Ltac addr_tac :=
  unfold addr; cbn [op_dbs op_pairs op_parts In];
  repeat split; eauto 6.

(* [wo o db coll part ts]: run the cascade, keep its invariant as Hw *)
Ltac wo e s o db coll part ts s1 c1 w Hw :=
  pose proof (wait_obj_good e o s db coll part ts ltac:(addr_tac)) as Hw;
  destruct (wait_obj e s db coll part ts) as [[s1 c1] w]; cbn [fst snd] in Hw.

Ltac af e s1 o f db coll ts s2 c2 ok Haf :=
  pose proof (after_fail_good e o s1 f (fun s0 => wait_obj e s0 db coll "" ts)
                (fun s0 => wait_obj_good e o s0 db coll "" ts ltac:(addr_tac))) as Haf;
  destruct (after_fail e s1 f (fun s0 => wait_obj e s0 db coll "" ts)) as [[s2 c2] ok]; cbn [fst snd] in Haf.

Ltac main_tac Hm :=
  eapply main_good; [reflexivity|cbn [op_pairs In]; left; reflexivity|exact Hm|auto].

Lemma handle_good : forall e s o f,
  good (e_nm e) o s (fst (fst (handle e s o f))) (snd (fst (handle e s o f))).
Proof.
  intros e s o f. destruct o; cbn [handle]; cbv zeta.
  - (* EvCreateColl *)
    wo e s (EvCreateColl db coll ts pay) db "" "" ts s1 c1 w Hw.
    destruct w; cbn [fst snd]; try exact Hw.
    destruct (map_names (e_nm e) db coll) as [tdb tc] eqn:Hm. cbn [fst snd].
    eapply good_app; [exact Hw|]. apply good_call. main_tac Hm.
  - (* EvDropColl *)
    wo e s (EvDropColl db coll ts) db "" "" ts s1 c1 w Hw.
    destruct w; cbn [fst snd]; try exact Hw.
    destruct (map_names (e_nm e) db coll) as [tdb tc] eqn:Hm.
    assert (Hc : good (e_nm e) (EvDropColl db coll ts) s s1 (c1 ++ [mk KDropCollection tdb "" tc [] [] ts])).
    { eapply good_app; [exact Hw|]. apply good_call. main_tac Hm. }
    destruct f; cbn [fst snd]; [exact Hc|].
    eapply good_then_put; [exact Hc|]. apply good_put_coll.
    exists db, coll. split; [left; reflexivity|right; reflexivity].
  - (* EvCreatePart *)
    wo e s (EvCreatePart db coll part ts) db coll "" ts s1 c1 w Hw.
    destruct w; cbn [fst snd]; try exact Hw.
    destruct (map_names (e_nm e) db coll) as [tdb tc] eqn:Hm.
    af e s1 (EvCreatePart db coll part ts) f db coll ts s2 c2 ok Haf. cbn [fst snd].
    eapply good_app; [exact Hw|]. eapply good_app; [|exact Haf]. apply good_call. main_tac Hm.
  - (* EvDropPart *)
    wo e s (EvDropPart db coll part ts) db coll "" ts s1 c1 w Hw.
    destruct w; cbn [fst snd]; try exact Hw.
    destruct (map_names (e_nm e) db coll) as [tdb tc] eqn:Hm.
    af e s1 (EvDropPart db coll part ts) f db coll ts s2 c2 ok Haf.
    assert (Hc : good (e_nm e) (EvDropPart db coll part ts) s s2 (c1 ++ [mk KDropPartition tdb "" tc [part] [] ts] ++ c2)).
    { eapply good_app; [exact Hw|]. eapply good_app; [|exact Haf]. apply good_call. main_tac Hm. }
    destruct ok; cbn [fst snd]; [|exact Hc].
    eapply good_then_put; [exact Hc|]. apply good_put_part.
    exists db, coll, part. split; [left; reflexivity|]. split; [left; reflexivity|right; reflexivity].
  - (* MCreateDb *)
    cbn [fst snd]. apply good_call. apply db_main_good; reflexivity.
  - (* MDropDb *)
    assert (Hc : good (e_nm e) (MDropDb db stamp ets) s s [mk KDropDatabase "" (fst (map_names (e_nm e) db "")) "" [] [] stamp]).
    { apply good_call. apply db_main_good; reflexivity. }
    destruct f; cbn [fst snd]; [exact Hc|].
    eapply good_then_put; [exact Hc|]. apply good_put_db.
    exists db. split; [left; reflexivity|right; reflexivity].
  - (* MAlterDb *)
    cbn [fst snd]. apply good_call. apply db_main_good; reflexivity.
  - (* MFlush *)
    assert (Ha : forall c, In c colls -> addr (MFlush db colls stamp ets) db c "").
    { intros c Hc. unfold addr. cbn [op_dbs op_pairs op_parts In]. repeat split; auto.
      left. change (db, c) with ((fun c0 => (db, c0)) c). apply in_map. exact Hc. }
    destruct (flush_names_good e (MFlush db colls stamp ets) db ets colls s "" Ha) as [H1 H2].
    destruct (flush_names e s db colls ets "") as [[s1 c1] o1]. cbn [fst snd] in H1, H2.
    destruct o1 as [[[kept mapped] mdb]|]; cbn [fst snd]; [|exact H1].
    destruct (H2 kept mapped mdb eq_refl) as (I1 & I2 & I3 & I4).
    destruct kept as [|k0 kr]; cbn [fst snd]; [exact H1|].
    assert (Hc : good (e_nm e) (MFlush db colls stamp ets) s s1 (c1 ++ [mk KFlush mdb "" "" mapped [] stamp])).
    { eapply good_app; [exact H1|]. apply good_call.
      eapply flush_main_good; [|exact I1|exact I2|exact I3]. discriminate. }
    destruct f; cbn [fst snd]; [|exact Hc].
    assert (Hr : forall p, In p (k0 :: kr) -> if true then addr (MFlush db colls stamp ets) db p "" else addr (MFlush db colls stamp ets) db "" p).
    { intros p Hp. apply Ha. apply I1. exact Hp. }
    pose proof (recheck_all_good e (MFlush db colls stamp ets) db "" ets true (k0 :: kr) s1 Hr) as H3.
    destruct (recheck_all e s1 db "" (k0 :: kr) ets true) as [[s2 c2] ok]. cbn [fst snd] in H3 |- *.
    rewrite app_assoc. eapply good_app; [exact Hc|exact H3].
  - (* MCreateIndex *)
    wo e s (MCreateIndex db coll stamp ets pay) db coll "" ets s1 c1 w Hw.
    destruct w; cbn [fst snd]; try exact Hw.
    destruct (map_names (e_nm e) db coll) as [tdb tc] eqn:Hm.
    af e s1 (MCreateIndex db coll stamp ets pay) f db coll ets s2 c2 ok Haf. cbn [fst snd].
    eapply good_app; [exact Hw|]. eapply good_app; [|exact Haf]. apply good_call. main_tac Hm.
  - (* MDropIndex *)
    wo e s (MDropIndex db coll stamp ets pay) db coll "" ets s1 c1 w Hw.
    destruct w; cbn [fst snd]; try exact Hw.
    destruct (map_names (e_nm e) db coll) as [tdb tc] eqn:Hm.
    af e s1 (MDropIndex db coll stamp ets pay) f db coll ets s2 c2 ok Haf. cbn [fst snd].
    eapply good_app; [exact Hw|]. eapply good_app; [|exact Haf]. apply good_call. main_tac Hm.
  - (* MAlterIndex *)
    wo e s (MAlterIndex db coll stamp ets pay) db coll "" ets s1 c1 w Hw.
    destruct w; cbn [fst snd]; try exact Hw.
    destruct (map_names (e_nm e) db coll) as [tdb tc] eqn:Hm. cbn [fst snd].
    eapply good_app; [exact Hw|]. apply good_call. main_tac Hm.
  - (* MLoadColl *)
    wo e s (MLoadColl db coll stamp ets pay) db coll "" ets s1 c1 w Hw.
    destruct w; cbn [fst snd]; try exact Hw.
    destruct (map_names (e_nm e) db coll) as [tdb tc] eqn:Hm.
    af e s1 (MLoadColl db coll stamp ets pay) f db coll ets s2 c2 ok Haf. cbn [fst snd].
    eapply good_app; [exact Hw|]. eapply good_app; [|exact Haf]. apply good_call. main_tac Hm.
  - (* MReleaseColl *)
    wo e s (MReleaseColl db coll stamp ets) db coll "" ets s1 c1 w Hw.
    destruct w; cbn [fst snd]; try exact Hw.
    destruct (map_names (e_nm e) db coll) as [tdb tc] eqn:Hm.
    af e s1 (MReleaseColl db coll stamp ets) f db coll ets s2 c2 ok Haf. cbn [fst snd].
    eapply good_app; [exact Hw|]. eapply good_app; [|exact Haf]. apply good_call. main_tac Hm.
  - (* MLoadParts *)
    set (o := MLoadParts db coll parts stamp ets pay).
    assert (Ha : forall p, In p parts -> addr o db coll p).
    { intros p Hp. unfold addr, o. cbn [op_dbs op_pairs op_parts In]. repeat split; auto. }
    destruct (filter_parts_good e o db coll ets parts s Ha) as [H1 H2].
    destruct (filter_parts e s db coll parts ets) as [[s1 c1] o1]. cbn [fst snd] in H1, H2.
    destruct o1 as [kept|]; cbn [fst snd]; [|exact H1].
    pose proof (H2 kept eq_refl) as I1.
    destruct kept as [|k0 kr]; cbn [fst snd]; [exact H1|].
    destruct (map_names (e_nm e) db coll) as [tdb tc] eqn:Hm.
    assert (Hc : good (e_nm e) o s s1 (c1 ++ [mk KLoadPartitions tdb "" tc (k0 :: kr) pay stamp])).
    { eapply good_app; [exact H1|]. apply good_call. unfold o. main_tac Hm. }
    destruct f; cbn [fst snd]; [|exact Hc].
    assert (Hr : forall p, In p (k0 :: kr) -> if false then addr o db p "" else addr o db coll p).
    { intros p Hp. apply Ha. apply I1. exact Hp. }
    pose proof (recheck_all_good e o db coll ets false (k0 :: kr) s1 Hr) as H3.
    destruct (recheck_all e s1 db coll (k0 :: kr) ets false) as [[s2 c2] ok]. cbn [fst snd] in H3 |- *.
    rewrite app_assoc. eapply good_app; [exact Hc|exact H3].
  - (* MReleaseParts *)
    set (o := MReleaseParts db coll parts stamp ets).
    assert (Ha : forall p, In p parts -> addr o db coll p).
    { intros p Hp. unfold addr, o. cbn [op_dbs op_pairs op_parts In]. repeat split; auto. }
    destruct (filter_parts_good e o db coll ets parts s Ha) as [H1 H2].
    destruct (filter_parts e s db coll parts ets) as [[s1 c1] o1]. cbn [fst snd] in H1, H2.
    destruct o1 as [kept|]; cbn [fst snd]; [|exact H1].
    pose proof (H2 kept eq_refl) as I1.
    destruct kept as [|k0 kr]; cbn [fst snd]; [exact H1|].
    destruct (map_names (e_nm e) db coll) as [tdb tc] eqn:Hm.
    assert (Hc : good (e_nm e) o s s1 (c1 ++ [mk KReleasePartitions tdb "" tc (k0 :: kr) [] stamp])).
    { eapply good_app; [exact H1|]. apply good_call. unfold o. main_tac Hm. }
    destruct f; cbn [fst snd]; [|exact Hc].
    assert (Hr : forall p, In p (k0 :: kr) -> if false then addr o db p "" else addr o db coll p).
    { intros p Hp. apply Ha. apply I1. exact Hp. }
    pose proof (recheck_all_good e o db coll ets false (k0 :: kr) s1 Hr) as H3.
    destruct (recheck_all e s1 db coll (k0 :: kr) ets false) as [[s2 c2] ok]. cbn [fst snd] in H3 |- *.
    rewrite app_assoc. eapply good_app; [exact Hc|exact H3].
  - (* MRbac *)
    cbn [fst snd]. apply good_call. apply rbac_main_good.
  - apply good_refl.
  - apply good_refl.
  - apply good_refl.
Qed.

(* ------------------------------------------------------------------ *)
(* the exported lemmas                                                  *)
(* ------------------------------------------------------------------ *)

Lemma every_call_well_addressed_partial : forall e s o f,
  op_wf (e_nm e) o ->
  let '(_, calls, ok) := handle e s o f in
  step_ok (e_nm e) o {| so_calls := calls; so_ok := ok |} = true.
Proof.
  intros e s o f Hwf. pose proof (handle_good e s o f) as (HF & _).
  destruct (handle e s o f) as [[s1 calls] ok]. cbn [fst snd] in HF.
  unfold step_ok. cbn [so_calls]. apply forallb_forall. intros c Hc.
  rewrite Forall_forall in HF. destruct (HF c Hc) as [H _]. apply H. exact Hwf.
Qed.

Lemma model_passes_checker_partial : forall e ops s,
  Forall (fun x => op_wf (e_nm e) (fst x)) ops ->
  steps_ok (e_nm e) ops (run_obs e s ops) = true.
Proof.
  intros e. induction ops as [|[o f] r IH]; intros s Hwf; [reflexivity|].
  inversion Hwf as [|? ? Ho Hr]. subst. cbn [fst] in Ho.
  cbn [run_obs]. pose proof (every_call_well_addressed_partial e s o f Ho) as H.
  destruct (handle e s o f) as [[s1 cs] ok]. cbn [steps_ok]. rewrite H. cbn [andb]. apply IH. exact Hr.
Qed.

Lemma never_in_default_partial : forall e s o f db coll c,
  op_pairs o = [(db, coll)] ->
  fst (map_names (e_nm e) db coll) <> "default" ->
  fst (map_names (e_nm e) db coll) <> "" ->
  In c (snd (fst (handle e s o f))) ->
  is_rbac (k_kind c) = false -> k_kind c <> KDescribeDatabase ->
  k_route c <> "default" /\ k_route c <> "".
Proof.
  intros e s o f db coll c Hop Hnd Hne Hin Hrb Hk.
  pose proof (handle_good e s o f) as (HF & _).
  rewrite Forall_forall in HF. destruct (HF c Hin) as [_ H].
  destruct (H db coll Hop Hrb Hk) as [E|E]; [|contradiction].
  rewrite E. split; assumption.
Qed.

Lemma frame_neq : forall P m m' k, frame P m m' -> m' k <> m k -> P k.
Proof. intros P m m' k F H. destruct (F k) as [E|HP]; [contradiction|exact HP]. Qed.

Lemma bookkeeping_source_keyed : forall e s o f k,
  let s1 := fst (fst (handle e s o f)) in
  (dbi s1 k <> dbi s k -> exists db, In db (op_dbs o) /\ (k = ckey (db_key db) \/ k = dkey (db_key db)))
  /\ (coli s1 k <> coli s k -> exists db coll, In (db, coll) (op_pairs o) /\ (k = ckey (coll_key coll db) \/ k = dkey (coll_key coll db)))
  /\ (parti s1 k <> parti s k -> exists db coll p, In (db, coll) (op_pairs o) /\ In p (op_parts o)
                                                  /\ (k = ckey (part_key p coll db) \/ k = dkey (part_key p coll db))).
Proof.
  intros e s o f k s1. pose proof (handle_good e s o f) as (_ & Fd & Fc & Fp). fold s1 in Fd, Fc, Fp.
  split; [|split]; intros H.
  - exact (frame_neq _ _ _ _ Fd H).
  - exact (frame_neq _ _ _ _ Fc H).
  - exact (frame_neq _ _ _ _ Fp H).
Qed.

(* ------------------------------------------------------------------ *)
(* why the unconditional statements fail: concrete counterexamples     *)
(* ------------------------------------------------------------------ *)

Local Open Scope N_scope.

Definition cx_env (nm : nmap) (milvus : bool) : env :=
  {| e_milvus := milvus; e_rid := ""; e_nm := nm; e_dbs := []; e_colls := []; e_parts := [] |}.

Definition cx_step (e : env) (s : wst) (o : wop) (f : bool) : bool :=
  let '(_, calls, ok) := handle e s o f in step_ok (e_nm e) o {| so_calls := calls; so_ok := ok |}.

(* an RBAC message whose kind is not an RBAC kind: the checker has no rule for it *)
Lemma cx_rbac_kind :
  cx_step (cx_env [] false) (winit [] [] []) (MRbac KCreateDatabase 0 []) false = false.
Proof. vm_compute. reflexivity. Qed.

(* a flush of two collections mapped to the same collection name in two databases, the second one
   dropped (skipped): the checker's first flush clause also looks at the skipped collection's target *)
Lemma cx_flush_skipped_same_name :
  cx_step (cx_env [(("db1", "a"), ("x", "t")); (("db1", "b"), ("y", "t"))] true)
          (winit [("db1_c", 0)] [("db1_a_c", 0); ("db1_b_d", 100)] [])
          (MFlush "db1" ["a"; "b"] 5 5) false = false.
Proof. vm_compute. reflexivity. Qed.

(* a flush whose first collection is mapped to the empty database name: the same-database test of
   flush_names treats "" as "not yet known", so two target databases end up in one request *)
Lemma cx_flush_empty_target :
  cx_step (cx_env [(("db1", "a"), ("", "ta")); (("db1", "b"), ("y", "tb"))] false)
          (winit [] [] []) (MFlush "db1" ["a"; "b"] 5 5) false = false.
Proof. vm_compute. reflexivity. Qed.

Lemma every_call_well_addressed_false :
  ~ (forall e s o f, let '(_, calls, ok) := handle e s o f in
                     step_ok (e_nm e) o {| so_calls := calls; so_ok := ok |} = true).
Proof.
  intros H. specialize (H (cx_env [] false) (winit [] [] []) (MRbac KCreateDatabase 0 []) false).
  vm_compute in H. discriminate H.
Qed.

Lemma model_passes_checker_false :
  ~ (forall e s ops, steps_ok (e_nm e) ops (run_obs e s ops) = true).
Proof.
  intros H. specialize (H (cx_env [] false) (winit [] [] []) [(MRbac KCreateDatabase 0 [], false)]).
  vm_compute in H. discriminate H.
Qed.

(* a collection mapped into the empty database name is routed to "" *)
Lemma never_in_default_false :
  ~ (forall e s o f db coll c,
       op_pairs o = [(db, coll)] ->
       fst (map_names (e_nm e) db coll) <> "default" ->
       In c (snd (fst (handle e s o f))) ->
       is_rbac (k_kind c) = false -> k_kind c <> KDescribeDatabase ->
       k_route c <> "default" /\ k_route c <> "").
Proof.
  intros H.
  specialize (H (cx_env [(("db1", "c"), ("", "c"))] false) (winit [] [] [])
                (EvCreateColl "db1" "c" 1 []) false "db1" "c"
                (mk KCreateCollection "" "" "c" [] [] 1)).
  destruct H as [_ H].
  - reflexivity.
  - vm_compute. discriminate.
  - vm_compute. left. reflexivity.
  - reflexivity.
  - discriminate.
  - apply H. reflexivity.
Qed.
