(* C09, the reader's target client (core/reader/target_client.go) - cases of `h_c09t`: GetCollectionInfo / GetPartitionInfo of the real
   TargetClient against an in-process gRPC Milvus that records the database and collection of every call.  The downstream is asked
   for the name mapping (Writer.Model.map_names, the same rule as the writer's) applied once to the source names. *)
From Coq Require Import List String NArith Bool.
From Verif Require Import Base.Util Writer.Model.
Import ListNotations.
Local Open Scope string_scope.

Record tcase := { t_nm : nmap; t_db : string; t_coll : string; t_whole : bool; t_ok : bool; t_calls : list (string * (string * string)) }.

Definition expected (c : tcase) : list (string * (string * string)) :=
  let tgt := map_names (t_nm c) (t_db c) (t_coll c) in
  if t_whole c then [("Describe", tgt); ("ShowPartitions", tgt)] else [("ShowPartitions", tgt)].
Definition call_eqb (a b : string * (string * string)) : bool :=
  String.eqb (fst a) (fst b) && String.eqb (fst (snd a)) (fst (snd b)) && String.eqb (snd (snd a)) (snd (snd b)).
Definition tagrees (c : tcase) : bool := t_ok c && list_eqb call_eqb (expected c) (t_calls c).

(* the statement on the observed calls: every call names the mapped database and collection; an object of a non-default database is
   never looked up in the default database unless the mapping says so *)
Definition check_C09t (c : tcase) : bool :=
  let tgt := map_names (t_nm c) (t_db c) (t_coll c) in
  forallb (fun k => String.eqb (fst (snd k)) (fst tgt) && String.eqb (snd (snd k)) (snd tgt)) (t_calls c)
  && negb (match t_calls c with [] => true | _ => false end).

Definition mismatches (l : list (N * tcase)) : list N := failing_ids tagrees l.
Definition checkfails (l : list (N * tcase)) : list N := failing_ids check_C09t l.
Definition knownclass (l : list (N * tcase)) : list (N * N) := [].
