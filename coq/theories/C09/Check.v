(* C09 — checker over the implementation's observations: names and routing of every downstream call *)
From Coq Require Import List String NArith Bool.
From Verif Require Import Base.Util Writer.Model.
Import ListNotations.
Local Open Scope string_scope.
Local Open Scope list_scope.

(* the source (database, collection) pairs an operation speaks about; db-level and RBAC ops have none *)
Definition op_pairs (o : wop) : list (string * string) :=
  match o with
  | EvCreateColl db coll _ _ | EvDropColl db coll _ => [(db, coll)]
  | EvCreatePart db coll _ _ | EvDropPart db coll _ _ => [(db, coll)]
  | MFlush db colls _ _ => map (fun c => (db, c)) colls
  | MCreateIndex db coll _ _ _ | MDropIndex db coll _ _ _ | MAlterIndex db coll _ _ _
  | MLoadColl db coll _ _ _ | MReleaseColl db coll _ _ => [(db, coll)]
  | MLoadParts db coll _ _ _ _ | MReleaseParts db coll _ _ _ => [(db, coll)]
  | _ => []
  end.
Definition op_db (o : wop) : option string :=
  match o with
  | MCreateDb db _ | MDropDb db _ _ | MAlterDb db _ _ => Some db
  | _ => None
  end.

Definition is_db_level (k : ckind) : bool :=
  match k with KCreateDatabase | KDropDatabase | KAlterDatabase => true | _ => false end.
Definition is_rbac (k : ckind) : bool :=
  match k with KCreateUser | KDeleteUser | KUpdateUser | KCreateRole | KDropRole | KOperateUserRole | KOperatePrivilege => true | _ => false end.

(* one call is well addressed w.r.t. the operation that caused it *)
Definition call_ok (nm : nmap) (o : wop) (c : call) : bool :=
  let pairs := op_pairs o in
  let targets := map (fun p => map_names nm (fst p) (snd p)) pairs in
  match k_kind c with
  | KDescribeDatabase =>
      (* probes the mapped database of the op's object *)
      existsb (fun p => String.eqb (k_db c) (fst (map_names nm (fst p) (snd p)))) pairs
      || existsb (fun p => String.eqb (k_db c) (fst (map_names nm (fst p) ""))) pairs
  | KDescribeCollection | KDescribePartition =>
      existsb (fun t => String.eqb (k_route c) (fst t) && String.eqb (k_coll c) (snd t)) targets
  | KCreateDatabase | KDropDatabase | KAlterDatabase =>
      match op_db o with Some db => String.eqb (k_db c) (fst (map_names nm db "")) | None => false end
  | KFlush =>
      forallb (fun t => String.eqb (k_route c) (fst t)) (filter (fun t => mem_str (snd t) (k_names c)) targets)
      && forallb (fun n => existsb (fun t => String.eqb n (snd t) && String.eqb (k_route c) (fst t)) targets) (k_names c)
      && (String.eqb (k_db c) "" || String.eqb (k_db c) (k_route c))
  | k =>
      if is_rbac k then true
      else existsb (fun t => String.eqb (k_route c) (fst t) && String.eqb (k_coll c) (snd t)
                             && (String.eqb (k_db c) "" || String.eqb (k_db c) (fst t))) targets
  end.

Definition step_ok (nm : nmap) (o : wop) (ob : step_obs) : bool := forallb (call_ok nm o) (so_calls ob).

Fixpoint steps_ok (nm : nmap) (ops : list (wop * bool)) (obs : list step_obs) : bool :=
  match ops, obs with
  | [], [] => true
  | (o, _) :: r, ob :: obr => step_ok nm o ob && steps_ok nm r obr
  | _, _ => false
  end.

Definition check_C09 (c : case) : bool := steps_ok (e_nm (c_env c)) (c_ops c) (c_obs c).

Definition mismatches (l : list (N * case)) : list N := failing_ids agrees l.
Definition checkfails (l : list (N * case)) : list N := failing_ids check_C09 l.
Definition knownclass (l : list (N * case)) : list (N * N) := [].
Definition explain (c : case) := (run_obs (c_env c) (winit (c_dbs c) (c_colls c) (c_parts c)) (c_ops c), c_obs c).
