(* Writer — executable model of core/writer/channel_writer.go (ChannelWriter): the readiness
   cascade with its three create/drop-time tables, the name mapping, and the construction of one
   downstream request per op message / API event.  Shared by C08 (skip decision), C09 (names and
   routing) and C20 (identity fields and stamp).  The downstream (api.DataHandler) is an oracle:
   [env] answers the Describe* probes (static per case), [fail] says whether the op's main call fails.
   The model follows the code after the repairs recorded in known_findings.json. *)
From Coq Require Import List String NArith Bool.
From Verif Require Import Base.Util.
Import ListNotations.
Local Open Scope string_scope.
Local Open Scope list_scope.
Local Open Scope N_scope.
Infix "+s+" := String.append (at level 60, right associativity).

Inductive state := Unknown | Created | Dropped.

(* getObjState — hand model; the twin translated from the source is gen/Gen_getObjState.v *)
Definition decide (m c d : N) (cok dok : bool) : state :=
  if negb cok && negb dok then Unknown
  else if negb cok && dok then (if m <=? d then Dropped else Unknown)
  else if cok && negb dok then (if c <=? m then Created else Dropped)
  else if d <=? c then (if c <=? m then Created else Dropped)
  else if d <? m then Unknown else Dropped.

Definition smap := string -> option N.
Definition sget (m : smap) (k : string) : option N := m k.
Definition sput (m : smap) (k : string) (v : N) : smap := fun k' => if String.eqb k k' then Some v else m k'.
Definition sdef (m : smap) (k : string) : N := match m k with Some v => v | None => 0 end.

Record wst := { dbi : smap; coli : smap; parti : smap }.
Definition winit (dbs colls parts : list (string * N)) : wst :=
  {| dbi := fun k => alookup dbs k; coli := fun k => alookup colls k; parti := fun k => alookup parts k |}.

Definition defdb (db : string) : string := if String.eqb db "" then "default" else db.
(* util.Get*InfoKeys *)
Definition db_key (db : string) := defdb db.
Definition coll_key (coll db : string) := defdb db +s+ "_" +s+ coll.
Definition part_key (part coll db : string) := defdb db +s+ "_" +s+ coll +s+ "_" +s+ part.
Definition ckey (k : string) := k +s+ "_c".
Definition dkey (k : string) := k +s+ "_d".

(* name mapping entries: ((source db, source collection), (target db, target collection)); "*" = all *)
Definition nmap := list ((string * string) * (string * string)).
Definition pair_str_eqb (a b : string * string) := String.eqb (fst a) (fst b) && String.eqb (snd a) (snd b).

(* mapDBAndCollectionName: exact entry, else an entry of that source db that is a whole-db entry (or any
   entry of the db when no collection is named), else unchanged *)
Definition map_names (nm : nmap) (db coll : string) : string * string :=
  let db := defdb db in
  match find (fun e => pair_str_eqb (fst e) (db, coll)) nm with
  | Some e => snd e
  | None =>
      match find (fun e => String.eqb (fst (fst e)) db && (String.eqb (snd (fst e)) "*" || String.eqb coll "")) nm with
      | Some e => (fst (snd e), coll)
      | None => (db, coll)
      end
  end.

(* downstream oracle for the probes: which (target) names exist *)
Record env := { e_milvus : bool; e_rid : string; e_nm : nmap;
                e_dbs : list string; e_colls : list (string * string);
                e_parts : list (string * (string * string)) }.

Inductive ckind :=
| KCreateCollection | KDropCollection | KCreatePartition | KDropPartition
| KFlush | KLoadCollection | KReleaseCollection | KLoadPartitions | KReleasePartitions
| KCreateIndex | KDropIndex | KAlterIndex | KCreateDatabase | KDropDatabase | KAlterDatabase
| KDescribeDatabase | KDescribeCollection | KDescribePartition
| KCreateUser | KDeleteUser | KUpdateUser | KCreateRole | KDropRole | KOperateUserRole | KOperatePrivilege.

(* one call received by the DataHandler.  k_route = ReplicateParam.Database; k_db = the database named inside
   the request ("" when the request has no such field or leaves it empty); k_names = partition names, or the
   collection names of a flush; k_pay = the remaining identity fields, rendered by the harness *)
Record call := { k_kind : ckind; k_route : string; k_db : string; k_coll : string; k_names : list string;
                 k_pay : list string; k_ts : N; k_rep : bool }.

Definition probe_call (k : ckind) (route db coll : string) (names : list string) : call :=
  {| k_kind := k; k_route := route; k_db := db; k_coll := coll; k_names := names; k_pay := []; k_ts := 0; k_rep := false |}.

(* WaitDatabaseReady *)
Definition wait_db (e : env) (s : wst) (db : string) (ts : N) (coll : string) : wst * list call * state :=
  if String.eqb db "" || String.eqb db "default" then (s, [], Created)
  else
    let ck := ckey (db_key db) in let dk := dkey (db_key db) in
    let c := sget (dbi s) ck in let d := sget (dbi s) dk in
    match decide ts (sdef (dbi s) ck) (sdef (dbi s) dk)
                 (match c with Some _ => true | None => false end) (match d with Some _ => true | None => false end) with
    | Unknown =>
        let tdb := fst (map_names (e_nm e) db coll) in
        let pc := probe_call KDescribeDatabase "" tdb "" [] in
        if mem_str tdb (e_dbs e)
        then ({| dbi := sput (dbi s) ck (sdef (dbi s) dk + 1); coli := coli s; parti := parti s |}, [pc], Created)
        else (s, [pc], Unknown)
    | st => (s, [], st)
    end.

(* WaitCollectionReady *)
Definition wait_coll (e : env) (s : wst) (coll db : string) (ts : N) : wst * list call * state :=
  let ck := ckey (coll_key coll db) in let dk := dkey (coll_key coll db) in
  let c := sget (coli s) ck in let d := sget (coli s) dk in
  match decide ts (sdef (coli s) ck) (sdef (coli s) dk)
               (match c with Some _ => true | None => false end) (match d with Some _ => true | None => false end) with
  | Unknown =>
      let '(tdb, tcoll) := map_names (e_nm e) db coll in
      let pc := probe_call KDescribeCollection tdb "" tcoll [] in
      if existsb (pair_str_eqb (tdb, tcoll)) (e_colls e)
      then ({| dbi := dbi s; coli := sput (coli s) ck (sdef (coli s) dk + 1); parti := parti s |}, [pc], Created)
      else (s, [pc], Unknown)
  | st => (s, [], st)
  end.

(* WaitPartitionReady *)
Definition wait_part (e : env) (s : wst) (coll part db : string) (ts : N) : wst * list call * state :=
  let ck := ckey (part_key part coll db) in let dk := dkey (part_key part coll db) in
  let c := sget (parti s) ck in let d := sget (parti s) dk in
  match decide ts (sdef (parti s) ck) (sdef (parti s) dk)
               (match c with Some _ => true | None => false end) (match d with Some _ => true | None => false end) with
  | Unknown =>
      let '(tdb, tcoll) := map_names (e_nm e) db coll in
      let pc := probe_call KDescribePartition tdb "" tcoll [part] in
      if existsb (fun x => String.eqb (fst x) tdb && pair_str_eqb (snd x) (tcoll, part)) (e_parts e)
      then ({| dbi := dbi s; coli := coli s; parti := sput (parti s) ck (sdef (parti s) dk + 1) |}, [pc], Created)
      else (s, [pc], Unknown)
  | st => (s, [], st)
  end.

Inductive wres := Go | Skip | Fail.

(* WaitObjReady: database -> collection -> partition *)
Definition wait_obj (e : env) (s : wst) (db coll part : string) (ts : N) : wst * list call * wres :=
  if negb (e_milvus e) then (s, [], Go) else
  let '(s1, c1, r1) := if String.eqb db "" then (s, [], Created) else wait_db e s db ts coll in
  match r1 with
  | Unknown => (s1, c1, Fail) | Dropped => (s1, c1, Skip)
  | Created =>
      let '(s2, c2, r2) := if String.eqb coll "" then (s1, [], Created) else wait_coll e s1 coll db ts in
      match r2 with
      | Unknown => (s2, c1 ++ c2, Fail) | Dropped => (s2, c1 ++ c2, Skip)
      | Created =>
          let '(s3, c3, r3) := if String.eqb coll "" || String.eqb part "" then (s2, [], Created)
                               else wait_part e s2 coll part db ts in
          (s3, c1 ++ c2 ++ c3, match r3 with Unknown => Fail | Dropped => Skip | Created => Go end)
      end
  end.

(* op messages travel in a pack whose last end position carries [stamp]; [ets] is the message's own end ts *)
Inductive wop :=
| EvCreateColl (db coll : string) (ts : N) (pay : list string)
| EvDropColl (db coll : string) (ts : N)
| EvCreatePart (db coll part : string) (ts : N)
| EvDropPart (db coll part : string) (ts : N)
| MCreateDb (db : string) (stamp : N)
| MDropDb (db : string) (stamp ets : N)
| MAlterDb (db : string) (stamp : N) (pay : list string)
| MFlush (db : string) (colls : list string) (stamp ets : N)
| MCreateIndex (db coll : string) (stamp ets : N) (pay : list string)
| MDropIndex (db coll : string) (stamp ets : N) (pay : list string)
| MAlterIndex (db coll : string) (stamp ets : N) (pay : list string)
| MLoadColl (db coll : string) (stamp ets : N) (pay : list string)
| MReleaseColl (db coll : string) (stamp ets : N)
| MLoadParts (db coll : string) (parts : list string) (stamp ets : N) (pay : list string)
| MReleaseParts (db coll : string) (parts : list string) (stamp ets : N)
| MRbac (k : ckind) (stamp : N) (pay : list string)
| PackEmpty | PackTwo | PackUnknown.

Definition mk (k : ckind) (route db coll : string) (names pay : list string) (ts : N) : call :=
  {| k_kind := k; k_route := route; k_db := db; k_coll := coll; k_names := names; k_pay := pay; k_ts := ts; k_rep := true |}.

(* "call, and if it fails re-run the readiness test: skip quietly if the object is gone, else fail" *)
Definition after_fail (e : env) (s : wst) (fail : bool) (recheck : wst -> wst * list call * wres) : wst * list call * bool :=
  if fail then let '(s1, c1, r) := recheck s in (s1, c1, match r with Skip => true | _ => false end)
  else (s, [], true).

(* the partition filter of loadPartitions / releasePartitions; an error aborts *)
Fixpoint filter_parts (e : env) (s : wst) (db coll : string) (ps : list string) (ts : N)
  : wst * list call * option (list string) :=
  match ps with
  | [] => (s, [], Some [])
  | p :: r =>
      let '(s1, c1, w) := wait_obj e s db coll p ts in
      match w with
      | Fail => (s1, c1, None)
      | Skip => let '(s2, c2, o) := filter_parts e s1 db coll r ts in (s2, c1 ++ c2, o)
      | Go => let '(s2, c2, o) := filter_parts e s1 db coll r ts in (s2, c1 ++ c2, option_map (cons p) o)
      end
  end.

(* after a failing call: all kept objects must be gone for the failure to be forgiven *)
Fixpoint recheck_all (e : env) (s : wst) (db coll : string) (ps : list string) (ts : N) (bycoll : bool)
  : wst * list call * bool :=
  match ps with
  | [] => (s, [], true)
  | p :: r =>
      let '(s1, c1, w) := if bycoll then wait_obj e s db p "" ts else wait_obj e s db coll p ts in
      match w with
      | Skip => let '(s2, c2, b) := recheck_all e s1 db coll r ts bycoll in (s2, c1 ++ c2, b)
      | _ => (s1, c1, false)
      end
  end.

(* flush: per collection readiness, all mapped names must share one database *)
Fixpoint flush_names (e : env) (s : wst) (db : string) (cs : list string) (ts : N) (mdb : string)
  : wst * list call * option (list string * list string * string) :=
  match cs with
  | [] => (s, [], Some ([], [], mdb))
  | c :: r =>
      let '(s1, c1, w) := wait_obj e s db c "" ts in
      match w with
      | Fail => (s1, c1, None)
      | Skip => let '(s2, c2, o) := flush_names e s1 db r ts mdb in (s2, c1 ++ c2, o)
      | Go =>
          let '(tdb, tc) := map_names (e_nm e) db c in
          if negb (String.eqb mdb "") && negb (String.eqb mdb tdb) then (s1, c1, None)
          else
            let '(s2, c2, o) := flush_names e s1 db r ts tdb in
            (s2, c1 ++ c2, option_map (fun x => (c :: fst (fst x), tc :: snd (fst x), snd x)) o)
      end
  end.

(* result: (new tables, calls in order, ok?) *)
Definition handle (e : env) (s : wst) (o : wop) (fail : bool) : wst * list call * bool :=
  let nm := e_nm e in
  match o with
  | EvCreateColl db coll ts pay =>
      let '(s1, c1, w) := wait_obj e s db "" "" ts in
      match w with Fail => (s1, c1, false) | Skip => (s1, c1, true) | Go =>
        let '(tdb, tc) := map_names nm db coll in
        let pay' := if String.eqb (e_rid e) "" then pay else pay ++ ["replicate.id=" +s+ e_rid e] in
        (s1, c1 ++ [mk KCreateCollection tdb "" tc [] pay' ts], negb fail) end
  | EvDropColl db coll ts =>
      let '(s1, c1, w) := wait_obj e s db "" "" ts in
      match w with Fail => (s1, c1, false) | Skip => (s1, c1, true) | Go =>
        let '(tdb, tc) := map_names nm db coll in
        let cl := mk KDropCollection tdb "" tc [] [] ts in
        if fail then (s1, c1 ++ [cl], false)
        else ({| dbi := dbi s1; coli := sput (coli s1) (dkey (coll_key coll db)) ts; parti := parti s1 |}, c1 ++ [cl], true) end
  | EvCreatePart db coll part ts =>
      let '(s1, c1, w) := wait_obj e s db coll "" ts in
      match w with Fail => (s1, c1, false) | Skip => (s1, c1, true) | Go =>
        let '(tdb, tc) := map_names nm db coll in
        let cl := mk KCreatePartition tdb "" tc [part] [] ts in
        let '(s2, c2, ok) := after_fail e s1 fail (fun s => wait_obj e s db coll "" ts) in
        (s2, c1 ++ [cl] ++ c2, ok) end
  | EvDropPart db coll part ts =>
      let '(s1, c1, w) := wait_obj e s db coll "" ts in
      match w with Fail => (s1, c1, false) | Skip => (s1, c1, true) | Go =>
        let '(tdb, tc) := map_names nm db coll in
        let cl := mk KDropPartition tdb "" tc [part] [] ts in
        let '(s2, c2, ok) := after_fail e s1 fail (fun s => wait_obj e s db coll "" ts) in
        if ok then ({| dbi := dbi s2; coli := coli s2; parti := sput (parti s2) (dkey (part_key part coll db)) ts |}, c1 ++ [cl] ++ c2, true)
        else (s2, c1 ++ [cl] ++ c2, false) end
  | MCreateDb db stamp =>
      (s, [mk KCreateDatabase "" (fst (map_names nm db "")) "" [] [] stamp], negb fail)
  | MDropDb db stamp ets =>
      let cl := mk KDropDatabase "" (fst (map_names nm db "")) "" [] [] stamp in
      if fail then (s, [cl], false)
      else ({| dbi := sput (dbi s) (dkey (db_key db)) ets; coli := coli s; parti := parti s |}, [cl], true)
  | MAlterDb db stamp pay =>
      (s, [mk KAlterDatabase "" (fst (map_names nm db "")) "" [] pay stamp], negb fail)
  | MFlush db colls stamp ets =>
      let '(s1, c1, o) := flush_names e s db colls ets "" in
      match o with
      | None => (s1, c1, false)
      | Some (kept, mapped, mdb) =>
          match kept with
          | [] => (s1, c1, true)
          | _ =>
              let cl := mk KFlush mdb "" "" mapped [] stamp in
              if fail then let '(s2, c2, ok) := recheck_all e s1 db "" kept ets true in (s2, c1 ++ [cl] ++ c2, ok)
              else (s1, c1 ++ [cl], true)
          end
      end
  | MCreateIndex db coll stamp ets pay =>
      let '(s1, c1, w) := wait_obj e s db coll "" ets in
      match w with Fail => (s1, c1, false) | Skip => (s1, c1, true) | Go =>
        let '(tdb, tc) := map_names nm db coll in
        let '(s2, c2, ok) := after_fail e s1 fail (fun s => wait_obj e s db coll "" ets) in
        (s2, c1 ++ [mk KCreateIndex tdb tdb tc [] pay stamp] ++ c2, ok) end
  | MDropIndex db coll stamp ets pay =>
      let '(s1, c1, w) := wait_obj e s db coll "" ets in
      match w with Fail => (s1, c1, false) | Skip => (s1, c1, true) | Go =>
        let '(tdb, tc) := map_names nm db coll in
        let '(s2, c2, ok) := after_fail e s1 fail (fun s => wait_obj e s db coll "" ets) in
        (s2, c1 ++ [mk KDropIndex tdb "" tc [] pay stamp] ++ c2, ok) end
  | MAlterIndex db coll stamp ets pay =>
      let '(s1, c1, w) := wait_obj e s db coll "" ets in
      match w with Fail => (s1, c1, false) | Skip => (s1, c1, true) | Go =>
        let '(tdb, tc) := map_names nm db coll in
        (s1, c1 ++ [mk KAlterIndex tdb tdb tc [] pay stamp], negb fail) end
  | MLoadColl db coll stamp ets pay =>
      let '(s1, c1, w) := wait_obj e s db coll "" ets in
      match w with Fail => (s1, c1, false) | Skip => (s1, c1, true) | Go =>
        let '(tdb, tc) := map_names nm db coll in
        let '(s2, c2, ok) := after_fail e s1 fail (fun s => wait_obj e s db coll "" ets) in
        (s2, c1 ++ [mk KLoadCollection tdb tdb tc [] pay stamp] ++ c2, ok) end
  | MReleaseColl db coll stamp ets =>
      let '(s1, c1, w) := wait_obj e s db coll "" ets in
      match w with Fail => (s1, c1, false) | Skip => (s1, c1, true) | Go =>
        let '(tdb, tc) := map_names nm db coll in
        let '(s2, c2, ok) := after_fail e s1 fail (fun s => wait_obj e s db coll "" ets) in
        (s2, c1 ++ [mk KReleaseCollection tdb "" tc [] [] stamp] ++ c2, ok) end
  | MLoadParts db coll parts stamp ets pay =>
      let '(s1, c1, o) := filter_parts e s db coll parts ets in
      match o with
      | None => (s1, c1, false)
      | Some [] => (s1, c1, true)
      | Some kept =>
          let '(tdb, tc) := map_names nm db coll in
          let cl := mk KLoadPartitions tdb "" tc kept pay stamp in
          if fail then let '(s2, c2, ok) := recheck_all e s1 db coll kept ets false in (s2, c1 ++ [cl] ++ c2, ok)
          else (s1, c1 ++ [cl], true)
      end
  | MReleaseParts db coll parts stamp ets =>
      let '(s1, c1, o) := filter_parts e s db coll parts ets in
      match o with
      | None => (s1, c1, false)
      | Some [] => (s1, c1, true)
      | Some kept =>
          let '(tdb, tc) := map_names nm db coll in
          let cl := mk KReleasePartitions tdb "" tc kept [] stamp in
          if fail then let '(s2, c2, ok) := recheck_all e s1 db coll kept ets false in (s2, c1 ++ [cl] ++ c2, ok)
          else (s1, c1 ++ [cl], true)
      end
  | MRbac k stamp pay => (s, [mk k "" "" "" [] pay stamp], negb fail)
  | PackEmpty | PackTwo | PackUnknown => (s, [], false)
  end.

(* ---- histories and observation ---- *)
Record step_obs := { so_calls : list call; so_ok : bool }.

Fixpoint run_obs (e : env) (s : wst) (ops : list (wop * bool)) : list step_obs :=
  match ops with
  | [] => []
  | (o, f) :: r => let '(s1, cs, ok) := handle e s o f in {| so_calls := cs; so_ok := ok |} :: run_obs e s1 r
  end.

Fixpoint run_st (e : env) (s : wst) (ops : list (wop * bool)) : wst :=
  match ops with
  | [] => s
  | (o, f) :: r => let '(s1, _, _) := handle e s o f in run_st e s1 r
  end.

Record case := { c_env : env; c_dbs : list (string * N); c_colls : list (string * N); c_parts : list (string * N);
                 c_ops : list (wop * bool); c_obs : list step_obs }.

Definition ckind_eqb (a b : ckind) : bool :=
  match a, b with
  | KCreateCollection, KCreateCollection | KDropCollection, KDropCollection | KCreatePartition, KCreatePartition
  | KDropPartition, KDropPartition | KFlush, KFlush | KLoadCollection, KLoadCollection
  | KReleaseCollection, KReleaseCollection | KLoadPartitions, KLoadPartitions | KReleasePartitions, KReleasePartitions
  | KCreateIndex, KCreateIndex | KDropIndex, KDropIndex | KAlterIndex, KAlterIndex
  | KCreateDatabase, KCreateDatabase | KDropDatabase, KDropDatabase | KAlterDatabase, KAlterDatabase
  | KDescribeDatabase, KDescribeDatabase | KDescribeCollection, KDescribeCollection | KDescribePartition, KDescribePartition
  | KCreateUser, KCreateUser | KDeleteUser, KDeleteUser | KUpdateUser, KUpdateUser | KCreateRole, KCreateRole
  | KDropRole, KDropRole | KOperateUserRole, KOperateUserRole | KOperatePrivilege, KOperatePrivilege => true
  | _, _ => false
  end.

Definition strs_eqb := list_eqb String.eqb.
Definition call_eqb (a b : call) : bool :=
  ckind_eqb (k_kind a) (k_kind b) && String.eqb (k_route a) (k_route b) && String.eqb (k_db a) (k_db b)
  && String.eqb (k_coll a) (k_coll b) && strs_eqb (k_names a) (k_names b) && strs_eqb (k_pay a) (k_pay b)
  && N.eqb (k_ts a) (k_ts b) && Bool.eqb (k_rep a) (k_rep b).
Definition so_eqb (a b : step_obs) : bool := list_eqb call_eqb (so_calls a) (so_calls b) && Bool.eqb (so_ok a) (so_ok b).

Definition agrees (c : case) : bool :=
  list_eqb so_eqb (run_obs (c_env c) (winit (c_dbs c) (c_colls c) (c_parts c)) (c_ops c)) (c_obs c).
