(* C01 - completeness at the level of one message (sufficient conditions for delivery): a message of a live collection whose record the
   handler holds and whose partition the handler knows is appended to the pack being built - nothing is silently filtered *)
From Coq Require Import List String NArith ZArith Bool Arith Lia.
From Verif Require Import Base.Util Reader.Model Reader.Proofs.
From Verif Require C04.Proofs.
Import ListNotations.
Local Open Scope string_scope.

Definition first_ok (a : acc) (m : smsg) : Prop := a_first a = None \/ a_first a = Some (m_coll m).
(* the pack is not a mix of forwarded and not-forwarded messages: either this message is forwarded, or nothing was so far *)
Definition no_mix (a : acc) (r : trec) : Prop := String.eqb (h_tgt (a_h a)) (t_tpch r) = true -> a_fwd a = None.

Lemma first_c0 a m : first_ok a m -> match a_first a with Some c => c | None => m_coll m end = m_coll m.
Proof. intros [-> | ->]; reflexivity. Qed.

Lemma append_appends a r e : no_mix a r -> a_out (append a r e) = (a_out a ++ [e])%list.
Proof.
  intros H. unfold append. destruct (String.eqb (h_tgt (a_h a)) (t_tpch r)) eqn:E; cbn [negb]; [|reflexivity].
  rewrite (H E). reflexivity.
Qed.

Lemma append_h' a r e : a_h (append a r e) = a_h a.
Proof. unfold append. destruct (negb _); [reflexivity|]. destruct (a_fwd a); reflexivity. Qed.
Lemma append_need' a r e : a_need (append a r e) = a_need a.
Proof. unfold append. destruct (negb _); [reflexivity|]. destruct (a_fwd a); reflexivity. Qed.

Lemma part_lookup_known retries a c r pid name id : alookup (heap_get (a_st a) (t_parts r)) name = Some id ->
  part_lookup retries a c r pid name = (PFound id, a, r).
Proof. intros H. unfold part_lookup. rewrite H. reflexivity. Qed.

Ltac start_one m Hk Hf Hd Hr :=
  unfold one_msg; rewrite Hk; cbn zeta; cbn [a_st a_h a_first a_out a_need a_fwd a_ans a_cname];
  rewrite (first_c0 _ m Hf), Z.eqb_refl; cbn [negb a_st a_h a_first a_out a_need a_fwd a_ans a_cname]; rewrite Hd, Hr;
  cbn [a_st a_h a_first a_out a_need a_fwd a_ans a_cname].

(* an insert into a known partition of a live collection is delivered *)
Lemma insert_delivered retries a m r id :
  m_kind m = KInsert -> first_ok a m -> zmem (m_coll m) (dcolls (a_st a)) = false ->
  zlookup (h_recs (a_h a)) (m_coll m) = Some r -> t_dropped r = false ->
  alookup (heap_get (a_st a) (t_parts r)) (m_pname m) = Some id -> no_mix a r ->
  exists a', one_msg retries a m = COk a' /\ a_out a' = (a_out a ++ [mk_emsg m r id])%list.
Proof.
  intros Hk Hf Hd Hr Ht Hp Hm. start_one m Hk Hf Hd Hr. rewrite Ht.
  match goal with |- context [part_lookup retries ?a0 ?c ?r0 ?p ?n] => rewrite (part_lookup_known retries a0 c r0 p n id) by exact Hp end.
  eexists. split; [reflexivity|]. rewrite append_appends; [reflexivity|exact Hm].
Qed.

(* a delete for a known partition that is neither dropped nor being dropped is delivered *)
Lemma delete_delivered retries a m r id :
  m_kind m = KDelete -> first_ok a m -> zmem (m_coll m) (dcolls (a_st a)) = false ->
  zlookup (h_recs (a_h a)) (m_coll m) = Some r -> t_dropped r = false ->
  zmem (m_part m) (dparts (a_st a)) = false -> zmem (m_part m) (t_dropping r) = false -> m_pname m <> "" ->
  alookup (heap_get (a_st a) (t_parts r)) (m_pname m) = Some id -> no_mix a r ->
  exists a', one_msg retries a m = COk a' /\ a_out a' = (a_out a ++ [mk_emsg m r id])%list.
Proof.
  intros Hk Hf Hd Hr Ht Hdp Hdr Hn Hp Hm. start_one m Hk Hf Hd Hr. rewrite Ht, Hdp, Hdr. cbn [orb].
  destruct (String.eqb_spec (m_pname m) "") as [E|_]; [contradiction|].
  match goal with |- context [part_lookup retries ?a0 ?c ?r0 ?p ?n] => rewrite (part_lookup_known retries a0 c r0 p n id) by exact Hp end.
  eexists. split; [reflexivity|]. rewrite append_appends; [reflexivity|exact Hm].
Qed.

(* a delete that names no partition keeps its partition id and is delivered *)
Lemma delete_all_delivered retries a m r :
  m_kind m = KDelete -> first_ok a m -> zmem (m_coll m) (dcolls (a_st a)) = false ->
  zlookup (h_recs (a_h a)) (m_coll m) = Some r -> t_dropped r = false ->
  zmem (m_part m) (dparts (a_st a)) = false -> zmem (m_part m) (t_dropping r) = false -> m_pname m = "" -> no_mix a r ->
  exists a', one_msg retries a m = COk a' /\ a_out a' = (a_out a ++ [mk_emsg m r (m_part m)])%list.
Proof.
  intros Hk Hf Hd Hr Ht Hdp Hdr Hn Hm. start_one m Hk Hf Hd Hr. rewrite Ht, Hdp, Hdr, Hn. cbn [orb String.eqb].
  eexists. split; [reflexivity|]. rewrite append_appends; [reflexivity|exact Hm].
Qed.

(* the drop of a collection the handler holds a record of is always handed on (and the record leaves the handler) *)
Lemma drop_collection_delivered retries a m r :
  m_kind m = KDropColl -> first_ok a m -> zmem (m_coll m) (dcolls (a_st a)) = false ->
  zlookup (h_recs (a_h a)) (m_coll m) = Some r -> no_mix a r ->
  exists a', one_msg retries a m = COk a' /\ a_out a' = (a_out a ++ [mk_emsg m r (m_part m)])%list
             /\ zlookup (h_recs (a_h a')) (m_coll m) = None /\ a_need a' = true.
Proof.
  intros Hk Hf Hd Hr Hm. start_one m Hk Hf Hd Hr.
  eexists. split; [reflexivity|]. split; [rewrite append_appends; [reflexivity|exact Hm]|].
  rewrite append_h', append_need'. cbn [a_h a_need del_rec h_recs]. rewrite C04.Proofs.zlookup_zremove, Z.eqb_refl. split; reflexivity.
Qed.
