(* C01 — proofs: what one fed pack contributes to the output, over every state of the reader model *)
From Coq Require Import List String NArith ZArith Bool Arith Lia Permutation Sorting.Sorted.
From Verif Require Import Base.Util Reader.Model Reader.Script Reader.Proofs C03.Proofs.
From Verif Require Import Reader.Forget.
Import ListNotations.
Local Open Scope string_scope.

(* [derived l o]: o holds rewritten copies (same kind, id, rows, partition name, source time) of a subsequence of l, in order *)
Inductive derived : list smsg -> list emsg -> Prop :=
| d_nil : derived [] []
| d_skip m l o : derived l o -> derived (m :: l) o
| d_take m l o r pid : supported (m_kind m) = true -> derived l o -> derived (m :: l) (mk_emsg m r pid :: o).

Lemma derived_all_skip l : derived l [].
Proof. induction l; constructor; assumption. Qed.

Lemma all_msgs_derived retries : forall l a,
  match all_msgs retries a l with
  | COk a' => exists o, a_out a' = (a_out a ++ o)%list /\ derived l o
  | CErr _ => True end.
Proof.
  induction l as [|m r IH]; intros a; cbn [all_msgs]; [exists []; split; [rewrite app_nil_r; reflexivity|constructor]|].
  pose proof (one_msg_out retries a m) as F. destruct (one_msg retries a m) as [s|a1]; [exact I|].
  specialize (IH a1). destruct (all_msgs retries a1 r) as [|a2]; [exact I|]. destruct IH as [o [E D]].
  destruct F as [F|[rr [pid [F S]]]].
  - exists o. split; [congruence|]. constructor. exact D.
  - exists (mk_emsg m rr pid :: o). split; [rewrite E, F, <- app_assoc; reflexivity|]. constructor; assumption.
Qed.

(* a derived list has no more copies of an id than the source *)
Definition count_id (id : N) (l : list N) : nat := List.length (filter (N.eqb id) l).
Lemma derived_count l o : derived l o -> forall id, (count_id id (map e_id o) <= count_id id (map m_id l))%nat.
Proof.
  induction 1 as [|m l o _ IH|m l o r pid _ _ IH]; intros id; unfold count_id in *; cbn [map filter]; [lia| |].
  - specialize (IH id). destruct (N.eqb id (m_id m)); cbn [List.length]; lia.
  - specialize (IH id). cbn [e_id mk_emsg]. destruct (N.eqb id (m_id m)); cbn [List.length]; lia.
Qed.

Lemma derived_in l o : derived l o -> forall e, In e o ->
  exists m r pid, In m l /\ e = mk_emsg m r pid /\ supported (m_kind m) = true.
Proof.
  induction 1 as [|m l o _ IH|m l o r pid S _ IH]; intros e Hin; [destruct Hin| |].
  - destruct (IH e Hin) as [m' [r' [p' [A B]]]]. exists m', r', p'. split; [right; exact A|exact B].
  - destruct Hin as [<-|Hin]; [exists m, r, pid; split; [left; reflexivity|split; [reflexivity|exact S]]|].
    destruct (IH e Hin) as [m' [r' [p' [A B]]]]. exists m', r', p'. split; [right; exact A|exact B].
Qed.

(* source order is kept: the source times of a derived list are sorted when the source is *)
Lemma derived_sorted l o : derived l o -> StronglySorted ord l ->
  StronglySorted (fun a b => (e_ts a < e_ts b)%N \/ (e_ts a = e_ts b /\ (e_kind b = KDelete -> e_kind a = KDelete))) o.
Proof.
  induction 1 as [|m l o _ IH|m l o r pid _ D IH]; intros S; [constructor| |].
  - inversion S; subst. apply IH. assumption.
  - inversion S as [|? ? S' F]; subst. constructor; [apply IH; exact S'|].
    rewrite Forall_forall in F |- *. intros e Hin. destruct (derived_in l o D e Hin) as [m' [r' [p' [A [-> _]]]]].
    specialize (F m' A). unfold ord, is_del in F. cbn [e_ts e_kind mk_emsg].
    destruct F as [F|[F1 F2]]; [left; exact F|right; split; [exact F1|]].
    intros K. rewrite K in F2. specialize (F2 eq_refl). destruct (m_kind m); cbn in F2; congruence.
Qed.

Lemma eta_emsg l : map (fun e => {| e_kind := e_kind e; e_id := e_id e; e_coll := e_coll e; e_part := e_part e;
                                     e_pname := e_pname e; e_shard := e_shard e; e_poschan := e_poschan e;
                                     e_ts := e_ts e; e_posts := e_posts e; e_rows := e_rows e |}) l = l.
Proof. induction l as [|[] l IH]; cbn; [reflexivity|]. rewrite IH. reflexivity. Qed.

(* ---------- what one label contributes ---------- *)
(* the pack [pk] carries, between ticks, retimed copies of [o'] which is [o] (or [o] sorted again on the forward path) *)
Definition carries (p : spack) (spch : string) (pk : epack) : Prop :=
  ep_spch pk = spch
  /\ exists o o' opening data tk, derived (sort_msgs (p_msgs p)) o /\ Permutation o' o
       /\ ep_msgs pk = (opening ++ data ++ [tk])%list
       /\ Forall (fun x => e_kind x = KTick) opening /\ e_kind tk = KTick
       /\ Forall2 same_but_time o' data.

Lemma fire_out l b s : out (forget_fired l b (fire_pbars (fire_cbars s))) = out s.
Proof.
  pose proof (forget_fired_frame l b (fire_pbars (fire_cbars s))) as F. unfold same_but_heap in F.
  destruct (fire_cbars_frame s) as [_ B]. destruct (fire_pbars_frame (fire_cbars s)) as [_ D].
  replace (out (forget_fired l b (fire_pbars (fire_cbars s)))) with (out (fire_pbars (fire_cbars s))) by (symmetry; apply F). congruence.
Qed.

Lemma fold_add_shard_out c ref : forall shards s, out (fold_left (fun s sh => add_shard s c ref sh) shards s) = out s.
Proof. induction shards as [|sh r IH]; intros s; cbn [fold_left]; [reflexivity|]. rewrite IH. apply add_shard_out. Qed.

Lemma step_contrib retries s l : CInv s -> feed_safe s l ->
  out (step retries s l) = out s
  \/ exists pk c cname spch p answers, l = Feed c cname spch p answers /\ out (step retries s l) = (out s ++ [pk])%list /\ carries p spch pk.
Proof.
  intros I Hsafe. unfold step. rewrite fire_out. destruct l as [c|c pid pname th|c cname spch p answers|cs|c spchs|ns nt].
  - left. destruct (zmem _ _); [reflexivity|]. destruct (zlookup _ _); [reflexivity|]. destruct (pairing c) as [shards|]; [|reflexivity].
    match goal with |- out (settle ?x) = _ => destruct (settle_rel x) as [_ ->] end.
    rewrite fold_add_shard_out. reflexivity.
  - left. repeat dm; reflexivity.
  - cbn [feed_safe] in Hsafe. destruct Hsafe as [Hb Hw].
    destruct (hlookup s spch) as [h|]; [|left; reflexivity].
    set (begin := repair_begin p) in *.
    set (s0 := set_clock s (h_tgt h) (collect (clock_of s (h_tgt h)) begin)).
    assert (I0 : CInv s0) by (apply CInv_collect; assumption).
    assert (Hc0 : forall ch, (cts (clock_of s0 ch) <= N.max (cts (clock_of s ch)) begin)%N /\ (ch = h_tgt h -> (begin <= cts (clock_of s0 ch))%N)).
    { intros ch. unfold s0. destruct (String.eqb_spec (h_tgt h) ch) as [<-|Hne].
      - rewrite clock_of_set. destruct (collect_spec (clock_of s (h_tgt h)) begin Hb) as [-> _]. split; [lia|intros _; lia].
      - rewrite (clock_of_set_other _ _ _ _ Hne). split; [lia|]. intros ->. contradiction. }
    set (a0 := {| a_st := s0; a_h := h; a_first := None; a_out := []; a_need := false; a_fwd := None; a_ans := answers; a_cname := "" |}).
    pose proof (all_msgs_frame retries (sort_msgs (p_msgs p)) a0) as Fr.
    pose proof (all_msgs_out retries (sort_msgs (p_msgs p)) a0) as Fo.
    pose proof (all_msgs_derived retries (sort_msgs (p_msgs p)) a0) as Fd.
    destruct (all_msgs retries a0 (sort_msgs (p_msgs p))) as [s1|a].
    + left. destruct Fr as [_ B]. cbn [out]. rewrite B. reflexivity.
    + destruct Fr as [A B]. cbn [a_st a0] in A, B. destruct Fo as [L _]. cbn [a_out a0 List.length] in L. rewrite sort_msgs_length in L.
      destruct Fd as [o [Eo D]]. cbn [a_out a0 app] in Eo.
      match goal with |- out (match a_fwd a with Some tgt => match find ?f (handlers ?s1') with _ => _ end | None => _ end) = _ \/ _ => set (s1 := s1') end.
      assert (I1 : CInv s1) by (apply (CInv_ext s0); [exact A|exact B|exact I0]).
      assert (Hc1 : forall ch, clock_of s1 ch = clock_of s0 ch) by (intros ch; apply clock_of_ext; exact A).
      assert (Ho1 : out s1 = out s) by (cbn [out s1]; rewrite B; reflexivity).
      destruct (a_fwd a) as [tgt|].
      * destruct (find _ (handlers s1)); [|left; exact Ho1].
        set (s2 := set_clock s1 tgt (collect (clock_of s1 tgt) begin)).
        assert (I2 : CInv s2) by (apply CInv_collect; assumption).
        match goal with |- out (emit s2 tgt ?fl begin ?e ?msgs ?need) = _ \/ _ =>
          destruct (emit_spec s2 tgt fl begin e msgs need) as [_ [_ [_ [_ [_ [_ [_ [_ [_ [_ [_ [_ Hcases]]]]]]]]]]]] end.
        -- apply I2.
        -- unfold s2. rewrite clock_of_set. destruct (collect_spec (clock_of s1 tgt) begin Hb) as [-> _]. lia.
        -- unfold s2. rewrite clock_of_set. destruct (collect_spec (clock_of s1 tgt) begin Hb) as [-> _]. rewrite Hc1.
           rewrite (Permutation_length (sort_emsgs_perm (a_out a))). specialize (Hw tgt). destruct (Hc0 tgt) as [Q _]. lia.
        -- destruct Hcases as [[Ho _]|[pk [Ho [Hp _]]]]; [left; rewrite Ho; exact Ho1|].
           right. exists pk, c, cname, spch, p, answers. split; [reflexivity|]. split; [rewrite Ho; cbn [out s2 set_clock]; rewrite Ho1; reflexivity|].
           destruct Hp as [_ Hlab [opening [data [tk [E [Fop [F2 [Kt _]]]]]]]].
           split; [injection Hlab as _ _ ->; reflexivity|].
           exists o, (sort_emsgs (a_out a)), opening, data, tk. split; [exact D|]. split; [rewrite Eo; apply sort_emsgs_perm|].
           split; [exact E|]. split; [eapply Forall_impl; [|exact Fop]; intros x [K _]; exact K|]. split; assumption.
      * match goal with |- out (emit s1 ?ch ?fl begin ?e ?msgs ?need) = _ \/ _ =>
          destruct (emit_spec s1 ch fl begin e msgs need) as [_ [_ [_ [_ [_ [_ [_ [_ [_ [_ [_ [_ Hcases]]]]]]]]]]]] end.
        -- apply I1.
        -- rewrite Hc1. destruct (Hc0 (h_tgt h)) as [_ Q]. apply Q. reflexivity.
        -- rewrite Hc1, map_length. specialize (Hw (h_tgt h)). destruct (Hc0 (h_tgt h)) as [Q _]. lia.
        -- destruct Hcases as [[Ho _]|[pk [Ho [Hp _]]]]; [left; rewrite Ho; exact Ho1|].
           right. exists pk, c, cname, spch, p, answers. split; [reflexivity|]. split; [rewrite Ho, Ho1; reflexivity|].
           destruct Hp as [_ Hlab [opening [data [tk [E [Fop [F2 [Kt _]]]]]]]].
           split; [injection Hlab as _ _ ->; reflexivity|].
           rewrite eta_emsg in F2.
           exists o, o, opening, data, tk. split; [exact D|]. split; [reflexivity|].
           split; [exact E|]. split; [eapply Forall_impl; [|exact Fop]; intros x [K _]; exact K|]. split; [exact Kt|]. rewrite <- Eo. exact F2.
  - left. reflexivity.
  - left. reflexivity.
  - left. destruct (handlers s); [|reflexivity]. destruct (wsh s); [|reflexivity]. destruct (Manager.g_hs (mg s)); reflexivity.
Qed.

(* ---------- every history: the output is the concatenation, in label order, of what each label contributed ---------- *)
Definition part_of (l : label) (part : list epack) : Prop :=
  part = [] \/ exists pk c cname spch p answers, l = Feed c cname spch p answers /\ part = [pk] /\ carries p spch pk.

Lemma run_trace retries : forall ls s, CInv s -> safe retries s ls ->
  exists parts, Forall2 part_of ls parts /\ out (fold_left (step retries) ls s) = (out s ++ List.concat parts)%list.
Proof.
  induction ls as [|l r IH]; intros s I S; cbn [fold_left].
  - exists []. split; [constructor|]. cbn. rewrite app_nil_r. reflexivity.
  - destruct S as [S1 S2]. destruct (IH (step retries s l) (step_CInv retries s l I S1) S2) as [parts [F E]].
    destruct (step_contrib retries s l I S1) as [Ho|[pk [c [cname [spch [p [ans [El [Ho Hc]]]]]]]]].
    + exists ([] :: parts). split; [constructor; [left; reflexivity|exact F]|]. rewrite E, Ho. reflexivity.
    + exists ([pk] :: parts). split; [constructor; [right; exists pk, c, cname, spch, p, ans; split; [exact El|split; [reflexivity|exact Hc]]|exact F]|].
      rewrite E, Ho. cbn [List.concat]. rewrite <- app_assoc. reflexivity.
Qed.

(* what a carried pack says of its data messages: each is the retimed copy of a distinct message of the fed pack *)
Lemma carries_data p spch pk : carries p spch pk ->
  forall d, In d (ep_msgs pk) -> e_kind d <> KTick ->
    exists m, In m (p_msgs p) /\ supported (m_kind m) = true
              /\ e_kind d = m_kind m /\ e_id d = m_id m /\ e_rows d = m_rows m /\ e_pname d = m_pname m.
Proof.
  intros [_ [o [o' [opening [data [tk [D [P [E [Fo [Kt F2]]]]]]]]]]] d Hin Hk.
  rewrite E in Hin. apply in_app_or in Hin. destruct Hin as [Hin|Hin]; [rewrite Forall_forall in Fo; specialize (Fo d Hin); congruence|].
  apply in_app_or in Hin. destruct Hin as [Hin|[<-|[]]]; [|congruence].
  assert (Hx : exists x, In x o' /\ same_but_time x d).
  { clear - F2 Hin. induction F2 as [|x y l l' R _ IH]; [destruct Hin|]. destruct Hin as [<-|Hin]; [exists x; split; [left; reflexivity|exact R]|].
    destruct (IH Hin) as [x' [A B]]. exists x'. split; [right; exact A|exact B]. }
  destruct Hx as [x [Hx [K1 [K2 [_ [_ [K5 [_ [_ K8]]]]]]]]].
  apply (Permutation_in _ P) in Hx. destruct (derived_in _ _ D x Hx) as [m [r [pid [Hm [-> S]]]]].
  exists m. split; [apply (Permutation_in _ (sort_perm (p_msgs p))); exact Hm|]. cbn [mk_emsg e_kind e_id e_rows e_pname] in *.
  repeat split; congruence.
Qed.

Lemma Forall2_same_ids o data : Forall2 same_but_time o data -> map e_id data = map e_id o.
Proof. induction 1 as [|x y l l' [_ [R _]] _ IH]; cbn; [reflexivity|]. rewrite IH, R. reflexivity. Qed.

Lemma count_id_perm id l l' : Permutation l l' -> count_id id l = count_id id l'.
Proof.
  unfold count_id. induction 1 as [|x l l' _ IH|x y l|l l' l'' _ IH1 _ IH2]; cbn [filter]; [reflexivity| | |congruence].
  - destruct (N.eqb id x); cbn [List.length]; congruence.
  - destruct (N.eqb id x), (N.eqb id y); reflexivity.
Qed.

(* none twice: a carried pack has no more messages of an id than the fed pack *)
Lemma carries_nodup p spch pk : carries p spch pk ->
  forall id, (count_id id (map e_id (filter nontick (ep_msgs pk))) <= count_id id (map m_id (p_msgs p)))%nat.
Proof.
  intros [_ [o [o' [opening [data [tk [D [P [E [Fo [Kt F2]]]]]]]]]]] id.
  rewrite E, !filter_app. rewrite (filter_none nontick opening).
  2:{ eapply Forall_impl; [|exact Fo]. intros x K. unfold nontick. rewrite K. reflexivity. }
  cbn [filter app]. replace (nontick tk) with false by (unfold nontick; rewrite Kt; reflexivity). rewrite app_nil_r.
  assert (Hle : (count_id id (map e_id (filter nontick data)) <= count_id id (map e_id data))%nat).
  { unfold count_id. clear. induction data as [|x l IH]; cbn [filter map]; [lia|]. destruct (nontick x); cbn [map filter]; destruct (N.eqb id (e_id x)); cbn [List.length]; lia. }
  rewrite (Forall2_same_ids _ _ F2) in Hle. rewrite (count_id_perm id _ _ (Permutation_map e_id P)) in Hle.
  pose proof (derived_count _ _ D id) as H2. rewrite (count_id_perm id _ _ (Permutation_map m_id (sort_perm (p_msgs p)))) in H2. lia.
Qed.
