(* C01 — property theorems only (model: Reader/Model.v, proofs: Reader/Proofs.v, C03/Proofs.v, C01/Proofs.v) *)
From Coq Require Import List String NArith ZArith Bool Sorting.Sorted Permutation.
From Verif Require Import Base.Util Reader.Model Reader.Script Reader.Proofs C03.Proofs C01.Check C01.Proofs Reader.Example.
From Verif Require C01.Complete.
Import ListNotations.
Local Open Scope string_scope.

(* Every history of the reader model (all catalogs, all label sequences, all partition answers; no clock within one pack of
   2^64-1): the output is the concatenation, in the order the labels were applied, of what each label contributed; only a fed
   pack contributes, and it contributes at most one pack, labelled with the source channel of the stream it was fed on, whose
   messages between the ticks are retimed copies of a subsequence of the fed pack in its sorted order. *)
Theorem C01_every_history : forall retries ls, safe retries init ls ->
  exists parts, Forall2 part_of ls parts /\ out (run retries ls) = List.concat parts.
Proof. intros retries ls S. destruct (run_trace retries ls init CInv_init S) as [parts [F E]]. exists parts. split; [exact F|exact E]. Qed.
Print Assumptions C01_every_history.

(* nothing invented, payload kept: every non-tick message of a contributed pack is the copy of a supported message of the
   pack that was read, with its kind, message id, row count and partition name *)
Theorem C01_no_invention : forall p spch pk, carries p spch pk ->
  forall d, In d (ep_msgs pk) -> e_kind d <> KTick ->
    exists m, In m (p_msgs p) /\ supported (m_kind m) = true
              /\ e_kind d = m_kind m /\ e_id d = m_id m /\ e_rows d = m_rows m /\ e_pname d = m_pname m.
Proof. exact carries_data. Qed.
Print Assumptions C01_no_invention.

(* none twice: a contributed pack has no more messages of an id than the pack that was read *)
Theorem C01_none_twice : forall p spch pk, carries p spch pk ->
  forall id, (count_id id (map e_id (filter nontick (ep_msgs pk))) <= count_id id (map m_id (p_msgs p)))%nat.
Proof. exact carries_nodup. Qed.
Print Assumptions C01_none_twice.

(* order: the pack is sorted by source time with deletes before the other kinds among equals (a permutation of what was read),
   and the copies keep that order *)
Theorem C01_source_order : forall l o, derived (sort_msgs l) o ->
  Permutation (sort_msgs l) l /\ StronglySorted ord (sort_msgs l)
  /\ StronglySorted (fun a b => (e_ts a < e_ts b)%N \/ (e_ts a = e_ts b /\ (e_kind b = KDelete -> e_kind a = KDelete))) o.
Proof. intros l o D. split; [apply sort_perm|]. split; [apply sort_sorted|]. apply (derived_sorted _ _ D). apply sort_sorted. Qed.
Print Assumptions C01_source_order.

(* the content phase appends, per message, nothing or one copy *)
Theorem C01_one_message : forall retries a m,
  match one_msg retries a m with COk a' => grows_by m (a_out a) (a_out a') | CErr _ => True end.
Proof. exact one_msg_out. Qed.
Print Assumptions C01_one_message.

(* completeness at the level of one message - sufficient conditions for delivery, for every accumulator state: an insert or delete
   of a live collection (not marked dropped, record held by the handler, not listed as dropped) into a partition the handler knows
   (and, for a delete, one that is neither dropped nor being dropped) is appended to the pack being built, re-addressed by the record;
   a collection's drop message is always handed on and takes the record out of the handler.  (no_mix: the pack being built is not a
   mix of forwarded and not-forwarded messages.)  Completeness over whole histories - that these conditions hold for every message
   the property speaks of - is decided by the checker stream_ok on traces. *)
Theorem C01_insert_delivered : forall retries a m r id,
  m_kind m = KInsert -> Complete.first_ok a m -> zmem (m_coll m) (dcolls (a_st a)) = false ->
  zlookup (h_recs (a_h a)) (m_coll m) = Some r -> t_dropped r = false ->
  alookup (heap_get (a_st a) (t_parts r)) (m_pname m) = Some id -> Complete.no_mix a r ->
  exists a', one_msg retries a m = COk a' /\ a_out a' = (a_out a ++ [mk_emsg m r id])%list.
Proof. exact Complete.insert_delivered. Qed.
Print Assumptions C01_insert_delivered.
Theorem C01_delete_delivered : forall retries a m r id,
  m_kind m = KDelete -> Complete.first_ok a m -> zmem (m_coll m) (dcolls (a_st a)) = false ->
  zlookup (h_recs (a_h a)) (m_coll m) = Some r -> t_dropped r = false ->
  zmem (m_part m) (dparts (a_st a)) = false -> zmem (m_part m) (t_dropping r) = false -> m_pname m <> ""%string ->
  alookup (heap_get (a_st a) (t_parts r)) (m_pname m) = Some id -> Complete.no_mix a r ->
  exists a', one_msg retries a m = COk a' /\ a_out a' = (a_out a ++ [mk_emsg m r id])%list.
Proof. exact Complete.delete_delivered. Qed.
Print Assumptions C01_delete_delivered.
Theorem C01_drop_collection_delivered : forall retries a m r,
  m_kind m = KDropColl -> Complete.first_ok a m -> zmem (m_coll m) (dcolls (a_st a)) = false ->
  zlookup (h_recs (a_h a)) (m_coll m) = Some r -> Complete.no_mix a r ->
  exists a', one_msg retries a m = COk a' /\ a_out a' = (a_out a ++ [mk_emsg m r (m_part m)])%list
             /\ zlookup (h_recs (a_h a')) (m_coll m) = None /\ a_need a' = true.
Proof. exact Complete.drop_collection_delivered. Qed.
Print Assumptions C01_drop_collection_delivered.

Example C01_nonvacuous :
  let s := run 3 ex_labels in
  map (fun pk => map e_id (filter nontick (ep_msgs pk))) (out s) = [[1; 2; 3]; []; [4]]%N
  /\ check_C01 {| c_retries := 3; c_labels := ex_labels; c_out := out s; c_events := events s; c_out_at := []; c_ev_at := [] |} = true.
Proof. vm_compute. repeat split. Qed.
Example C01_premise_met : safe 3 init ex_labels.
Proof. exact ex_safe. Qed.
