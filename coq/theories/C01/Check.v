(* C01 — checker over the implementation's output: per stream complete, duplicate-free, ordered, payload-exact *)
From Coq Require Import List String NArith ZArith Bool.
From Verif Require Import Base.Util Reader.Model Reader.Script.
Import ListNotations.
Local Open Scope string_scope.

Definition has_err (c : case) : bool := existsb (fun e => match e with EvErr _ => true | _ => false end) (c_events c).

(* may the message fed at label i be missing from the output?  Only if its object is dropped (by this shard's
   own stream earlier, or announced dropped), its collection was stopped, or the run reported an error *)
Definition may_miss (c : case) (cid : Z) (spch : string) (i : nat) (m : smsg) : bool :=
  has_err c
  || existsb (fun jm => let j := fst jm in let m' := snd jm in
                        (Nat.ltb j i || (Nat.eqb j i && (less m' m || negb (less m m'))))
                        && ((mkind_eqb (m_kind m') KDropColl)
                            || (mkind_eqb (m_kind m') KDropPart && Z.eqb (m_part m') (m_part m) && negb (N.eqb (m_id m') (m_id m)))))
             (fed (c_labels c) cid spch)
  || existsb (fun jl => Nat.ltb (fst jl) i && match snd jl with
                                               | MarkDropped cs => zmem cid cs
                                               | StopColl c' _ => Z.eqb c' cid
                                               (* the partition was registered as dropped in the source catalog (dropped on both sides, or about
                                                  to be dropped by the handler-generated drop message) *)
                                               | AddPart c' p' _ _ true => Z.eqb c' cid && Z.eqb p' (m_part m)
                                               | _ => false end)
             (combine (seq 0 (List.length (c_labels c))) (c_labels c))
  || String.eqb (m_pname m) "" && mkind_eqb (m_kind m) KDropPart.

Definition stream_ok (c : case) (cs : Z * string) : bool :=
  let cid := fst cs in let spch := snd cs in
  let f := fed (c_labels c) cid spch in
  let e := emitted (c_out c) cid spch in
  let find_fed (id : N) := find (fun jm => N.eqb (m_id (snd jm)) id && is_data (m_kind (snd jm))) f in
  (* nothing invented, kind / payload / partition name kept *)
  forallb (fun ie => match find_fed (e_id (snd ie)) with
                     | Some jm => mkind_eqb (m_kind (snd jm)) (e_kind (snd ie)) && Nat.eqb (m_rows (snd jm)) (e_rows (snd ie))
                                  && String.eqb (m_pname (snd jm)) (e_pname (snd ie))
                     | None => false end) e
  (* nothing twice *)
  && forallb (fun ie => Nat.eqb (List.length (filter (fun ie' => N.eqb (e_id (snd ie')) (e_id (snd ie))) e)) 1) e
  (* order: packs in feed order; inside a pack by source time, deletes before inserts among equals *)
  && (fix ordered (l : list (nat * emsg)) : bool :=
        match l with
        | a :: ((b :: _) as r) =>
            match find_fed (e_id (snd a)), find_fed (e_id (snd b)) with
            | Some ja, Some jb =>
                (Nat.ltb (fst ja) (fst jb)
                 || (Nat.eqb (fst ja) (fst jb)
                     && (N.ltb (m_ts (snd ja)) (m_ts (snd jb))
                         || (N.eqb (m_ts (snd ja)) (m_ts (snd jb))
                             && negb (mkind_eqb (m_kind (snd ja)) KInsert && mkind_eqb (m_kind (snd jb)) KDelete)))))
                && ordered r
            | _, _ => false
            end
        | _ => true
        end) e
  (* complete *)
  && forallb (fun jm => negb (is_data (m_kind (snd jm)))
                        || existsb (fun ie => N.eqb (e_id (snd ie)) (m_id (snd jm))) e
                        || may_miss c cid spch (fst jm) (snd jm)) f.

(* every labelled pack belongs to a stream of the script *)
Definition labels_ok (c : case) : bool :=
  forallb (fun p => existsb (fun cs => Z.eqb (fst cs) (ep_coll p) && String.eqb (snd cs) (ep_spch p)) (streams (c_labels c))) (c_out c).

Definition check_C01 (c : case) : bool := forallb (stream_ok c) (streams (c_labels c)) && labels_ok c.

(* more downstream than source channels (the mapping key is the downstream channel, a handler reads streams of several source
   channels): this mode is outside the reader model - no theorem applies and the model is not compared; the statement of the
   property is still checked on the observed trace (stream_ok, labels_ok) *)
Definition outside_model (c : case) : bool :=
  match c_labels c with Config ns nt :: _ => N.ltb ns nt && negb (N.eqb ns 0) | _ => false end.
Definition mismatches (l : list (N * case)) : list N := failing_ids (fun c => outside_model c || agrees c) l.
Definition checkfails (l : list (N * case)) : list N := failing_ids check_C01 l.
Definition knownclass (l : list (N * case)) : list (N * N) := [].
