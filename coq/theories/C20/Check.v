(* C20 — checker over the implementation's observations: one request per operation, identity fields and stamp *)
From Coq Require Import List String NArith Bool.
From Verif Require Import Base.Util Writer.Model.
From Verif Require C08.Check.
Import ListNotations.
Local Open Scope string_scope.
Local Open Scope list_scope.

Definition is_probe (k : ckind) : bool :=
  match k with KDescribeDatabase | KDescribeCollection | KDescribePartition => true | _ => false end.

(* expected request of an operation: kind, identity payload, partition list (None = not constrained here), stamp *)
Definition expected (rid : string) (o : wop) : option (ckind * list string * option (list string) * N) :=
  match o with
  | EvCreateColl _ _ ts pay => Some (KCreateCollection, if String.eqb rid "" then pay else pay ++ ["replicate.id=" +s+ rid], Some [], ts)
  | EvDropColl _ _ ts => Some (KDropCollection, [], Some [], ts)
  | EvCreatePart _ _ p ts => Some (KCreatePartition, [], Some [p], ts)
  | EvDropPart _ _ p ts => Some (KDropPartition, [], Some [p], ts)
  | MCreateDb _ st => Some (KCreateDatabase, [], Some [], st)
  | MDropDb _ st _ => Some (KDropDatabase, [], Some [], st)
  | MAlterDb _ st pay => Some (KAlterDatabase, pay, Some [], st)
  | MFlush _ _ st _ => Some (KFlush, [], None, st)
  | MCreateIndex _ _ st _ pay => Some (KCreateIndex, pay, Some [], st)
  | MDropIndex _ _ st _ pay => Some (KDropIndex, pay, Some [], st)
  | MAlterIndex _ _ st _ pay => Some (KAlterIndex, pay, Some [], st)
  | MLoadColl _ _ st _ pay => Some (KLoadCollection, pay, Some [], st)
  | MReleaseColl _ _ st _ => Some (KReleaseCollection, [], Some [], st)
  | MLoadParts _ _ _ st _ pay => Some (KLoadPartitions, pay, None, st)
  | MReleaseParts _ _ _ st _ => Some (KReleasePartitions, [], None, st)
  | MRbac k st pay => Some (k, pay, Some [], st)
  | PackEmpty | PackTwo | PackUnknown => None
  end.

(* [sub] is a subsequence of [l] (partition lists: dropped members removed, order kept) *)
Fixpoint subseq (sub l : list string) : bool :=
  match sub, l with
  | [], _ => true
  | _ :: _, [] => false
  | x :: sr, y :: lr => if String.eqb x y then subseq sr lr else subseq sub lr
  end.

Definition op_list (o : wop) : list string :=
  match o with
  | MLoadParts _ _ ps _ _ _ | MReleaseParts _ _ ps _ _ => ps
  | _ => []
  end.

Definition step_ok (rid : string) (o : wop) (ob : step_obs) : bool :=
  let main := filter (fun c => negb (is_probe (k_kind c))) (so_calls ob) in
  match expected rid o with
  | None => negb (so_ok ob) && match so_calls ob with [] => true | _ => false end   (* malformed pack: error, no call *)
  | Some (k, pay, names, ts) =>
      match main with
      | [] => true                                  (* skipped, or failed before the request was built *)
      | [c] =>
          ckind_eqb (k_kind c) k && strs_eqb (k_pay c) pay && N.eqb (k_ts c) ts && k_rep c
          && match names with
             | Some ns => strs_eqb (k_names c) ns
             | None => match o with
                       | MFlush _ colls _ _ => Nat.leb 1 (List.length (k_names c)) && Nat.leb (List.length (k_names c)) (List.length colls)
                       | _ => subseq (k_names c) (op_list o) && Nat.leb 1 (List.length (k_names c))
                       end
             end
      | _ => false                                  (* more than one request for one operation *)
      end
  end.

Fixpoint steps_ok (rid : string) (ops : list (wop * bool)) (obs : list step_obs) : bool :=
  match ops, obs with
  | [], [] => true
  | (o, _) :: r, ob :: obr => step_ok rid o ob && steps_ok rid r obr
  | _, _ => false
  end.

(* identity of the requests, and (shared with C08) partitions recorded dropped are not named in load/release requests *)
Definition check_C20 (c : case) : bool :=
  steps_ok (e_rid (c_env c)) (c_ops c) (c_obs c) && C08.Check.check_C08 c.

(* known finding class 1: the source schema uses a field attribute the SDK schema type cannot carry
   (nullable / default value / function output / functions); the harness marks those payload entries *)
Definition has_sdk_lost_attr (pay : list string) : bool :=
  existsb (fun s => match index 0 "nullable=true" s with Some _ => true | None => false end
                    || match index 0 "default=true" s with Some _ => true | None => false end
                    || match index 0 "fnout=true" s with Some _ => true | None => false end) pay.
Definition case_class (c : case) : N :=
  if existsb (fun of => match fst of with EvCreateColl _ _ _ pay => has_sdk_lost_attr pay | _ => false end) (c_ops c) then 1%N else 0%N.

Definition mismatches (l : list (N * case)) : list N := failing_ids agrees l.
Definition checkfails (l : list (N * case)) : list N := failing_ids check_C20 l.
Definition knownclass (l : list (N * case)) : list (N * N) :=
  flat_map (fun ic => match case_class (snd ic) with 0%N => [] | k => [(fst ic, k)] end) l.
Definition explain (c : case) := (run_obs (c_env c) (winit (c_dbs c) (c_colls c) (c_parts c)) (c_ops c), c_obs c).
