(* C20 — property theorems only.  Each is closed by [exact] of a lemma of C20/Proofs.v. *)
From Coq Require Import List String NArith Bool.
From Verif Require Import Base.Util Writer.Model C20.Check C20.Proofs.
From Verif Require C08.Check C08.Proofs.
Import ListNotations.
Local Open Scope string_scope.
Local Open Scope list_scope.

(* for every operation kind, table state, mapping and oracle: the non-probe calls made for one operation are
   none (skipped / failed before the request) or exactly one, of the corresponding kind, carrying the source's
   identity payload, the replication flag and the source operation's timestamp; partition lists are
   subsequences of the source list; a malformed pack is an error without any call *)
Theorem C20_one_request_identity : forall e s o f,
  let '(_, calls, ok) := handle e s o f in
  step_ok (e_rid e) o {| so_calls := calls; so_ok := ok |} = true.
Proof. exact one_request_identity. Qed.
Print Assumptions C20_one_request_identity.

Theorem C20_model_passes_checker : forall e s ops,
  steps_ok (e_rid e) ops (run_obs e s ops) = true.
Proof. exact model_passes_checker. Qed.
Print Assumptions C20_model_passes_checker.

(* an operation that is not skipped is turned into exactly one request: when the readiness test says Go the
   request is made (followed only by probes when the call fails) *)
Theorem C20_go_makes_the_request : forall e s o f db coll ts s1 c1 k pay names st,
  op_target o = Some (db, coll, ts) ->
  wait_obj e s db coll "" ts = (s1, c1, Go) ->
  expected (e_rid e) o = Some (k, pay, names, st) ->
  exists c rest, snd (fst (handle e s o f)) = c1 ++ c :: rest
                 /\ k_kind c = k /\ k_pay c = pay /\ k_ts c = st /\ k_rep c = true
                 /\ forallb (fun x => is_probe (k_kind x)) rest = true
                 /\ (f = false -> rest = [] /\ snd (handle e s o f) = true).
Proof. exact go_makes_the_request. Qed.
Print Assumptions C20_go_makes_the_request.

(* partitions already dropped are removed from load/release lists, the others are kept in order *)
Theorem C20_partition_list_filtered : forall e s db coll ps ts s1 c1 kept,
  filter_parts e s db coll ps ts = (s1, c1, Some kept) ->
  subseq kept ps = true
  /\ forall p, In p ps -> ~ In p kept -> exists s' , snd (wait_obj e s' db coll p ts) = Skip.
Proof. exact partition_list_filtered. Qed.
Print Assumptions C20_partition_list_filtered.

(* ... and (the statement shared with C08) a partition recorded dropped at or after the operation's time is never
   named in a load / release request: the second half of check_C20 accepts every model run *)
Theorem C20_dropped_partitions_not_named : forall e s ops,
  C08.Check.check_steps e s ops (run_obs e s ops) = true.
Proof. exact C08.Proofs.model_passes_checker. Qed.
Print Assumptions C20_dropped_partitions_not_named.

(* unsupported or ambiguous packs are rejected, nothing is applied, tables untouched *)
Theorem C20_malformed_rejected : forall e s f,
  handle e s PackEmpty f = (s, [], false) /\ handle e s PackTwo f = (s, [], false) /\ handle e s PackUnknown f = (s, [], false).
Proof. exact malformed_rejected. Qed.
Print Assumptions C20_malformed_rejected.

Example C20_nonvacuous :
  let e := {| e_milvus := true; e_rid := "r"; e_nm := []; e_dbs := []; e_colls := [("default", "c1")]; e_parts := [("default", ("c1", "p2"))] |} in
  let s := winit [] [] [("default_c1_p1_d", 10%N)] in
  map (fun c => (k_names c, k_ts c)) (filter (fun c => negb (is_probe (k_kind c))) (snd (fst (handle e s (MLoadParts "" "c1" ["p1"; "p2"] 7 9 ["replica=2"]) false))))
  = [(["p2"], 7%N)].
Proof. vm_compute. reflexivity. Qed.
