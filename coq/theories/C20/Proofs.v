(* C20 — proofs of the lemmas used by C20/Props.v *)
From Coq Require Import List String NArith Bool Lia PeanoNat.
From Verif Require Import Base.Util Writer.Model C20.Check.
Import ListNotations.
Local Open Scope string_scope.
Local Open Scope list_scope.

(* same definition as C08.Check.op_target (C08 is not imported: its [is_probe] would clash) *)
Definition op_target (o : wop) : option (string * string * N) :=
  match o with
  | EvCreateColl db _ ts _ | EvDropColl db _ ts => Some (db, ""%string, ts)
  | EvCreatePart db coll _ ts | EvDropPart db coll _ ts => Some (db, coll, ts)
  | MCreateIndex db coll _ ets _ | MDropIndex db coll _ ets _ | MAlterIndex db coll _ ets _
  | MLoadColl db coll _ ets _ | MReleaseColl db coll _ ets => Some (db, coll, ets)
  | _ => None
  end.

(* ---- small reflexivity facts ---- *)

Lemma ckind_refl : forall k, ckind_eqb k k = true.
Proof. destruct k; reflexivity. Qed.

Lemma strs_refl : forall l, strs_eqb l l = true.
Proof.
  unfold strs_eqb. induction l as [| a l IH]; [reflexivity |].
  cbn [list_eqb]. rewrite String.eqb_refl, IH. reflexivity.
Qed.

(* ---- subsequences ---- *)

Lemma subseq_both : forall l,
  (forall sub y, subseq sub l = true -> subseq sub (y :: l) = true)
  /\ (forall x sr, subseq (x :: sr) l = true -> subseq sr l = true).
Proof.
  induction l as [| z lr [IHA IHB]].
  - split.
    + intros sub y H. destruct sub; [reflexivity | discriminate H].
    + intros x sr H. discriminate H.
  - assert (B : forall x sr, subseq (x :: sr) (z :: lr) = true -> subseq sr (z :: lr) = true).
    { intros x sr H. cbn [subseq] in H.
      destruct (String.eqb x z).
      - apply IHA. exact H.
      - apply IHA. apply (IHB x). exact H. }
    split; [| exact B].
    intros sub y H. destruct sub as [| x sr]; [reflexivity |].
    change (subseq (x :: sr) (y :: z :: lr)) with (if String.eqb x y then subseq sr (z :: lr) else subseq (x :: sr) (z :: lr)).
    destruct (String.eqb x y).
    + apply (B x). exact H.
    + exact H.
Qed.

Lemma subseq_cons_r : forall l sub y, subseq sub l = true -> subseq sub (y :: l) = true.
Proof. intros l. exact (proj1 (subseq_both l)). Qed.

(* ---- every call made by the readiness cascade is a probe ---- *)

Definition allp (l : list call) : bool := forallb (fun x => is_probe (k_kind x)) l.

Lemma allp_app : forall l1 l2, allp (l1 ++ l2) = allp l1 && allp l2.
Proof. intros. unfold allp. apply forallb_app. Qed.

Lemma filter_allp : forall l, allp l = true -> filter (fun c => negb (is_probe (k_kind c))) l = [].
Proof.
  induction l as [| a l IH]; intros H; [reflexivity |].
  cbn [allp forallb] in H. apply andb_prop in H. destruct H as [H1 H2].
  cbn [filter]. rewrite H1. cbn [negb]. apply IH. exact H2.
Qed.

Lemma filter_main : forall c1 cl c2, allp c1 = true -> allp c2 = true -> is_probe (k_kind cl) = false ->
  filter (fun c => negb (is_probe (k_kind c))) (c1 ++ [cl] ++ c2) = [cl].
Proof.
  intros c1 cl c2 H1 H2 H3.
  rewrite !filter_app, (filter_allp _ H1), (filter_allp _ H2).
  cbn [filter]. rewrite H3. reflexivity.
Qed.

Lemma filter_main0 : forall c1 cl, allp c1 = true -> is_probe (k_kind cl) = false ->
  filter (fun c => negb (is_probe (k_kind c))) (c1 ++ [cl]) = [cl].
Proof.
  intros c1 cl H1 H3.
  rewrite filter_app, (filter_allp _ H1).
  cbn [filter]. rewrite H3. reflexivity.
Qed.

Lemma wait_db_allp : forall e s db ts coll, allp (snd (fst (wait_db e s db ts coll))) = true.
Proof.
  intros. unfold wait_db.
  destruct (String.eqb db "" || String.eqb db "default"); [reflexivity |].
  destruct (decide _ _ _ _ _); try reflexivity.
  cbv zeta. destruct (mem_str _ _); reflexivity.
Qed.

Lemma wait_coll_allp : forall e s coll db ts, allp (snd (fst (wait_coll e s coll db ts))) = true.
Proof.
  intros. unfold wait_coll.
  destruct (decide _ _ _ _ _); try reflexivity.
  cbv zeta. destruct (map_names (e_nm e) db coll) as [tdb tcoll].
  destruct (existsb _ _); reflexivity.
Qed.

Lemma wait_part_allp : forall e s coll part db ts, allp (snd (fst (wait_part e s coll part db ts))) = true.
Proof.
  intros. unfold wait_part.
  destruct (decide _ _ _ _ _); try reflexivity.
  cbv zeta. destruct (map_names (e_nm e) db coll) as [tdb tcoll].
  destruct (existsb _ _); reflexivity.
Qed.

Lemma wait_obj_allp : forall e s db coll part ts, allp (snd (fst (wait_obj e s db coll part ts))) = true.
Proof.
  intros. unfold wait_obj.
  destruct (negb (e_milvus e)); [reflexivity |].
  assert (H1 : allp (snd (fst (if String.eqb db "" then (s, @nil call, Created) else wait_db e s db ts coll))) = true).
  { destruct (String.eqb db ""); [reflexivity | apply wait_db_allp]. }
  destruct (if String.eqb db "" then (s, @nil call, Created) else wait_db e s db ts coll) as [[s1 c1] r1].
  cbn [fst snd] in H1.
  destruct r1; try exact H1.
  assert (H2 : allp (snd (fst (if String.eqb coll "" then (s1, @nil call, Created) else wait_coll e s1 coll db ts))) = true).
  { destruct (String.eqb coll ""); [reflexivity | apply wait_coll_allp]. }
  destruct (if String.eqb coll "" then (s1, @nil call, Created) else wait_coll e s1 coll db ts) as [[s2 c2] r2].
  cbn [fst snd] in H2.
  destruct r2; cbn [fst snd]; try (rewrite allp_app, H1, H2; reflexivity).
  assert (H3 : allp (snd (fst (if String.eqb coll "" || String.eqb part "" then (s2, @nil call, Created)
                                else wait_part e s2 coll part db ts))) = true).
  { destruct (String.eqb coll "" || String.eqb part ""); [reflexivity | apply wait_part_allp]. }
  destruct (if String.eqb coll "" || String.eqb part "" then (s2, @nil call, Created)
            else wait_part e s2 coll part db ts) as [[s3 c3] r3].
  cbn [fst snd] in *.
  rewrite !allp_app, H1, H2, H3. reflexivity.
Qed.

Lemma after_fail_wo : forall e s f db coll part ts,
  allp (snd (fst (after_fail e s f (fun s0 => wait_obj e s0 db coll part ts)))) = true
  /\ (f = false -> after_fail e s f (fun s0 => wait_obj e s0 db coll part ts) = (s, [], true)).
Proof.
  intros. unfold after_fail. destruct f.
  - pose proof (wait_obj_allp e s db coll part ts) as Hp.
    destruct (wait_obj e s db coll part ts) as [[s1 c1] r]. cbn [fst snd] in *.
    split; [exact Hp | discriminate].
  - split; reflexivity.
Qed.

Lemma filter_parts_allp : forall e db coll ts ps s, allp (snd (fst (filter_parts e s db coll ps ts))) = true.
Proof.
  intros e db coll ts. induction ps as [| p r IH]; intros s; [reflexivity |].
  cbn [filter_parts].
  pose proof (wait_obj_allp e s db coll p ts) as Hp.
  destruct (wait_obj e s db coll p ts) as [[s1 c1] w]. cbn [fst snd] in Hp.
  destruct w.
  - specialize (IH s1). destruct (filter_parts e s1 db coll r ts) as [[s2 c2] o]. cbn [fst snd] in *.
    rewrite allp_app, Hp, IH. reflexivity.
  - specialize (IH s1). destruct (filter_parts e s1 db coll r ts) as [[s2 c2] o]. cbn [fst snd] in *.
    rewrite allp_app, Hp, IH. reflexivity.
  - exact Hp.
Qed.

Lemma recheck_all_allp : forall e db coll ts bycoll ps s, allp (snd (fst (recheck_all e s db coll ps ts bycoll))) = true.
Proof.
  intros e db coll ts bycoll. induction ps as [| p r IH]; intros s; [reflexivity |].
  cbn [recheck_all].
  assert (Hp : allp (snd (fst (if bycoll then wait_obj e s db p "" ts else wait_obj e s db coll p ts))) = true).
  { destruct bycoll; apply wait_obj_allp. }
  destruct (if bycoll then wait_obj e s db p "" ts else wait_obj e s db coll p ts) as [[s1 c1] w].
  cbn [fst snd] in Hp.
  destruct w; try exact Hp.
  specialize (IH s1). destruct (recheck_all e s1 db coll r ts bycoll) as [[s2 c2] b]. cbn [fst snd] in *.
  rewrite allp_app, Hp, IH. reflexivity.
Qed.

Lemma flush_names_allp : forall e db ts cs s mdb, allp (snd (fst (flush_names e s db cs ts mdb))) = true.
Proof.
  intros e db ts. induction cs as [| c r IH]; intros s mdb; [reflexivity |].
  cbn [flush_names].
  pose proof (wait_obj_allp e s db c "" ts) as Hp.
  destruct (wait_obj e s db c "" ts) as [[s1 c1] w]. cbn [fst snd] in Hp.
  destruct w.
  - destruct (map_names (e_nm e) db c) as [tdb tc].
    destruct (negb (String.eqb mdb "") && negb (String.eqb mdb tdb)); [exact Hp |].
    specialize (IH s1 tdb). destruct (flush_names e s1 db r ts tdb) as [[s2 c2] o]. cbn [fst snd] in *.
    rewrite allp_app, Hp, IH. reflexivity.
  - specialize (IH s1 mdb). destruct (flush_names e s1 db r ts mdb) as [[s2 c2] o]. cbn [fst snd] in *.
    rewrite allp_app, Hp, IH. reflexivity.
  - exact Hp.
Qed.

Lemma flush_names_len : forall e db ts cs s mdb s1 c1 kept mapped m,
  flush_names e s db cs ts mdb = (s1, c1, Some (kept, mapped, m)) ->
  List.length kept = List.length mapped /\ (List.length kept <= List.length cs)%nat.
Proof.
  intros e db ts. induction cs as [| c r IH]; intros s mdb s1 c1 kept mapped m H.
  - cbn [flush_names] in H. inversion H; subst. split; [reflexivity | apply Nat.le_refl].
  - cbn [flush_names] in H.
    destruct (wait_obj e s db c "" ts) as [[sa ca] w].
    destruct w.
    + destruct (map_names (e_nm e) db c) as [tdb tc].
      destruct (negb (String.eqb mdb "") && negb (String.eqb mdb tdb)); [discriminate H |].
      destruct (flush_names e sa db r ts tdb) as [[s2 c2] o] eqn:Hf.
      destruct o as [[[k' m'] d'] |]; cbn in H; [| discriminate H].
      inversion H; subst.
      destruct (IH _ _ _ _ _ _ _ Hf) as [I1 I2].
      cbn [List.length]. split; lia.
    + destruct (flush_names e sa db r ts mdb) as [[s2 c2] o] eqn:Hf.
      inversion H; subst.
      destruct (IH _ _ _ _ _ _ _ Hf) as [I1 I2].
      cbn [List.length]. split; lia.
    + discriminate H.
Qed.

(* ---- the partition filter ---- *)

Lemma partition_list_filtered : forall e s db coll ps ts s1 c1 kept,
  filter_parts e s db coll ps ts = (s1, c1, Some kept) ->
  subseq kept ps = true
  /\ forall p, In p ps -> ~ In p kept -> exists s' , snd (wait_obj e s' db coll p ts) = Skip.
Proof.
  intros e s db coll ps. revert s.
  induction ps as [| a r IH]; intros s ts s1 c1 kept H.
  - cbn [filter_parts] in H. inversion H; subst. split; [reflexivity | intros p []].
  - cbn [filter_parts] in H.
    destruct (wait_obj e s db coll a ts) as [[sa ca] w] eqn:Hw.
    destruct w.
    + destruct (filter_parts e sa db coll r ts) as [[s2 c2] o] eqn:Hf.
      destruct o as [k' |]; cbn in H; [| discriminate H].
      inversion H; subst.
      destruct (IH _ _ _ _ _ Hf) as [I1 I2]. split.
      * cbn [subseq]. rewrite String.eqb_refl. exact I1.
      * intros p [-> | Hin] Hn.
        { exfalso. apply Hn. left. reflexivity. }
        apply I2; [exact Hin |]. intros Hk. apply Hn. right. exact Hk.
    + destruct (filter_parts e sa db coll r ts) as [[s2 c2] o] eqn:Hf.
      inversion H; subst.
      destruct (IH _ _ _ _ _ Hf) as [I1 I2]. split.
      * apply subseq_cons_r. exact I1.
      * intros p [-> | Hin] Hn.
        { exists s. rewrite Hw. reflexivity. }
        apply I2; assumption.
    + discriminate H.
Qed.

(* ---- one request per operation ---- *)

Ltac conj_leaves :=
  cbn [mk k_kind k_pay k_ts k_rep k_names op_list];
  rewrite ?strs_refl, ?N.eqb_refl, ?ckind_refl;
  repeat match goal with H : _ = true |- _ => rewrite H end;
  cbn; reflexivity.

(* destruct the next top-level readiness test, remembering that its calls are probes *)
Ltac wo :=
  match goal with
  | |- context [wait_obj ?e ?s0 ?a ?b ?p ?t] =>
      let Hp := fresh "Hp" in
      pose proof (wait_obj_allp e s0 a b p t) as Hp;
      destruct (wait_obj e s0 a b p t) as [[?s ?c] ?w]; cbn [fst snd] in Hp; cbv beta iota
  end.

Ltac af :=
  match goal with
  | |- context [after_fail ?e ?s1 ?f (fun s0 => wait_obj ?e s0 ?a ?b ?p ?t)] =>
      let Hp := fresh "Hq" in
      pose proof (proj1 (after_fail_wo e s1 f a b p t)) as Hp;
      destruct (after_fail e s1 f (fun s0 => wait_obj e s0 a b p t)) as [[?s ?c] ?ok]; cbn [fst snd] in Hp; cbv beta iota
  end.

Ltac skipped := unfold step_ok; cbn [expected so_calls so_ok]; rewrite filter_allp by assumption; reflexivity.

Ltac one_main :=
  unfold step_ok; cbn [expected so_calls so_ok];
  first [ rewrite filter_main by (first [assumption | reflexivity])
        | rewrite filter_main0 by (first [assumption | reflexivity]) ];
  cbv beta iota; conj_leaves.

Lemma one_request_identity : forall e s o f,
  let '(_, calls, ok) := handle e s o f in
  step_ok (e_rid e) o {| so_calls := calls; so_ok := ok |} = true.
Proof.
  intros e s o f.
  destruct o; cbn [handle]; cbv zeta.
  - (* EvCreateColl *)
    wo. destruct w; [| skipped | skipped].
    destruct (map_names (e_nm e) db coll) as [tdb tc]. one_main.
  - (* EvDropColl *)
    wo. destruct w; [| skipped | skipped].
    destruct (map_names (e_nm e) db coll) as [tdb tc].
    destruct f; one_main.
  - (* EvCreatePart *)
    wo. destruct w; [| skipped | skipped].
    destruct (map_names (e_nm e) db coll) as [tdb tc].
    af. one_main.
  - (* EvDropPart *)
    wo. destruct w; [| skipped | skipped].
    destruct (map_names (e_nm e) db coll) as [tdb tc].
    af. destruct ok; one_main.
  - (* MCreateDb *) unfold step_ok; cbn; rewrite N.eqb_refl; reflexivity.
  - (* MDropDb *) destruct f; unfold step_ok; cbn; rewrite N.eqb_refl; reflexivity.
  - (* MAlterDb *) unfold step_ok; cbn. change (list_eqb String.eqb pay pay) with (strs_eqb pay pay).
    rewrite strs_refl, N.eqb_refl; reflexivity.
  - (* MFlush *)
    pose proof (flush_names_allp e db ets colls s "") as Hp.
    destruct (flush_names e s db colls ets "") as [[s1 c1] o] eqn:Hf. cbn [fst snd] in Hp.
    destruct o as [[[kept mapped] mdb] |]; [| skipped].
    destruct (flush_names_len _ _ _ _ _ _ _ _ _ _ _ Hf) as [L1 L2].
    destruct kept as [| k0 kr]; [skipped |].
    cbn [List.length] in L1, L2.
    assert (La : Nat.leb 1 (List.length mapped) = true) by (apply Nat.leb_le; lia).
    assert (Lb : Nat.leb (List.length mapped) (List.length colls) = true) by (apply Nat.leb_le; lia).
    destruct f.
    + pose proof (recheck_all_allp e db "" ets true (k0 :: kr) s1) as Hr.
      destruct (recheck_all e s1 db "" (k0 :: kr) ets true) as [[s2 c2] ok]. cbn [fst snd] in Hr.
      one_main.
    + one_main.
  - (* MCreateIndex *)
    wo. destruct w; [| skipped | skipped].
    destruct (map_names (e_nm e) db coll) as [tdb tc].
    af. one_main.
  - (* MDropIndex *)
    wo. destruct w; [| skipped | skipped].
    destruct (map_names (e_nm e) db coll) as [tdb tc].
    af. one_main.
  - (* MAlterIndex *)
    wo. destruct w; [| skipped | skipped].
    destruct (map_names (e_nm e) db coll) as [tdb tc]. one_main.
  - (* MLoadColl *)
    wo. destruct w; [| skipped | skipped].
    destruct (map_names (e_nm e) db coll) as [tdb tc].
    af. one_main.
  - (* MReleaseColl *)
    wo. destruct w; [| skipped | skipped].
    destruct (map_names (e_nm e) db coll) as [tdb tc].
    af. one_main.
  - (* MLoadParts *)
    pose proof (filter_parts_allp e db coll ets parts s) as Hp.
    destruct (filter_parts e s db coll parts ets) as [[s1 c1] o] eqn:Hf. cbn [fst snd] in Hp.
    destruct o as [kept |]; [| skipped].
    destruct (partition_list_filtered _ _ _ _ _ _ _ _ _ Hf) as [Hs _].
    destruct kept as [| k0 kr]; [skipped |].
    destruct (map_names (e_nm e) db coll) as [tdb tc].
    destruct f.
    + pose proof (recheck_all_allp e db coll ets false (k0 :: kr) s1) as Hr.
      destruct (recheck_all e s1 db coll (k0 :: kr) ets false) as [[s2 c2] ok]. cbn [fst snd] in Hr.
      one_main.
    + one_main.
  - (* MReleaseParts *)
    pose proof (filter_parts_allp e db coll ets parts s) as Hp.
    destruct (filter_parts e s db coll parts ets) as [[s1 c1] o] eqn:Hf. cbn [fst snd] in Hp.
    destruct o as [kept |]; [| skipped].
    destruct (partition_list_filtered _ _ _ _ _ _ _ _ _ Hf) as [Hs _].
    destruct kept as [| k0 kr]; [skipped |].
    destruct (map_names (e_nm e) db coll) as [tdb tc].
    destruct f.
    + pose proof (recheck_all_allp e db coll ets false (k0 :: kr) s1) as Hr.
      destruct (recheck_all e s1 db coll (k0 :: kr) ets false) as [[s2 c2] ok]. cbn [fst snd] in Hr.
      one_main.
    + one_main.
  - (* MRbac *)
    unfold step_ok. cbn [expected so_calls so_ok filter mk k_kind].
    destruct (is_probe k); cbn [negb]; [reflexivity |].
    cbv beta iota. conj_leaves.
  - reflexivity.
  - reflexivity.
  - reflexivity.
Qed.

Lemma model_passes_checker : forall e s ops,
  steps_ok (e_rid e) ops (run_obs e s ops) = true.
Proof.
  intros e s ops. revert s.
  induction ops as [| [o f] r IH]; intros s; [reflexivity |].
  cbn [run_obs].
  pose proof (one_request_identity e s o f) as H.
  destruct (handle e s o f) as [[s1 cs] ok].
  cbn [steps_ok]. rewrite H, IH. reflexivity.
Qed.

Ltac afg :=
  match goal with
  | |- context [after_fail ?e ?s1 ?f (fun s0 => wait_obj ?e s0 ?a ?b ?p ?t)] =>
      destruct (after_fail_wo e s1 f a b p t) as [Hq Hn];
      destruct (after_fail e s1 f (fun s0 => wait_obj e s0 a b p t)) as [[s2 c2] ok]; cbn [fst snd] in Hq
  end.

Lemma go_makes_the_request : forall e s o f db coll ts s1 c1 k pay names st,
  op_target o = Some (db, coll, ts) ->
  wait_obj e s db coll "" ts = (s1, c1, Go) ->
  expected (e_rid e) o = Some (k, pay, names, st) ->
  exists c rest, snd (fst (handle e s o f)) = c1 ++ c :: rest
                 /\ k_kind c = k /\ k_pay c = pay /\ k_ts c = st /\ k_rep c = true
                 /\ forallb (fun x => is_probe (k_kind x)) rest = true
                 /\ (f = false -> rest = [] /\ snd (handle e s o f) = true).
Proof.
  intros e s o f db coll ts s1 c1 k pay names st Ht Hw He.
  destruct o; cbn [op_target] in Ht; try discriminate Ht;
    injection Ht as <- <- <-; cbn [expected] in He; injection He as <- <- <- <-;
    cbn [handle]; cbv zeta; rewrite Hw; cbv beta iota;
    match goal with |- context [map_names ?n ?a ?b] => destruct (map_names n a b) as [tdb tc] end.
  - (* EvCreateColl *)
    eexists. exists []. cbn [fst snd mk k_kind k_pay k_ts k_rep forallb].
    repeat split. subst f. reflexivity.
  - (* EvDropColl *)
    destruct f; eexists; exists []; cbn [fst snd mk k_kind k_pay k_ts k_rep forallb];
      repeat split; try discriminate; try reflexivity.
  - (* EvCreatePart *)
    afg.
    eexists. exists c2. cbn [fst snd mk k_kind k_pay k_ts k_rep].
    repeat split; try exact Hq;
      match goal with H : f = false |- _ => specialize (Hn H) end; inversion Hn; reflexivity.
  - (* EvDropPart *)
    afg.
    eexists. exists c2.
    destruct ok; cbn [fst snd mk k_kind k_pay k_ts k_rep];
      repeat split; try exact Hq;
      match goal with H : f = false |- _ => specialize (Hn H) end; inversion Hn; reflexivity.
  - (* MCreateIndex *)
    afg.
    eexists. exists c2. cbn [fst snd mk k_kind k_pay k_ts k_rep].
    repeat split; try exact Hq;
      match goal with H : f = false |- _ => specialize (Hn H) end; inversion Hn; reflexivity.
  - (* MDropIndex *)
    afg.
    eexists. exists c2. cbn [fst snd mk k_kind k_pay k_ts k_rep].
    repeat split; try exact Hq;
      match goal with H : f = false |- _ => specialize (Hn H) end; inversion Hn; reflexivity.
  - (* MAlterIndex *)
    eexists. exists []. cbn [fst snd mk k_kind k_pay k_ts k_rep forallb].
    repeat split. subst f. reflexivity.
  - (* MLoadColl *)
    afg.
    eexists. exists c2. cbn [fst snd mk k_kind k_pay k_ts k_rep].
    repeat split; try exact Hq;
      match goal with H : f = false |- _ => specialize (Hn H) end; inversion Hn; reflexivity.
  - (* MReleaseColl *)
    afg.
    eexists. exists c2. cbn [fst snd mk k_kind k_pay k_ts k_rep].
    repeat split; try exact Hq;
      match goal with H : f = false |- _ => specialize (Hn H) end; inversion Hn; reflexivity.
Qed.

Lemma malformed_rejected : forall e s f,
  handle e s PackEmpty f = (s, [], false) /\ handle e s PackTwo f = (s, [], false) /\ handle e s PackUnknown f = (s, [], false).
Proof. intros. repeat split. Qed.
