(* C19 — proofs about the model of the HTTP handler *)
From Coq Require Import List String Ascii NArith ZArith Bool Lia.
From Verif Require Import Base.Util C19.Model.
From Verif Require C10.Model C10.Proofs.
Import ListNotations.
Local Open Scope string_scope.

Module P := C10.Proofs.

(* ---------- totality ---------- *)
Lemma respond_codes c s post b :
  let code := snd (respond c s post b) in
  (post = false -> code = 405%N) /\ (post = true -> code = 200%N \/ code = 400%N \/ code = 500%N).
Proof.
  unfold respond. destruct post; cbn [negb]; split; intros H; try discriminate; try reflexivity.
  destruct b; cbn; auto.
  destruct (handle c s q) as [s' code]. cbn. destruct code as [|p]; [auto|].
  destruct p; auto.
Qed.

(* ---------- B.step never accepts a create that carries a fault ---------- *)
Lemma bstep_fault_code s q f : f <> B.FNone -> snd (B.step s (B.Create q f)) = 0%N ->
  existsb (fun t => String.eqb (B.t_id t) (B.q_id q)) (B.tasks s) = true.
Proof.
  intros Hf. cbn. destruct (existsb _ (B.tasks s)); [reflexivity|].
  destruct (B.check_dup _ _ q) as [[ex bk']|]; [|discriminate]. destruct f; [congruence|discriminate..].
Qed.

Lemma to_c10_id r : B.q_id (to_c10 r) = r_id r.
Proof. unfold to_c10. destruct (spec_of r) as [[f n] i]. reflexivity. Qed.

(* ---------- invalid requests are rejected ---------- *)
Theorem invalid_create_rejected c s r :
  (validate c r <> None \/ (pos_result r <> None /\ is_task s (r_id r) = false)) ->
  snd (respond c s true (BReq (RCreate r))) <> 200%N.
Proof.
  intros H. unfold respond; cbn [negb handle]. unfold create.
  destruct (validate c r) as [e|] eqn:V.
  - cbn. unfold validate in V.
    repeat match type of V with (if ?b then _ else _) = _ => destruct b; [injection V as <-; discriminate|] end.
    discriminate.
  - destruct H as [H|[H1 H2]]; [congruence|]. rewrite H2.
    destruct (pos_result r) as [e|] eqn:PR; [|congruence].
    set (f := if Nat.leb (max_tasks c) (List.length (B.tasks (bk s))) then B.FLimit else B.FPut).
    assert (Hf : f <> B.FNone) by (unfold f; destruct (Nat.leb _ _); discriminate).
    destruct (B.step (bk s) (B.Create (to_c10 r) f)) as [b' code] eqn:St.
    destruct code as [|p].
    + exfalso. pose proof (bstep_fault_code (bk s) (to_c10 r) f Hf) as X. rewrite St in X. specialize (X eq_refl).
      rewrite to_c10_id in X. unfold is_task in H2. congruence.
    + destruct p; cbn; try discriminate.
      * destruct (Nat.leb _ _); [discriminate|]. destruct e as [|p']; [|destruct p'; discriminate].
        (* pos_result never yields 0 *)
        exfalso. unfold pos_result in PR. destruct (spec_of r) as [[? ?] i].
        repeat match type of PR with (if ?b then _ else _) = _ => destruct b; [discriminate|] end. discriminate.
      * destruct (Nat.leb _ _); [discriminate|]. destruct e as [|p']; [|destruct p'; discriminate].
        exfalso. unfold pos_result in PR. destruct (spec_of r) as [[? ?] i].
        repeat match type of PR with (if ?b then _ else _) = _ => destruct b; [discriminate|] end. discriminate.
Qed.

Theorem malformed_rejected c s b : match b with BReq _ => False | _ => True end ->
  snd (respond c s true b) <> 200%N /\ fst (respond c s true b) = s.
Proof. destruct b; cbn; intros H; try tauto; split; try reflexivity; discriminate. Qed.

(* ---------- rejects are side-effect free ---------- *)
Record equiv (a b : st) : Prop := {
  eq_tasks : B.tasks (bk a) = B.tasks (bk b);
  eq_ckpts : ckpts a = ckpts b;
  eq_running : running a = running b;
  eq_books : forall tg, B.b_data (B.book_of (bk a) tg) = B.b_data (B.book_of (bk b) tg)
                        /\ B.b_extra (B.book_of (bk a) tg) = B.b_extra (B.book_of (bk b) tg)
                        /\ forall x, B.count_name x (B.b_excl (B.book_of (bk a) tg)) = B.count_name x (B.b_excl (B.book_of (bk b) tg));
}.
Lemma equiv_refl s : equiv s s.
Proof. constructor; try reflexivity. intros; repeat split; reflexivity. Qed.

Lemma bstep_cases s q f :
  let r := B.step s (B.Create q f) in
  (snd r = 0 \/ (snd r = 1 /\ fst r = s) \/ (snd r = 2 /\ f <> B.FNone))%N.
Proof.
  cbn. destruct (existsb _ (B.tasks s)); [left; reflexivity|].
  destruct (B.check_dup _ _ q) as [[ex bk']|]; [|right; left; split; reflexivity].
  destruct f; [left; reflexivity|right; right; split; [reflexivity|discriminate]..].
Qed.

Lemma create_frame c s r : snd (create c s r) <> 0%N -> equiv (fst (create c s r)) s.
Proof.
  unfold create. destruct (validate c r); [intros _; apply equiv_refl|].
  destruct (is_task s (r_id r)) eqn:IT; [cbn; congruence|].
  set (limit := Nat.leb (max_tasks c) (List.length (B.tasks (bk s)))).
  set (f := if limit then B.FLimit else match pos_result r with Some _ => B.FPut | None => B.FNone end).
  pose proof (bstep_cases (bk s) (to_c10 r) f) as Cs. cbn zeta in Cs.
  pose proof (P.failed_create_restores (bk s) (to_c10 r) f) as FR.
  destruct (B.step (bk s) (B.Create (to_c10 r) f)) as [b' code] eqn:St. cbn [fst snd] in *.
  destruct Cs as [->|[[-> ->]|[-> Hf]]].
  - cbn; congruence.
  - intros _; apply equiv_refl.
  - intros _. specialize (FR Hf eq_refl). cbn zeta in FR. destruct FR as [T [O [D [E X]]]].
    constructor; cbn [bk ckpts running fst]; try reflexivity; [exact T|].
    intros tg. destruct (String.eqb_spec tg (B.q_target (to_c10 r))) as [->|N].
    + repeat split; assumption.
    + rewrite (O tg N). repeat split; reflexivity.
Qed.

Theorem reject_frame c s post b : snd (respond c s post b) <> 200%N -> equiv (fst (respond c s post b)) s.
Proof.
  unfold respond. destruct post; cbn [negb]; [|intros _; apply equiv_refl].
  destruct b; try (intros _; apply equiv_refl).
  destruct (handle c s q) as [s' code] eqn:H. cbn [fst snd].
  intros Hc. assert (Hcode : code <> 0%N) by (intros ->; apply Hc; reflexivity).
  destruct q; cbn [handle] in H.
  - pose proof (create_frame c s r) as F. rewrite H in F. apply F; exact Hcode.
  - destruct (is_task s id); inversion H; subst; [congruence|apply equiv_refl].
  - destruct (negb (is_task s id)); [inversion H; subst; apply equiv_refl|].
    destruct (negb (is_running s id)); inversion H; subst; [apply equiv_refl|congruence].
  - destruct (negb (is_task s id)); [inversion H; subst; apply equiv_refl|].
    destruct (is_running s id); inversion H; subst; [apply equiv_refl|congruence].
  - destruct (str_empty id); [inversion H; subst; apply equiv_refl|].
    destruct (is_task s id); inversion H; subst; apply equiv_refl.
  - inversion H; subst; apply equiv_refl.
  - inversion H; subst; apply equiv_refl.
  - inversion H; subst; apply equiv_refl.
Qed.

(* the invalid classes named by the statement, as predicates on the request *)
Definition only (i : cinfo) (r : creq) : Prop := (r_cinfos r = [i] /\ r_dbc r = []) \/ (exists db, r_cinfos r = [] /\ r_dbc r = [(db, [i])]).

Lemma validate_specs_name c r i : only i r -> validate_specs c r = true -> check_infos c [i] = true.
Proof.
  unfold validate_specs. intros [[-> ->]|[db [-> ->]]]; [tauto|].
  intros H. apply andb_prop in H; tauto.
Qed.

Theorem bad_names_rejected c r i : only i r ->
  (ci_name i = "" \/ has_dot (ci_name i) = true \/ String.length (ci_name i) > max_name c
   \/ (ci_name i = "*" /\ ci_pos i <> []) \/ (exists p, In p (ci_pos i) /\ ch_virtual (fst p) = false)) ->
  validate c r <> None.
Proof.
  intros O H. unfold validate.
  destruct (negb (validate_front c r)); [discriminate|].
  destruct (validate_specs c r) eqn:V; [|discriminate]. exfalso.
  pose proof (validate_specs_name c r i O V) as CI. cbn [check_infos] in CI.
  apply andb_prop in CI; destruct CI as [CI C5]. apply andb_prop in CI; destruct CI as [CI C4].
  apply andb_prop in CI; destruct CI as [CI C3]. apply andb_prop in CI; destruct CI as [C1 C2].
  destruct H as [E|[E|[E|[[E1 E2]|[p [Hp Hv]]]]]].
  - rewrite E in C1; discriminate.
  - rewrite E in C2; discriminate.
  - apply Nat.leb_le in C4. lia.
  - rewrite E1 in C3. destruct (ci_pos i); [congruence|discriminate].
  - rewrite forallb_forall in C5. specialize (C5 p Hp). congruence.
Qed.

Theorem bad_limits_rejected c r :
  ((r_period r < 0)%Z \/ (r_size r < 0)%Z
   \/ (negb (str_empty (r_rpc_name r)) = true /\ r_rpc_name r <> rpc_chan c)
   \/ (milvus_empty r = false /\ r_k_addr r <> "")
   \/ (milvus_empty r = true /\ r_k_addr r = "")) ->
  validate c r <> None.
Proof.
  intros H. unfold validate.
  destruct (validate_front c r) eqn:F; [|discriminate]. cbn [negb].
  destruct (negb (validate_specs c r)); [discriminate|].
  destruct (negb (mapping_names_ok r)); [discriminate|].
  unfold validate_front in F.
  apply andb_prop in F; destruct F as [F F7]. apply andb_prop in F; destruct F as [F F6].
  apply andb_prop in F; destruct F as [F F5]. apply andb_prop in F; destruct F as [F F4].
  apply andb_prop in F; destruct F as [F F3]. apply andb_prop in F; destruct F as [F1 F2].
  destruct H as [E|[E|[[E1 E2]|[[E1 E2]|[E1 E2]]]]].
  - apply Z.ltb_lt in E. rewrite E in F7; discriminate.
  - apply Z.ltb_lt in E. rewrite E, orb_true_r in F7; discriminate.
  - rewrite E1. destruct (String.eqb_spec (r_rpc_name r) (rpc_chan c)); [congruence|discriminate].
  - exfalso. rewrite E1 in F2. cbn in F2.
    unfold str_empty in F2. destruct (String.eqb_spec (r_k_addr r) ""); [congruence|discriminate].
  - exfalso. rewrite E1 in F1. cbn in F1.
    unfold str_empty in F1. rewrite E2 in F1. discriminate.
Qed.

Theorem bad_positions_rejected r i f n : spec_of r = (f, n, i) ->
  (r_rpc_pos r = Some false \/ (exists p, In p (ci_pos i) /\ (ch_cid (fst p) = None \/ snd p = false))) ->
  pos_result r <> None.
Proof.
  intros S H. unfold pos_result. rewrite S.
  destruct H as [->|[p [Hp Hb]]]; [discriminate|].
  destruct (r_rpc_pos r) as [[|]|]; try discriminate.
  all: destruct (existsb (fun p => match ch_cid (fst p) with None => true | Some _ => false end) (ci_pos i)) eqn:E1; [discriminate|].
  all: destruct (existsb (fun p => negb (snd p)) (ci_pos i)) eqn:E2; [discriminate|].
  all: exfalso; destruct Hb as [Hb|Hb].
  all: try (rewrite <- not_true_iff_false in E1; apply E1; apply existsb_exists; exists p; split; [exact Hp|rewrite Hb; reflexivity]).
  all: rewrite <- not_true_iff_false in E2; apply E2; apply existsb_exists; exists p; split; [exact Hp|rewrite Hb; reflexivity].
Qed.
