(* C19 — property theorems only *)
From Coq Require Import List String Ascii NArith ZArith Bool.
From Verif Require Import Base.Util C19.Model C19.Proofs.
Import ListNotations.
Local Open Scope string_scope.

(* every body class and method gets an answer whose code is 405 for a non-POST method and 200 / 400 / 500
   otherwise (for every configuration, state and request) *)
Theorem C19_total : forall c s post b,
  let code := snd (respond c s post b) in
  (post = false -> code = 405%N) /\ (post = true -> code = 200%N \/ code = 400%N \/ code = 500%N).
Proof. exact respond_codes. Qed.
Print Assumptions C19_total.

(* bodies that do not decode, name no handler, or carry wrongly typed data are answered with an error
   and change nothing *)
Theorem C19_malformed_rejected : forall c s b, match b with BReq _ => False | _ => True end ->
  snd (respond c s true b) <> 200%N /\ fst (respond c s true b) = s.
Proof. exact malformed_rejected. Qed.
Print Assumptions C19_malformed_rejected.

(* a create request that validation refuses, or whose positions are unusable, is answered with an error *)
Theorem C19_invalid_create_rejected : forall c s r,
  (validate c r <> None \/ (pos_result r <> None /\ is_task s (r_id r) = false)) ->
  snd (respond c s true (BReq (RCreate r))) <> 200%N.
Proof. exact invalid_create_rejected. Qed.
Print Assumptions C19_invalid_create_rejected.

(* ... and these are the classes the statement lists: bad names *)
Theorem C19_bad_names : forall c r i, only i r ->
  (ci_name i = "" \/ has_dot (ci_name i) = true \/ String.length (ci_name i) > max_name c
   \/ (ci_name i = "*" /\ ci_pos i <> []) \/ (exists p, In p (ci_pos i) /\ ch_virtual (fst p) = false)) ->
  validate c r <> None.
Proof. exact bad_names_rejected. Qed.
Print Assumptions C19_bad_names.

(* negative limits, a foreign rpc channel, conflicting or missing targets *)
Theorem C19_bad_limits : forall c r,
  ((r_period r < 0)%Z \/ (r_size r < 0)%Z
   \/ (negb (str_empty (r_rpc_name r)) = true /\ r_rpc_name r <> rpc_chan c)
   \/ (milvus_empty r = false /\ r_k_addr r <> "")
   \/ (milvus_empty r = true /\ r_k_addr r = "")) ->
  validate c r <> None.
Proof. exact bad_limits_rejected. Qed.
Print Assumptions C19_bad_limits.

(* undecodable positions, position channels that do not parse *)
Theorem C19_bad_positions : forall r i f n, spec_of r = (f, n, i) ->
  (r_rpc_pos r = Some false \/ (exists p, In p (ci_pos i) /\ (ch_cid (fst p) = None \/ snd p = false))) ->
  pos_result r <> None.
Proof. exact bad_positions_rejected. Qed.
Print Assumptions C19_bad_positions.

(* any request that is not answered with 200 leaves the task list, the running flags and the checkpoints
   exactly as they were, and the bookkeeping of every target: names and user-role flag exactly, excludes
   as a multiset *)
Theorem C19_reject_frame : forall c s post b,
  snd (respond c s post b) <> 200%N -> equiv (fst (respond c s post b)) s.
Proof. exact reject_frame. Qed.
Print Assumptions C19_reject_frame.

(* non-vacuity: after two accepted creates a third with an undecodable rpc position and positions is
   refused and the state is the same *)
Definition kreq id db coll pos rpc :=
  {| r_id := id; r_m_uri := ""; r_m_host := ""; r_m_port := 0; r_m_user := ""; r_m_pass := ""; r_m_timeout := 0;
     r_dial_ok := false; r_k_addr := "k"; r_k_topic := "t"; r_period := 0; r_size := 0; r_cinfos := [];
     r_dbc := [(db, [{| ci_name := coll; ci_pos := pos |}])]; r_rpc_name := ""; r_rpc_pos := rpc; r_role := false; r_mapping := [] |}.
Example C19_nonvacuous :
  let c := {| max_name := 16; rpc_chan := "rpc"; max_tasks := 4 |} in
  let s1 := fst (respond c init true (BReq (RCreate (kreq "t1" "db1" "c1" [] None)))) in
  let s2 := fst (respond c s1 true (BReq (RCreate (kreq "t2" "db1" "c2" [({| ch_virtual := true; ch_cid := Some 7%Z |}, true)] (Some true))))) in
  let r3 := respond c s2 true (BReq (RCreate (kreq "t3" "db1" "c3" [({| ch_virtual := true; ch_cid := Some 8%Z |}, true)] (Some false)))) in
  snd r3 = 500%N /\ ckpts (fst r3) = [("t1", (-1)%Z); ("t2", 7%Z); ("t2", (-10)%Z)] /\ List.length (C10.Model.tasks (bk (fst r3))) = 2.
Proof. vm_compute. repeat split. Qed.
