(* C19 — model of the /cdc HTTP handler (server/server.go, handle_map.go) down to the decoded request,
   of validCreateRequest / checkCollectionInfos, and of what Create / Delete / Pause / Resume do to the
   task list, the checkpoints and the duplicate-detection bookkeeping (the latter is C10's model).
   JSON / mapstructure decoding is library code: a body is represented by its class (undecodable,
   unknown request type, wrongly typed data, or a decoded request).  The model is the code after the
   repairs recorded in known_findings.json (C19-dot-names, C19-orphan-checkpoint). *)
From Coq Require Import List String Ascii NArith ZArith Bool.
From Verif Require Import Base.Util.
From Verif Require C10.Model.
Import ListNotations.
Local Open Scope string_scope.

Module B := C10.Model.

Fixpoint has_dot (s : string) : bool :=
  match s with
  | EmptyString => false
  | String c r => Ascii.eqb c "."%char || has_dot r
  end.

(* a position channel name: what IsVirtualChannel and ParseVChannel say about it *)
Record chan := { ch_virtual : bool; ch_cid : option Z }.
Record cinfo := { ci_name : string; ci_pos : list (chan * bool) }.      (* bool: the position decodes *)

Record creq := {
  r_id : string;
  r_m_uri : string; r_m_host : string; r_m_port : Z; r_m_user : string; r_m_pass : string; r_m_timeout : Z;
  r_dial_ok : bool;                                   (* oracle: the connectivity check of a Milvus target *)
  r_k_addr : string; r_k_topic : string;
  r_period : Z; r_size : Z;
  r_cinfos : list cinfo;
  r_dbc : list (string * list cinfo);
  r_rpc_name : string; r_rpc_pos : option bool;       (* None: no position; Some b: decodes? *)
  r_role : bool;
  r_mapping : list (string * string * list (string * string));
}.

Record cfg := { max_name : nat; rpc_chan : string; max_tasks : nat }.

Definition str_empty (s : string) : bool := String.eqb s "".

Definition check_infos (c : cfg) (infos : list cinfo) : bool :=     (* true = accepted *)
  match infos with
  | [i] =>
      negb (str_empty (ci_name i))
      && negb (has_dot (ci_name i))
      && negb (String.eqb (ci_name i) "*" && negb (match ci_pos i with [] => true | _ => false end))
      && Nat.leb (String.length (ci_name i)) (max_name c)
      && forallb (fun p => ch_virtual (fst p)) (ci_pos i)
  | _ => false
  end.

Definition mapping_names_ok (r : creq) : bool :=
  forallb (fun m => let '(s, t, cm) := m in
     negb (has_dot s) && negb (has_dot t) && forallb (fun st => negb (has_dot (fst st)) && negb (has_dot (snd st))) cm)
    (r_mapping r).

(* validCreateRequest: None = accepted, Some code = error class (1 client, 2 server) *)
Definition milvus_empty (r : creq) : bool := str_empty (r_m_uri r) && str_empty (r_m_host r) && (r_m_port r <=? 0)%Z.
Definition validate_front (c : cfg) (r : creq) : bool :=          (* true = passes the checks before the names *)
  let me := milvus_empty r in
  let kafka := negb (str_empty (r_k_addr r)) in
  negb (me && negb kafka)
  && negb (negb me && kafka)
  && negb (negb me && str_empty (r_m_uri r) && (str_empty (r_m_host r) || (r_m_port r <=? 0)%Z))
  && negb (negb me && negb (Bool.eqb (str_empty (r_m_user r)) (str_empty (r_m_pass r))))
  && negb (negb me && (r_m_timeout r <? 0)%Z)
  && negb (kafka && str_empty (r_k_topic r))
  && negb ((r_period r <? 0)%Z || (r_size r <? 0)%Z).
Definition validate_specs (c : cfg) (r : creq) : bool :=
  match r_cinfos r, r_dbc r with
  | [_], [] => check_infos c (r_cinfos r)
  | [], [(db, infos)] => Nat.leb (String.length db) (max_name c) && negb (has_dot db) && check_infos c infos
  | _, _ => false
  end.
Definition validate (c : cfg) (r : creq) : option N :=
  if negb (validate_front c r) then Some 1%N
  else if negb (validate_specs c r) then Some 1%N
  else if negb (mapping_names_ok r) then Some 1%N
  else if negb (str_empty (r_rpc_name r)) && negb (String.eqb (r_rpc_name r) (rpc_chan c)) then Some 1%N
  else if negb (milvus_empty r) && negb (r_dial_ok r) then Some 2%N
  else None.

(* the single collection specification of a validated request *)
Definition spec_of (r : creq) : bool * B.name * cinfo :=
  match r_cinfos r, r_dbc r with
  | [i], _ => (true, ("default", ci_name i), i)
  | _, [(db, [i])] => (false, (db, ci_name i), i)
  | _, _ => (true, ("", ""), {| ci_name := ""; ci_pos := [] |})
  end.

Definition target_of (r : creq) : string :=
  if negb (str_empty (r_m_uri r)) then r_m_uri r else r_k_addr r.

Definition mapping_full_names (r : creq) : list B.name :=
  flat_map (fun m => let '(s, _, cm) := m in
     match cm with [] => [(s, "*")] | _ => map (fun st => (s, fst st)) cm end) (r_mapping r).

Definition to_c10 (r : creq) : B.creq :=
  let '(form, nm, _) := spec_of r in
  {| B.q_id := r_id r; B.q_target := target_of r; B.q_form := form; B.q_name := nm; B.q_role := r_role r;
     B.q_mapping := mapping_full_names r |}.

(* what the position handling of Create says: None = fine, Some code = error.  The rpc position is
   decoded first; then each position channel must parse, decode and belong to one collection.  The
   harness generates at most one defective entry per request, so the map iteration order is immaterial. *)
Definition all_same (l : list (option Z)) : bool :=
  match l with
  | [] => true
  | x :: r => forallb (fun y => match x, y with Some a, Some b => Z.eqb a b | _, _ => true end) r
  end.
Definition pos_result (r : creq) : option N :=
  let '(_, _, i) := spec_of r in
  if match r_rpc_pos r with Some false => true | _ => false end then Some 2%N
  else if existsb (fun p => match ch_cid (fst p) with None => true | Some _ => false end) (ci_pos i) then Some 1%N
  else if existsb (fun p => negb (snd p)) (ci_pos i) then Some 2%N
  else if negb (all_same (map (fun p => ch_cid (fst p)) (ci_pos i))) then Some 1%N
  else None.
Definition ckpt_cid (r : creq) : Z :=
  let '(_, _, i) := spec_of r in
  match ci_pos i with (c, _) :: _ => match ch_cid c with Some z => z | None => (-1)%Z end | [] => (-1)%Z end.

Record st := { bk : B.st; ckpts : list (string * Z); running : list (string * bool) }.
Definition init : st := {| bk := B.init; ckpts := []; running := [] |}.

Inductive req :=
| RCreate (r : creq)
| RDelete (id : string)
| RPause (id : string)
| RResume (id : string)
| RGet (id : string)
| RList
| RGetPosition (id : string)
| RMaintenance.                    (* an operation the maintenance handler does not know: answered 200 *)

Inductive body :=
| BUndecodable                      (* json.Unmarshal of the body fails *)
| BUnknownType                      (* request_type is not one of the handlers *)
| BBadData                          (* request_data does not decode into the request model *)
| BReq (q : req).

Definition is_task (s : st) (id : string) : bool := existsb (fun t => String.eqb (B.t_id t) id) (B.tasks (bk s)).
Definition is_running (s : st) (id : string) : bool :=
  match alookup (running s) id with Some b => b | None => false end.

(* codes: 0 = 200, 1 = 400, 2 = 500 *)
Definition create (c : cfg) (s : st) (r : creq) : st * N :=
  match validate c r with
  | Some e => (s, e)
  | None =>
      if is_task s (r_id r) then (s, 0%N)
      else
        let limit := Nat.leb (max_tasks c) (List.length (B.tasks (bk s))) in
        let f := if limit then B.FLimit else match pos_result r with Some _ => B.FPut | None => B.FNone end in
        let '(b', code) := B.step (bk s) (B.Create (to_c10 r) f) in
        match code with
        | 0%N => ({| bk := b';
                     ckpts := ckpts s ++ [(r_id r, ckpt_cid r)]
                              ++ (match r_rpc_pos r with Some true => [(r_id r, (-10)%Z)] | _ => [] end);
                     running := aupsert (running s) (r_id r) true |}, 0%N)
        | 1%N => (s, 1%N)
        | _ => ({| bk := b'; ckpts := ckpts s; running := running s |},
                if limit then 2%N else match pos_result r with Some e => e | None => 2%N end)
        end
  end.

Definition handle (c : cfg) (s : st) (q : req) : st * N :=
  match q with
  | RCreate r => create c s r
  | RDelete id =>
      if is_task s id
      then ({| bk := fst (B.step (bk s) (B.Delete id B.DNone));
               ckpts := filter (fun k => negb (String.eqb (fst k) id)) (ckpts s);
               running := aremove (running s) id |}, 0%N)
      else (s, 1%N)
  | RPause id =>
      if negb (is_task s id) then (s, 1%N)
      else if negb (is_running s id) then (s, 1%N)
      else ({| bk := bk s; ckpts := ckpts s; running := aupsert (running s) id false |}, 0%N)
  | RResume id =>
      if negb (is_task s id) then (s, 1%N)
      else if is_running s id then (s, 1%N)
      else ({| bk := bk s; ckpts := ckpts s; running := aupsert (running s) id true |}, 0%N)
  | RGet id => if str_empty id then (s, 1%N) else if is_task s id then (s, 0%N) else (s, 1%N)
  | RList => (s, 0%N)
  | RGetPosition _ => (s, 0%N)
  | RMaintenance => (s, 0%N)
  end.

(* the handler: response code as written into the body (200 / 400 / 500 / 405) *)
Definition respond (c : cfg) (s : st) (post : bool) (b : body) : st * N :=
  if negb post then (s, 405%N)
  else match b with
       | BUndecodable => (s, 500%N)
       | BUnknownType => (s, 400%N)
       | BBadData => (s, 500%N)
       | BReq q => let '(s', code) := handle c s q in
                   (s', match code with 0%N => 200%N | 1%N => 400%N | _ => 500%N end)
       end.

(* ---- observation ---- *)
Record obs := { o_code : N;
                o_tasks : list (string * bool);            (* stored tasks: id, running *)
                o_ckpts : list (string * Z);
                o_books : list B.obook }.

Record case := { c_cfg : cfg; c_targets : list string; c_ops : list (bool * body); c_obs : list obs }.

Definition observe (targets : list string) (s : st) (code : N) : obs :=
  {| o_code := code;
     o_tasks := map (fun t => (B.t_id t, is_running s (B.t_id t))) (B.tasks (bk s));
     o_ckpts := ckpts s;
     o_books := map (fun tg => let b := B.book_of (bk s) tg in
                               {| B.ob_target := tg; B.ob_data := B.b_data b; B.ob_excl := B.b_excl b; B.ob_extra := B.b_extra b |}) targets |}.

Fixpoint run_obs (c : cfg) (targets : list string) (s : st) (ops : list (bool * body)) : list obs :=
  match ops with
  | [] => []
  | (post, b) :: r => let '(s1, code) := respond c s post b in observe targets s1 code :: run_obs c targets s1 r
  end.

Definition sb_eqb (a b : string * bool) : bool := String.eqb (fst a) (fst b) && Bool.eqb (snd a) (snd b).
Definition sz_eqb (a b : string * Z) : bool := String.eqb (fst a) (fst b) && Z.eqb (snd a) (snd b).
Definition set_eqb {A} (eqb : A -> A -> bool) (a b : list A) : bool :=
  Nat.eqb (List.length a) (List.length b) && forallb (fun x => existsb (eqb x) b) a && forallb (fun x => existsb (eqb x) a) b.

Definition state_eqb (a b : obs) : bool :=
  set_eqb sb_eqb (o_tasks a) (o_tasks b) && set_eqb sz_eqb (o_ckpts a) (o_ckpts b)
  && list_eqb B.obook_eqb (o_books a) (o_books b).
Definition obs_eqb (a b : obs) : bool := N.eqb (o_code a) (o_code b) && state_eqb a b.

Definition agrees (c : case) : bool :=
  list_eqb obs_eqb (run_obs (c_cfg c) (c_targets c) init (c_ops c)) (c_obs c).

(* ---- the property as a checker over the implementation's observations ---- *)
(* classes of create requests the statement lists as invalid *)
Definition must_reject (c : cfg) (b : body) : bool :=
  match b with
  | BReq (RCreate r) =>
      match validate c r with Some _ => true | None => match pos_result r with Some _ => true | None => false end end
  | BUndecodable | BUnknownType | BBadData => true
  | _ => false
  end.

Definition empty_obs : obs := {| o_code := 0; o_tasks := []; o_ckpts := []; o_books := [] |}.
Definition books_empty (o : obs) : bool :=
  forallb (fun b => match B.ob_data b, B.ob_excl b, B.ob_extra b with [], [], false => true | _, _, _ => false end) (o_books o).

Definition check_point (c : cfg) (prev : option obs) (op : bool * body) (ob : obs) : bool :=
  let '(post, b) := op in
  (if post then N.eqb (o_code ob) 200 || N.eqb (o_code ob) 400 || N.eqb (o_code ob) 500 else N.eqb (o_code ob) 405)
  && (if post && must_reject c b then negb (N.eqb (o_code ob) 200) else true)
  && (if N.eqb (o_code ob) 200 then true
      else match prev with
           | Some p => state_eqb p ob
           | None => match o_tasks ob, o_ckpts ob with [], [] => books_empty ob | _, _ => false end
           end).

Fixpoint check_all (c : cfg) (prev : option obs) (ops : list (bool * body)) (os : list obs) : bool :=
  match ops, os with
  | [], [] => true
  | o :: r, ob :: obr => check_point c prev o ob && check_all c (Some ob) r obr
  | _, _ => false
  end.
Definition check_C19 (c : case) : bool := check_all (c_cfg c) None (c_ops c) (c_obs c).

Definition mismatches (l : list (N * case)) : list N := failing_ids agrees l.
Definition checkfails (l : list (N * case)) : list N := failing_ids check_C19 l.
Definition knownclass (l : list (N * case)) : list (N * N) := [].
