(* Shared helpers for the executable models (no property proofs here). *)
From Coq Require Import List String NArith ZArith Bool Ascii.
Import ListNotations.

(* association lists keyed by strings: the model of a Go map[string]T whose
   iteration order is never observed *)
Fixpoint alookup {A} (l : list (string * A)) (k : string) : option A :=
  match l with
  | [] => None
  | (k', v) :: r => if String.eqb k k' then Some v else alookup r k
  end.

Fixpoint aupsert {A} (l : list (string * A)) (k : string) (v : A) : list (string * A) :=
  match l with
  | [] => [(k, v)]
  | (k', v') :: r => if String.eqb k k' then (k, v) :: r else (k', v') :: aupsert r k v
  end.

Fixpoint aremove {A} (l : list (string * A)) (k : string) : list (string * A) :=
  match l with
  | [] => []
  | (k', v') :: r => if String.eqb k k' then aremove r k else (k', v') :: aremove r k
  end.

Definition akeys {A} (l : list (string * A)) : list string := map fst l.

Fixpoint list_eqb {A} (eqb : A -> A -> bool) (a b : list A) : bool :=
  match a, b with
  | [], [] => true
  | x :: a', y :: b' => eqb x y && list_eqb eqb a' b'
  | _, _ => false
  end.

Definition option_eqb {A} (eqb : A -> A -> bool) (a b : option A) : bool :=
  match a, b with
  | None, None => true
  | Some x, Some y => eqb x y
  | _, _ => false
  end.

Definition pair_eqb {A B} (ea : A -> A -> bool) (eb : B -> B -> bool) (a b : A * B) : bool :=
  ea (fst a) (fst b) && eb (snd a) (snd b).

Definition mem_str (x : string) (l : list string) : bool := existsb (String.eqb x) l.

(* indices (as N) of the list elements on which f is false *)
Fixpoint failing_ids {A} (f : A -> bool) (l : list (N * A)) : list N :=
  match l with
  | [] => []
  | (i, c) :: r => if f c then failing_ids f r else i :: failing_ids f r
  end.

(* pointwise test of two lists of possibly different types; false when the lengths differ *)
Fixpoint forall2b {A B} (f : A -> B -> bool) (a : list A) (b : list B) : bool :=
  match a, b with
  | [], [] => true
  | x :: a', y :: b' => f x y && forall2b f a' b'
  | _, _ => false
  end.
