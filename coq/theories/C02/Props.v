(* C02 — property theorems only (model: Reader/Model.v, proofs: Reader/Proofs.v, C02/Proofs.v) *)
From Coq Require Import List String NArith ZArith Bool Sorting.Sorted Permutation.
From Verif Require Import Base.Util Reader.Model Reader.Script Reader.Proofs C02.Check C02.Proofs C03.Proofs Reader.Example.
From Verif Require C02.History.
Import ListNotations.
Local Open Scope string_scope.

(* the pairing of source and downstream shards, for every collection with the same shard count on both sides: each side is
   a permutation of what the catalogs list, sorted by virtual channel name, and the two are zipped position by position - so
   it is one-to-one and does not depend on the order in which the catalogs list the shards *)
Theorem C02_pairing : forall c shs, pairing c = Some shs ->
  List.length (ci_src c) = List.length (ci_tgt c)
  /\ map (fun sh => (sh_svch sh, sh_spch sh)) shs = ssort (ci_src c)
  /\ map (fun sh => (sh_tvch sh, sh_tpch sh)) shs = ssort (ci_tgt c)
  /\ Permutation (ssort (ci_src c)) (ci_src c) /\ Permutation (ssort (ci_tgt c)) (ci_tgt c)
  /\ Sorted sle (ssort (ci_src c)) /\ Sorted sle (ssort (ci_tgt c)).
Proof. exact pairing_spec. Qed.
Print Assumptions C02_pairing.

(* history theorem: in every reachable state of the reader model - for every history of collections started and started again (with
   handlers that wait for a downstream channel and are given another one), partitions added, packs fed, drops and stops - every record
   that a channel handler holds for a collection, and every record queued on a waiting handler, carries the downstream collection id,
   the name, and the downstream virtual and physical channel of one shard of the sorted one-to-one pairing (C02_pairing) of a
   StartColl label of the history for that collection.  With C02_readdressing below (an appended message carries the addressing of
   the handler's record for the message's collection) the addressing of every emitted message comes from that pairing. *)
Theorem C02_records_from_pairing : forall retries ls,
  let s := run retries ls in
  (forall h, In h (handlers s) -> forall c r, zlookup (h_recs h) c = Some r ->
     exists ci shs sh, In (StartColl ci) ls /\ ci_id ci = c /\ pairing ci = Some shs /\ In sh shs
                       /\ (t_tcoll r, t_name r, t_tvch r, t_tpch r) = (ci_tid ci, ci_name ci, sh_tvch sh, sh_tpch sh))
  /\ (forall w, In w (wsh s) ->
     exists ci shs sh, In (StartColl ci) ls /\ ci_id ci = ws_coll w /\ pairing ci = Some shs /\ In sh shs
                       /\ (t_tcoll (ws_rec w), t_name (ws_rec w), t_tvch (ws_rec w), t_tpch (ws_rec w)) = (ci_tid ci, ci_name ci, sh_tvch sh, sh_tpch sh)).
Proof. exact History.records_from_pairing. Qed.
Print Assumptions C02_records_from_pairing.

(* re-addressing, for every accumulator state and message: whatever the content phase appends for a message carries the
   downstream collection id, virtual channel and physical channel of the record the feeding handler holds for the message's
   collection (the partition bookkeeping of the record may have changed, its addressing may not) *)
Theorem C02_readdressing : forall retries a m,
  match one_msg retries a m with
  | COk a' => a_out a' = a_out a
              \/ exists r0 r pid, zlookup (h_recs (a_h a)) (m_coll m) = Some r0 /\ addr r = addr r0
                                  /\ a_out a' = (a_out a ++ [mk_emsg m r pid])%list
  | CErr _ => True end.
Proof. exact one_msg_addr. Qed.
Print Assumptions C02_readdressing.

(* the rewritten message: downstream collection id; shard name (insert / delete) is the downstream virtual channel, the
   position names the downstream physical or virtual channel as the source position did; message id, rows and partition name
   are the source's *)
Theorem C02_rewrite : forall m r pid,
  let e := mk_emsg m r pid in
  e_coll e = t_tcoll r /\ e_part e = pid /\ e_poschan e = (if m_pospch m then t_tpch r else t_tvch r) /\ e_id e = m_id m
  /\ (m_kind m = KInsert \/ m_kind m = KDelete -> e_shard e = t_tvch r).
Proof. intros m r pid. cbn. repeat split. intros [-> | ->]; reflexivity. Qed.
Print Assumptions C02_rewrite.

(* routing decision *)
Theorem C02_forward_decision : forall a r e,
  (String.eqb (h_tgt (a_h a)) (t_tpch r) = false -> a_fwd (append a r e) = Some (t_tpch r) /\ a_out (append a r e) = (a_out a ++ [e])%list)
  /\ (String.eqb (h_tgt (a_h a)) (t_tpch r) = true ->
      a_fwd (append a r e) = a_fwd a /\ (a_fwd a = None -> a_out (append a r e) = (a_out a ++ [e])%list)
      /\ (a_fwd a <> None -> a_out (append a r e) = a_out a)).
Proof. exact append_route. Qed.
Print Assumptions C02_forward_decision.

(* the pack put on a channel names that channel in its position and in its ticks, and its data are the retimed messages *)
Theorem C02_pack_names_channel : forall s ch label b e msgs need,
  let c0 := clock_of s ch in
  (lts c0 <= cts c0)%N -> (b <= cts c0)%N -> (cts c0 + N.of_nat (List.length msgs) + 1 < maxu)%N ->
  forall pk, out (emit s ch label b e msgs need) = (out s ++ [pk])%list ->
    ep_chan pk = ch /\ ep_poschan pk = ch
    /\ exists opening data tk, ep_msgs pk = (opening ++ data ++ [tk])%list /\ Forall (fun o => e_kind o = KTick /\ e_poschan o = ch) opening
                               /\ e_kind tk = KTick /\ e_poschan tk = ch /\ Forall2 same_but_time msgs data.
Proof. exact emit_channel. Qed.
Print Assumptions C02_pack_names_channel.

Example C02_nonvacuous :
  let s := run 3 ex_labels in
  map (fun pk => (ep_chan pk, map (fun e => (e_coll e, e_part e, e_shard e)) (filter (fun e => is_data (e_kind e)) (ep_msgs pk)))) (out s)
  = [("t", [(9101, 7, "t_v0"); (9101, 7, "t_v0"); (9101, 7, "t_v0")]%Z); ("t", []); ("t", [(9101, 7, "t_v0")]%Z)]
  /\ check_C02 {| c_retries := 3; c_labels := ex_labels; c_out := out s; c_events := events s; c_out_at := []; c_ev_at := [] |} = true.
Proof. vm_compute. repeat split. Qed.

(* the name of a dropped partition does not stay behind: after the callback of the partition's barrier (every shard has read
   the drop message, the drop request has been handed over) the map the collection's handlers share has no entry for the
   name - a partition created again under it is looked up in the downstream anew and gets its create request *)
Require Verif.Reader.Forget.
Theorem C02_dropped_partition_name_forgotten : forall s c n h r,
  find (fun h => match zlookup (h_recs h) c with Some _ => true | None => false end) (handlers s) = Some h ->
  zlookup (h_recs h) c = Some r ->
  alookup (heap_get (forget_name s c n) (t_parts r)) n = None.
Proof. exact Forget.forget_name_forgets. Qed.
Print Assumptions C02_dropped_partition_name_forgotten.
