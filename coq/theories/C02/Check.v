(* C02 — checker over the implementation's output: re-addressing and routing *)
From Coq Require Import List String NArith ZArith Bool.
From Verif Require Import Base.Util Reader.Model Reader.Script.
Import ListNotations.
Local Open Scope string_scope.

(* all partition maps the downstream ever reported for a collection: the one at start and the scripted answers *)
Definition known_maps (ls : list label) (ci : collinfo) : list pmap :=
  ci_parts ci :: flat_map (fun l => match l with
                                    | Feed c _ _ _ ans => if Z.eqb c (ci_id ci) then flat_map (fun a => match a with Some m => [m] | None => [] end) ans else []
                                    | _ => [] end) ls.

Definition msg_ok (c : case) (p : epack) (e : emsg) : bool :=
  if negb (is_data (e_kind e)) then true
  else match coll_by_id (c_labels c) (ep_coll p) with
       | None => false
       | Some ci =>
           match shard_of ci (ep_spch p) with
           | None => false
           | Some sh =>
               Z.eqb (e_coll e) (ci_tid ci)
               (* delivered on the physical channel hosting the paired virtual channel; positions name it *)
               && String.eqb (ep_chan p) (sh_tpch sh) && String.eqb (ep_poschan p) (sh_tpch sh)
               && (String.eqb (e_poschan e) (sh_tvch sh) || String.eqb (e_poschan e) (sh_tpch sh))
               && (match e_kind e with KInsert | KDelete => String.eqb (e_shard e) (sh_tvch sh) | _ => true end)
               (* the downstream partition of the same name *)
               && (match e_kind e with
                   | KDropColl => true
                   | KImport => (* the downstream's partition ids: as many as one of the maps the downstream reported *)
                       existsb (fun m => Nat.eqb (List.length m) (e_rows e)) (known_maps (c_labels c) ci)
                   | KDelete => if String.eqb (e_pname e) "" then true
                                else existsb (fun m => match alookup m (e_pname e) with Some i => Z.eqb i (e_part e) | None => false end) (known_maps (c_labels c) ci)
                   | _ => existsb (fun m => match alookup m (e_pname e) with Some i => Z.eqb i (e_part e) | None => false end) (known_maps (c_labels c) ci)
                   end)
           end
       end.

Definition pack_ok (c : case) (p : epack) : bool :=
  forallb (msg_ok c p) (ep_msgs p)
  && match closing p with Some t => String.eqb (e_poschan t) (ep_chan p) | None => false end
  && String.eqb (ep_poschan p) (ep_chan p).

(* a message keeps its source message id in its position: the harness sets e_id from the message's own id field and
   compares the position's message id with it (a difference is reported as e_id 0) *)
Definition check_C02 (c : case) : bool := forallb (pack_ok c) (c_out c).

Definition mismatches (l : list (N * case)) : list N := failing_ids agrees l.
Definition checkfails (l : list (N * case)) : list N := failing_ids check_C02 l.
Definition knownclass (l : list (N * case)) : list (N * N) := [].
