(* C02 — checker over the implementation's output: re-addressing and routing *)
From Coq Require Import List String NArith ZArith Bool.
From Verif Require Import Base.Util Reader.Model Reader.Script.
Import ListNotations.
Local Open Scope string_scope.

(* all partition maps the downstream ever reported for a collection: the one at start and the scripted answers *)
Definition known_maps (ls : list label) (ci : collinfo) : list pmap :=
  ci_parts ci :: flat_map (fun l => match l with
                                    | Feed c _ _ _ ans => if Z.eqb c (ci_id ci) then flat_map (fun a => match a with Some m => [m] | None => [] end) ans else []
                                    | _ => [] end) ls.

Definition msg_ok (c : case) (p : epack) (e : emsg) : bool :=
  if negb (is_data (e_kind e)) then true
  else match coll_by_id (c_labels c) (ep_coll p) with
       | None => false
       | Some ci =>
           match shard_of ci (ep_spch p) with
           | None => false
           | Some sh =>
               Z.eqb (e_coll e) (ci_tid ci)
               (* delivered on the physical channel hosting the paired virtual channel; positions name it *)
               && String.eqb (ep_chan p) (sh_tpch sh) && String.eqb (ep_poschan p) (sh_tpch sh)
               && (String.eqb (e_poschan e) (sh_tvch sh) || String.eqb (e_poschan e) (sh_tpch sh))
               && (match e_kind e with KInsert | KDelete => String.eqb (e_shard e) (sh_tvch sh) | _ => true end)
               (* the downstream partition of the same name *)
               && (match e_kind e with
                   | KDropColl => true
                   | KImport => (* the downstream's partition ids: as many as one of the maps the downstream reported *)
                       existsb (fun m => Nat.eqb (List.length m) (e_rows e)) (known_maps (c_labels c) ci)
                   | KDelete => if String.eqb (e_pname e) "" then true
                                else existsb (fun m => match alookup m (e_pname e) with Some i => Z.eqb i (e_part e) | None => false end) (known_maps (c_labels c) ci)
                   | _ => existsb (fun m => match alookup m (e_pname e) with Some i => Z.eqb i (e_part e) | None => false end) (known_maps (c_labels c) ci)
                   end)
           end
       end.

Definition pack_ok (c : case) (p : epack) : bool :=
  forallb (msg_ok c p) (ep_msgs p)
  && match closing p with Some t => String.eqb (e_poschan t) (ep_chan p) | None => false end
  && String.eqb (ep_poschan p) (ep_chan p).

(* "the downstream partition id of the same-named partition" is about now, not about any time: once a stream has emitted the
   drop message of a partition (re-addressed to downstream id t under name n), a later insert or delete of that stream under
   the name n carries t only if the downstream has reported t for n again since (a scripted answer of a Feed label between the
   two): the dropped partition's id is not what the name stands for any more.  The labels of the packs come from c_out_at
   (without it - the closed examples of Props.v - the rule says nothing). *)
Definition reported_between (ls : list label) (cid : Z) (i j : nat) (name : string) (tid : Z) : bool :=
  existsb (fun kl => Nat.leb i (fst kl) && Nat.leb (fst kl) j &&
                     match snd kl with
                     | Feed c _ _ _ ans =>
                         Z.eqb c cid && existsb (fun a => match a with
                                                          | Some m => match alookup m name with Some x => Z.eqb x tid | None => false end
                                                          | None => false end) ans
                     | _ => false end)
          (combine (seq 0 (List.length ls)) ls).

Definition stale_msg (ls : list label) (p : epack) (j : nat) (acc : bool * list (Z * string * string * Z * nat)) (e : emsg)
  : bool * list (Z * string * string * Z * nat) :=
  match e_kind e with
  | KDropPart => (fst acc, (ep_coll p, ep_spch p, e_pname e, e_part e, j) :: snd acc)
  | KInsert | KDelete =>
      if String.eqb (e_pname e) "" then acc
      else (fst acc && forallb (fun d => match d with
                                         | (c0, sp, n, t, i) =>
                                             negb (Z.eqb c0 (ep_coll p) && String.eqb sp (ep_spch p) && String.eqb n (e_pname e) && Z.eqb t (e_part e))
                                             || reported_between ls (ep_coll p) i j n t
                                         end) (snd acc), snd acc)
  | _ => acc
  end.

Fixpoint stale_scan (ls : list label) (seen : list (Z * string * string * Z * nat)) (ps : list (epack * nat)) : bool :=
  match ps with
  | [] => true
  | (p, j) :: r =>
      let res := fold_left (stale_msg ls p j) (ep_msgs p) (true, seen) in
      fst res && stale_scan ls (snd res) r
  end.

(* a message keeps its source message id in its position: the harness sets e_id from the message's own id field and
   compares the position's message id with it (a difference is reported as e_id 0) *)
Definition check_C02 (c : case) : bool :=
  forallb (pack_ok c) (c_out c) && stale_scan (c_labels c) [] (combine (c_out c) (c_out_at c)).

Definition mismatches (l : list (N * case)) : list N := failing_ids agrees l.
Definition checkfails (l : list (N * case)) : list N := failing_ids check_C02 l.
Definition knownclass (l : list (N * case)) : list (N * N) := [].
