(* C02 — proofs: the pairing of source and downstream shards, and where the addressing of an emitted message comes from *)
From Coq Require Import List String NArith ZArith Bool Arith Lia Permutation Sorting.Sorted.
From Verif Require Import Base.Util Reader.Model Reader.Script Reader.Proofs.
Import ListNotations.
Local Open Scope string_scope.

(* ---------- ForeachChannel: both sides sorted by virtual channel name, paired position by position ---------- *)
Lemma sins_perm x l : Permutation (sins x l) (x :: l).
Proof. induction l as [|y r IH]; cbn [sins]; [reflexivity|]. destruct (String.leb (fst x) (fst y)); [reflexivity|]. rewrite IH. apply perm_swap. Qed.
Lemma ssort_perm l : Permutation (ssort l) l.
Proof. induction l as [|x r IH]; cbn [ssort fold_right]; [reflexivity|]. fold (ssort r). rewrite sins_perm, IH. reflexivity. Qed.

Definition sle (a b : string * string) : Prop := String.leb (fst a) (fst b) = true.
Lemma sins_hd x y l : HdRel sle y l -> sle y x -> HdRel sle y (sins x l).
Proof. intros H Hyx. destruct l as [|z r]; cbn [sins]; [constructor; exact Hyx|]. destruct (String.leb (fst x) (fst z)); constructor; [exact Hyx|]. inversion H; assumption. Qed.
Lemma sins_sorted x l : Sorted sle l -> Sorted sle (sins x l).
Proof.
  induction 1 as [|y r S IH H]; cbn [sins]; [repeat constructor|].
  destruct (String.leb (fst x) (fst y)) eqn:E.
  - constructor; [constructor; assumption|constructor; exact E].
  - constructor; [exact IH|]. apply sins_hd; [exact H|]. unfold sle. destruct (String.leb_total (fst x) (fst y)); congruence.
Qed.
Lemma ssort_sorted l : Sorted sle (ssort l).
Proof. induction l as [|x r IH]; cbn [ssort fold_right]; [constructor|]. apply sins_sorted. exact IH. Qed.

(* the pairing: a permutation of each side, each sorted by virtual channel name, zipped *)
Lemma pairing_spec c shs : pairing c = Some shs ->
  List.length (ci_src c) = List.length (ci_tgt c)
  /\ map (fun sh => (sh_svch sh, sh_spch sh)) shs = ssort (ci_src c)
  /\ map (fun sh => (sh_tvch sh, sh_tpch sh)) shs = ssort (ci_tgt c)
  /\ Permutation (ssort (ci_src c)) (ci_src c) /\ Permutation (ssort (ci_tgt c)) (ci_tgt c)
  /\ Sorted sle (ssort (ci_src c)) /\ Sorted sle (ssort (ci_tgt c)).
Proof.
  unfold pairing. destruct (Nat.eqb_spec (List.length (ci_src c)) (List.length (ci_tgt c))) as [E|]; [|discriminate].
  intros H; injection H as <-. split; [exact E|].
  assert (L : List.length (ssort (ci_src c)) = List.length (ssort (ci_tgt c))).
  { rewrite (Permutation_length (ssort_perm _)), (Permutation_length (ssort_perm (ci_tgt c))). exact E. }
  split; [|split]; [| |repeat split; auto using ssort_perm, ssort_sorted].
  - rewrite map_map. cbn [sh_svch sh_spch]. revert L. generalize (ssort (ci_tgt c)). induction (ssort (ci_src c)) as [|[a b] r IH]; intros [|y l] L; try discriminate; cbn; [reflexivity|].
    f_equal. apply IH. cbn in L. lia.
  - rewrite map_map. cbn [sh_tvch sh_tpch]. revert L. generalize (ssort (ci_tgt c)). induction (ssort (ci_src c)) as [|x r IH]; intros [|[a b] l] L; try discriminate; cbn; [reflexivity|].
    f_equal. apply IH. cbn in L. lia.
Qed.

(* ---------- the addressing of an appended message is that of the handler's record of the message's collection ---------- *)
Definition addr (r : trec) : Z * string * string := (t_tcoll r, t_tvch r, t_tpch r).

Lemma part_lookup_addr retries a c r pid name res a' r' :
  part_lookup retries a c r pid name = (res, a', r') -> addr r' = addr r.
Proof.
  unfold part_lookup. destruct (alookup _ name); [intros H; injection H as _ _ <-; reflexivity|].
  destruct (refresh retries (a_ans a) name _) as [[res0 rest] newmap].
  destruct newmap; intros H; injection H as _ _ <-; reflexivity.
Qed.
Lemma import_lookup_addr retries a c r count res a' r' :
  import_lookup retries a c r count = (res, a', r') -> addr r' = addr r.
Proof.
  unfold import_lookup. destruct (Nat.eqb _ count); [intros H; injection H as _ _ <-; reflexivity|].
  destruct (refresh_count retries (a_ans a) count _) as [[ok rest] newmap].
  destruct newmap; intros H; injection H as _ _ <-; reflexivity.
Qed.
Lemma remove_part_addr hp r name id : addr (snd (remove_part hp r name id)) = addr r.
Proof. unfold remove_part. reflexivity. Qed.

Lemma one_msg_addr retries a m :
  match one_msg retries a m with
  | COk a' => a_out a' = a_out a
              \/ exists r0 r pid, zlookup (h_recs (a_h a)) (m_coll m) = Some r0 /\ addr r = addr r0
                                  /\ a_out a' = (a_out a ++ [mk_emsg m r pid])%list
  | CErr _ => True end.
Proof.
  unfold one_msg.
  repeat dm; try exact I; try (left; reflexivity).
  all: cbn [a_out a_h a_st] in *.
  all: repeat match goal with H : negb (Z.eqb ?z (m_coll _)) = false |- _ => apply negb_false_iff, Z.eqb_eq in H; try subst z end.
  all: repeat match goal with H : part_lookup _ _ _ _ _ _ = _ |- _ =>
         let H' := fresh "PA" in pose proof (part_lookup_addr _ _ _ _ _ _ _ _ _ H) as H'; apply part_lookup_out in H; destruct H as [? [? ?]]
       | H : import_lookup _ _ _ _ _ = _ |- _ =>
         let H' := fresh "PA" in pose proof (import_lookup_addr _ _ _ _ _ _ _ _ H) as H'; apply import_lookup_out in H; destruct H as [? [? ?]] end.
  all: cbn [a_out a_h a_st] in *.
  all: match goal with
  | |- context [append ?a ?r ?e] => destruct (append_out a r e) as [Ha|Ha]; rewrite Ha; cbn [a_out] in *
  | _ => idtac
  end.
  all: try (left; congruence).
  all: match goal with
       | Hz : zlookup (h_recs (a_h ?aa)) ?cc = Some ?r0 |- _ \/ (exists _ _ _, _ /\ _ /\ (?x ++ [mk_emsg _ ?rr ?pp])%list = _) =>
           right; exists r0, rr, pp; split; [rewrite <- Hz; f_equal; congruence|split; [try reflexivity; try congruence|replace x with (a_out aa) by congruence; reflexivity]]
       end.
Qed.

(* the forward decision of handlePack: a message whose record lives on another downstream channel than the handler's makes the
   pack a forwarded one, addressed to that channel *)
Lemma append_route a r e :
  (String.eqb (h_tgt (a_h a)) (t_tpch r) = false -> a_fwd (append a r e) = Some (t_tpch r) /\ a_out (append a r e) = (a_out a ++ [e])%list)
  /\ (String.eqb (h_tgt (a_h a)) (t_tpch r) = true ->
      a_fwd (append a r e) = a_fwd a /\ (a_fwd a = None -> a_out (append a r e) = (a_out a ++ [e])%list)
      /\ (a_fwd a <> None -> a_out (append a r e) = a_out a)).
Proof.
  unfold append. destruct (String.eqb (h_tgt (a_h a)) (t_tpch r)); cbn [negb]; split; try discriminate; intros _.
  - destruct (a_fwd a) eqn:F; cbn [a_fwd a_out]; repeat split; congruence.
  - split; reflexivity.
Qed.

(* an emitted pack and its ticks name the channel the pack is put on *)
Lemma emit_channel s ch label b e msgs need :
  let c0 := clock_of s ch in
  (lts c0 <= cts c0)%N -> (b <= cts c0)%N -> (cts c0 + N.of_nat (List.length msgs) + 1 < maxu)%N ->
  forall pk, out (emit s ch label b e msgs need) = (out s ++ [pk])%list ->
    ep_chan pk = ch /\ ep_poschan pk = ch
    /\ exists opening data tk, ep_msgs pk = (opening ++ data ++ [tk])%list /\ Forall (fun o => e_kind o = KTick /\ e_poschan o = ch) opening
                               /\ e_kind tk = KTick /\ e_poschan tk = ch /\ Forall2 same_but_time msgs data.
Proof.
  intros c0 H1 H2 H3 pk Ho.
  destruct (emit_spec s ch label b e msgs need H1 H2 H3) as [_ [_ [_ [_ [_ [_ [_ [_ [_ [_ [_ [_ Hcases]]]]]]]]]]]].
  destruct Hcases as [[Ho' _]|[pk' [Ho' [Hp _]]]].
  - rewrite Ho' in Ho. exfalso. apply (f_equal (@List.length _)) in Ho. rewrite app_length in Ho. cbn in Ho. lia.
  - rewrite Ho' in Ho. apply app_inj_tail in Ho. destruct Ho as [_ <-].
    destruct Hp as [[A B] _ [opening [data [tk [E [Fo [F2 [Kt [Pt _]]]]]]]]]. split; [exact A|]. split; [exact B|].
    exists opening, data, tk. repeat split; assumption.
Qed.
