(* C02 - history invariant: in every reachable state of the reader model every record that a channel handler holds for a collection
   (and every record queued on a waiting handler) carries the downstream collection id, name, virtual channel and physical channel of
   a shard of the sorted one-to-one pairing of a StartColl label of the history for that collection.  Together with C02_readdressing
   (an appended message carries the addressing of the handler's record) this is "the re-addressing comes from the pairing". *)
From Coq Require Import List String NArith ZArith Bool Arith Lia.
From Verif Require Import Base.Util Reader.Model Reader.Proofs C04.Proofs.
From Verif Require Import Reader.Forget.
From Verif Require C16.Model C16.Manager.
Import ListNotations.

Definition addr4 (r : trec) : Z * string * string * string := (t_tcoll r, t_name r, t_tvch r, t_tpch r).

Definition from_script (ls : list label) (c : Z) (r : trec) : Prop :=
  exists ci shs sh, In (StartColl ci) ls /\ ci_id ci = c /\ pairing ci = Some shs /\ In sh shs
                    /\ addr4 r = (ci_tid ci, ci_name ci, sh_tvch sh, sh_tpch sh).

Lemma from_script_addr4 ls c r r' : addr4 r' = addr4 r -> from_script ls c r -> from_script ls c r'.
Proof. intros E (ci & shs & sh & A & B & C & D & F). exists ci, shs, sh. repeat split; try assumption. congruence. Qed.
Lemma from_script_mono ls ls' c r : from_script ls c r -> from_script (ls ++ ls') c r.
Proof. intros (ci & shs & sh & A & B). exists ci, shs, sh. split; [apply in_or_app; left; exact A|exact B]. Qed.

Definition HOK (ls : list label) (h : handler) : Prop := forall c r, zlookup (h_recs h) c = Some r -> from_script ls c r.
Definition GInv (ls : list label) (s : st) : Prop :=
  (forall h, In h (handlers s) -> HOK ls h) /\ (forall w, In w (wsh s) -> from_script ls (ws_coll w) (ws_rec w)).

Lemma GInv_mono ls ls' s : GInv ls s -> GInv (ls ++ ls') s.
Proof. intros [A B]. split; [intros h Hh c r Hr; apply from_script_mono, (A h Hh c r Hr)|intros w Hw; apply from_script_mono, B, Hw]. Qed.
Lemma GInv_ext ls s s' : handlers s' = handlers s -> wsh s' = wsh s -> GInv ls s -> GInv ls s'.
Proof. intros E1 E2 [A B]. split; [rewrite E1; exact A|rewrite E2; exact B]. Qed.

(* a handler whose records are re-addressed copies of (some of) the records of another *)
Definition hrel (h h' : handler) : Prop :=
  h_src h' = h_src h /\ forall c r', zlookup (h_recs h') c = Some r' -> exists r, zlookup (h_recs h) c = Some r /\ addr4 r' = addr4 r.
Lemma hrel_refl h : hrel h h. Proof. split; [reflexivity|]. intros c r H. exists r. split; [exact H|reflexivity]. Qed.
Lemma hrel_trans a b c : hrel a b -> hrel b c -> hrel a c.
Proof.
  intros [S1 R1] [S2 R2]. split; [congruence|]. intros k r3 H3. destruct (R2 k r3 H3) as [r2 [H2 E2]]. destruct (R1 k r2 H2) as [r1 [H1 E1]].
  exists r1. split; [exact H1|congruence].
Qed.
Lemma hrel_set_rec h c r r' : zlookup (h_recs h) c = Some r -> addr4 r' = addr4 r -> hrel h (set_rec h c r').
Proof.
  intros L E. split; [reflexivity|]. intros k x. cbn [set_rec h_recs]. rewrite zlookup_zupsert. destruct (Z.eqb_spec k c) as [->|N].
  - intros H; injection H as <-. exists r. split; assumption.
  - intros H. exists x. split; [exact H|reflexivity].
Qed.
Lemma hrel_del_rec h c : hrel h (del_rec h c).
Proof.
  split; [reflexivity|]. intros k x. cbn [del_rec h_recs]. rewrite zlookup_zremove. destruct (Z.eqb k c); [discriminate|].
  intros H. exists x. split; [exact H|reflexivity].
Qed.
Lemma hrel_HOK ls h h' : hrel h h' -> HOK ls h -> HOK ls h'.
Proof. intros [_ R] H c r' L. destruct (R c r' L) as [r [L0 E]]. apply (from_script_addr4 ls c r r' E), (H c r L0). Qed.

(* set_handler replaces the handlers of that source channel *)
Lemma set_handler_GInv ls s h : GInv ls s -> HOK ls h -> forall h', In h' (set_handler s h) -> HOK ls h'.
Proof.
  intros [A _] Hh h' Hin. unfold set_handler in Hin. apply in_map_iff in Hin. destruct Hin as [x [E Hx]].
  destruct (String.eqb (h_src x) (h_src h)); subst h'; [exact Hh|apply A, Hx].
Qed.

(* ---- the content phase ---- *)
Lemma part_lookup_shape retries a c r pid name res a' r' :
  part_lookup retries a c r pid name = (res, a', r') ->
  handlers (a_st a') = handlers (a_st a) /\ wsh (a_st a') = wsh (a_st a) /\ addr4 r' = addr4 r /\ (a_h a' = a_h a \/ a_h a' = set_rec (a_h a) c r').
Proof.
  unfold part_lookup. destruct (alookup _ name); [intros H; injection H as _ <- <-; repeat split; left; reflexivity|].
  destruct (refresh retries (a_ans a) name _) as [[res0 rest] newmap].
  destruct newmap; intros H; injection H as _ <- <-; cbn; repeat split; right; reflexivity.
Qed.
Lemma import_lookup_shape retries a c r count res a' r' :
  import_lookup retries a c r count = (res, a', r') ->
  handlers (a_st a') = handlers (a_st a) /\ wsh (a_st a') = wsh (a_st a) /\ addr4 r' = addr4 r /\ (a_h a' = a_h a \/ a_h a' = set_rec (a_h a) c r').
Proof.
  unfold import_lookup. destruct (Nat.eqb _ count); [intros H; injection H as _ <- <-; repeat split; left; reflexivity|].
  destruct (refresh_count retries (a_ans a) count _) as [[ok rest] newmap].
  destruct newmap; intros H; injection H as _ <- <-; cbn; repeat split; right; reflexivity.
Qed.
Lemma append_h a r e : a_h (append a r e) = a_h a.
Proof. unfold append. destruct (negb _); [reflexivity|]. destruct (a_fwd a); reflexivity. Qed.

Lemma set_handler_hs s s' h : handlers s' = handlers s -> set_handler s' h = set_handler s h.
Proof. intros E. unfold set_handler. rewrite E. reflexivity. Qed.
Lemma remove_part_addr4 hp r name id l t1 : remove_part hp r name id = (l, t1) -> addr4 t1 = addr4 r.
Proof. unfold remove_part. intros H. injection H as _ <-. reflexivity. Qed.
Lemma hrel_set_rec2 h c r r1 r2 : zlookup (h_recs h) c = Some r -> addr4 r1 = addr4 r -> addr4 r2 = addr4 r -> hrel h (set_rec (set_rec h c r1) c r2).
Proof.
  intros L E1 E2. eapply hrel_trans; [apply (hrel_set_rec h c r r1 L E1)|].
  eapply hrel_set_rec; [cbn [set_rec h_recs]; rewrite zlookup_zupsert, Z.eqb_refl; reflexivity|congruence].
Qed.

(* what one message does to the accumulator's handler and to the handler list of the state *)
Definition ashape (a : acc) (res : cres) : Prop :=
  match res with
  | COk a' => handlers (a_st a') = handlers (a_st a) /\ wsh (a_st a') = wsh (a_st a) /\ hrel (a_h a) (a_h a')
  | CErr s => wsh s = wsh (a_st a) /\ (handlers s = handlers (a_st a) \/ exists h', hrel (a_h a) h' /\ handlers s = set_handler (a_st a) h')
  end.

Lemma one_msg_shape retries a m : ashape a (one_msg retries a m).
Proof.
  unfold one_msg, ashape.
  repeat dm; cbn [a_st a_h handlers wsh upd_state] in *; rewrite ?append_frame, ?append_h; cbn [a_st a_h handlers wsh upd_state] in *.
  all: repeat match goal with
       | H : part_lookup _ _ _ _ _ _ = _ |- _ => apply part_lookup_shape in H; destruct H as (? & ? & ? & [?|?])
       | H : import_lookup _ _ _ _ _ = _ |- _ => apply import_lookup_shape in H; destruct H as (? & ? & ? & [?|?])
       | H : remove_part _ _ _ _ = _ |- _ => apply remove_part_addr4 in H
       end.
  all: cbn [a_st a_h handlers wsh upd_state] in *.
  all: try (repeat split; try congruence; try apply hrel_refl; fail).
  all: try (split; [congruence|left; congruence]; fail).
  all: repeat match goal with H : a_h ?x = _ |- _ => rewrite H in * end.
  all: try (split; [congruence|right; eexists; split; [|apply set_handler_hs; assumption];
            first [apply hrel_refl | eapply hrel_set_rec; [eassumption|congruence]]]; fail).
  all: try (repeat split; try congruence;
            first [ apply hrel_refl | apply hrel_del_rec | eapply hrel_set_rec; [eassumption|congruence]
                  | eapply hrel_set_rec2; [eassumption|congruence|congruence] ]; fail).
  all: split; [reflexivity|right; exists (a_h a); split; [apply hrel_refl|reflexivity]].
Qed.

Lemma ashape_trans a a1 res : ashape a (COk a1) -> ashape a1 res -> ashape a res.
Proof.
  intros (H1 & W1 & R1). destruct res as [s|a2]; cbn [ashape].
  - intros (W2 & D). split; [congruence|]. destruct D as [E|[h' [R2 E]]].
    + left. congruence.
    + right. exists h'. split; [eapply hrel_trans; eassumption|]. rewrite E. apply set_handler_hs. exact H1.
  - intros (H2 & W2 & R2). split; [congruence|]. split; [congruence|]. eapply hrel_trans; eassumption.
Qed.

Lemma all_msgs_shape retries : forall l a, ashape a (all_msgs retries a l).
Proof.
  induction l as [|m r IH]; intros a; cbn [all_msgs]; [cbn; repeat split; apply hrel_refl|].
  pose proof (one_msg_shape retries a m) as F. destruct (one_msg retries a m) as [s|a1]; [exact F|].
  apply (ashape_trans a a1); [exact F|apply IH].
Qed.

(* ---- every label keeps the invariant ---- *)
Lemma fold_GInv {A} ls (f : st -> A -> st) : (forall s x, GInv ls s -> GInv ls (f s x)) -> forall l s, GInv ls s -> GInv ls (fold_left f l s).
Proof. intros H l. induction l as [|x l IH]; intros s G; cbn [fold_left]; [exact G|]. apply IH, H, G. Qed.

Lemma fire_GInv ls s : GInv ls s -> GInv ls (fire_pbars (fire_cbars s)).
Proof.
  intros G. unfold fire_pbars.
  apply (fold_GInv ls (fun s pb => let '((c, p), b) := pb in if negb (b_done b) && Nat.leb (b_dest b) (b_got b) then _ else s)).
  - intros s0 [[c p] b] G0. destruct (_ && _); [|exact G0]. apply (GInv_ext ls s0); [reflexivity|reflexivity|exact G0].
  - unfold fire_cbars. apply fold_GInv; [|exact G]. intros s0 [c b] [A B]. destruct (_ && _); [|split; assumption].
    split; cbn [handlers wsh]; [|exact B]. intros h Hh. apply in_map_iff in Hh. destruct Hh as [x [E Hx]].
    destruct (existsb _ _); subst h; [apply (hrel_HOK ls x), A, Hx; apply hrel_del_rec|apply A, Hx].
Qed.

Lemma start_handler_GInv ls s src tgt recs z : GInv ls s -> (forall c r, zlookup recs c = Some r -> from_script ls c r) -> GInv ls (start_handler s src tgt recs z).
Proof.
  intros [A B] R. split; cbn [start_handler handlers wsh]; [|exact B]. intros h Hh. apply in_app_iff in Hh.
  destruct Hh as [Hh|[<-|[]]]; [apply A, Hh|]. exact R.
Qed.

Lemma add_shard_GInv ls s c ref sh shs : In (StartColl c) ls -> pairing c = Some shs -> In sh shs -> GInv ls s -> GInv ls (add_shard s c ref sh).
Proof.
  intros Hl Hp Hs [A B]. unfold add_shard.
  set (r := {| t_tcoll := ci_tid c; t_name := ci_name c; t_tvch := sh_tvch sh; t_tpch := sh_tpch sh; t_parts := ref;
               t_dropped := ci_dropped c; t_dropping := []; t_barw := false; t_pbars := [] |}).
  assert (Fr : from_script ls (ci_id c) r) by (exists c, shs, sh; repeat split; assumption).
  destruct (hlookup s _) as [h|] eqn:Hh.
  - split; cbn [handlers wsh]; [|exact B]. intros h' Hin. apply (set_handler_GInv ls s (set_rec h (ci_id c) r)); [split; assumption| |exact Hin].
    intros k x. cbn [set_rec h_recs]. rewrite zlookup_zupsert. destruct (Z.eqb_spec k (ci_id c)) as [->|N]; [intros E; injection E as <-; exact Fr|].
    unfold hlookup in Hh. apply find_some in Hh. destruct Hh as [Hin' _]. apply (A h Hin').
  - destruct (Manager.has_handler _ _).
    + split; cbn [with_mg handlers wsh]; [exact A|]. intros w Hw. apply in_app_iff in Hw. destruct Hw as [Hw|[<-|[]]]; [apply B, Hw|exact Fr].
    + destruct (alookup _ _).
      * apply start_handler_GInv; [split; cbn [handlers wsh]; assumption|].
        intros k x. cbn [zlookup]. destruct (Z.eqb_spec k (ci_id c)) as [->|N]; [intros E; injection E as <-; exact Fr|discriminate].
      * split; cbn [with_mg handlers wsh]; [exact A|]. intros w Hw. apply in_app_iff in Hw. destruct Hw as [Hw|[<-|[]]]; [apply B, Hw|exact Fr].
Qed.

Lemma fold_zupsert_from ls (mine : list wshard) : (forall w, In w mine -> from_script ls (ws_coll w) (ws_rec w)) ->
  forall acc, (forall c r, zlookup acc c = Some r -> from_script ls c r) ->
  forall c r, zlookup (fold_left (fun l w => zupsert l (ws_coll w) (ws_rec w)) mine acc) c = Some r -> from_script ls c r.
Proof.
  induction mine as [|w ws IH]; intros Hm acc Ha c r; cbn [fold_left]; [apply Ha|].
  apply IH; [intros w' Hw'; apply Hm; right; exact Hw'|]. intros k x. rewrite zlookup_zupsert. destruct (Z.eqb_spec k (ws_coll w)) as [->|N]; [|apply Ha].
  intros E; injection E as <-. apply Hm. left. reflexivity.
Qed.

Lemma settle_GInv ls s : GInv ls s -> GInv ls (settle s).
Proof.
  intros G. unfold settle, materialise. apply fold_GInv; [|apply (GInv_ext ls s); [reflexivity|reflexivity|exact G]].
  intros s0 k [A B]. destruct (alookup _ _); [|split; assumption]. destruct (Manager.find_handler _ _) as [mh|]; [|split; assumption].
  set (mine := filter (fun w => String.eqb (ws_key w) k) (wsh s0)).
  assert (G1 : GInv ls (start_handler s0 k (Manager.h_tgt mh) (fold_left (fun l w => zupsert l (ws_coll w) (ws_rec w)) mine [])
                                    (match mine with w :: _ => ws_seek w | [] => 0%N end))).
  { apply start_handler_GInv; [split; assumption|]. apply fold_zupsert_from; [|intros c r; discriminate].
    intros w Hw. apply filter_In in Hw. apply B, Hw. }
  match goal with |- GInv ls (with_mg ?s2 _ ?rest) => assert (G2 : GInv ls s2) end.
  { apply (fold_GInv ls (fun s w => set_clock s (Manager.h_tgt mh) (collect (clock_of s (Manager.h_tgt mh)) (ws_seek w)))); [|exact G1].
    intros sx wx Gx. apply (GInv_ext ls sx); [reflexivity|reflexivity|exact Gx]. }
  destruct G2 as [A2 B2]. split; cbn [with_mg handlers wsh]; [exact A2|].
  intros w Hw. apply filter_In in Hw. destruct Hw as [Hw _]. apply B. exact Hw.
Qed.

Lemma step_GInv retries ls s l : GInv ls s -> GInv (ls ++ [l]) (step retries s l).
Proof.
  intros G0. pose proof (GInv_mono ls [l] s G0) as G. clear G0. unfold step.
  match goal with |- GInv _ (forget_fired ?l0 ?b0 ?y) => pose proof (forget_fired_frame l0 b0 y) as FF; unfold same_but_heap in FF; apply (GInv_ext _ y); [apply FF|apply FF|] end.
  apply fire_GInv.
  destruct l as [c|c pid pname th pd|c cname spch p answers|cs|c spchs|ns nt].
  - (* StartColl *)
    destruct (zmem _ _); [exact G|]. destruct (zlookup _ _); [exact G|]. destruct (pairing c) as [shards|] eqn:Hp; [|exact G].
    apply settle_GInv.
    assert (K : forall ref l0 s0, (forall sh, In sh l0 -> In sh shards) -> GInv (ls ++ [StartColl c]) s0 ->
                GInv (ls ++ [StartColl c]) (fold_left (fun s1 sh => add_shard s1 c ref sh) l0 s0)).
    { intros ref. induction l0 as [|sh r IH]; intros s0 Hsub G1; cbn [fold_left]; [exact G1|]. apply IH; [intros x Hx; apply Hsub; right; exact Hx|].
      apply (add_shard_GInv _ _ _ _ _ shards); [apply in_or_app; right; left; reflexivity|exact Hp|apply Hsub; left; reflexivity|exact G1]. }
    apply K; [auto|]. apply (GInv_ext _ s); [reflexivity|reflexivity|exact G].
  - (* AddPart *)
    assert (Same : forall s', wsh s' = wsh s -> handlers s' = handlers s -> GInv (ls ++ [AddPart c pid pname th pd]) s').
    { intros s' W H. apply (GInv_ext _ s); assumption. }
    repeat match goal with |- GInv _ ?t => match t with match ?x with _ => _ end => destruct x eqn:? end end; try (apply Same; reflexivity).
    destruct G as [A B]. split; cbn [handlers wsh]; [|exact B].
    intros hx' Hhx'. apply in_map_iff in Hhx'. destruct Hhx' as [hx [Ex Hhx]]. subst hx'.
    destruct (zlookup (h_recs hx) c) as [r|] eqn:Lr; [|apply A, Hhx]. destruct (t_dropped r); [apply A, Hhx|].
    destruct (zlookup (t_pbars r) pid); [apply A, Hhx|]. apply (hrel_HOK _ hx); [|apply A, Hhx]. eapply hrel_set_rec; [exact Lr|reflexivity].
  - (* Feed *)
    destruct (hlookup s spch) as [h|] eqn:Hh; [|exact G].
    assert (Hin : In h (handlers s)) by (unfold hlookup in Hh; apply find_some in Hh; apply Hh).
    destruct G as [A B].
    match goal with |- context [all_msgs retries ?a0 ?l] => pose proof (all_msgs_shape retries l a0) as Sh; destruct (all_msgs retries a0 l) as [s1|a] end.
    + cbn [ashape a_st a_h handlers wsh set_clock] in Sh. destruct Sh as (W & [E|[h' [R E]]]).
      * split; cbn [handlers wsh]; [rewrite E; exact A|rewrite W; exact B].
      * split; cbn [handlers wsh]; [|rewrite W; exact B]. rewrite E. intros x Hx. unfold set_handler in Hx. cbn [handlers set_clock] in Hx.
        apply in_map_iff in Hx. destruct Hx as [y [Ey Hy]]. destruct (String.eqb (h_src y) (h_src h')); subst x; [apply (hrel_HOK _ h h' R), A, Hin|apply A, Hy].
    + cbn [ashape a_st a_h handlers wsh set_clock] in Sh. destruct Sh as (H1 & W & R).
      assert (G1 : GInv (ls ++ [Feed c cname spch p answers])
                     {| dcolls := dcolls (a_st a); dparts := dparts (a_st a); handlers := set_handler (a_st a) (a_h a); clocks := clocks (a_st a); heap := heap (a_st a);
                        cbars := cbars (a_st a); pbars := pbars (a_st a); pbar_handlers := pbar_handlers (a_st a); keymap := keymap (a_st a); out := out (a_st a);
                        events := events (a_st a); alive := alive (a_st a); mg := mg (a_st a); wsh := wsh (a_st a) |}).
      { split; cbn [handlers wsh]; [|rewrite W; exact B]. intros x Hx. unfold set_handler in Hx. rewrite H1 in Hx.
        apply in_map_iff in Hx. destruct Hx as [y [Ey Hy]]. destruct (String.eqb (h_src y) (h_src (a_h a))); subst x; [apply (hrel_HOK _ h (a_h a) R), A, Hin|apply A, Hy]. }
      assert (Emit : forall s0 ch lab b e msgs need, GInv (ls ++ [Feed c cname spch p answers]) s0 -> GInv (ls ++ [Feed c cname spch p answers]) (emit s0 ch lab b e msgs need)).
      { intros s0 ch lab b e msgs need G0. apply (GInv_ext _ s0); [| |exact G0]; unfold emit; destruct lab as [[lc ln] lsp]; repeat dm; reflexivity. }
      destruct (a_fwd a).
      * match goal with |- context [find ?f ?l] => destruct (find f l) end.
        -- apply Emit. apply (GInv_ext _ _ _ eq_refl eq_refl G1).
        -- apply (GInv_ext _ _ _ eq_refl eq_refl G1).
      * apply Emit. exact G1.
  - apply (GInv_ext _ s); [reflexivity|reflexivity|exact G].
  - destruct G as [A B]. split; cbn [handlers wsh]; [|exact B]. intros h Hh. apply in_map_iff in Hh. destruct Hh as [x [E Hx]].
    destruct (_ && _); subst h; [apply (hrel_HOK _ x), A, Hx; apply hrel_del_rec|apply A, Hx].
  - destruct (handlers s) eqn:E1; [|exact G]. destruct (wsh s) eqn:E2; [|exact G]. destruct (Manager.g_hs (mg s)); [|exact G].
    split; cbn [with_mg handlers wsh]; [rewrite E1; intros h []|intros w []].
Qed.

Lemma records_from_pairing retries ls : GInv ls (run retries ls).
Proof.
  unfold run. assert (H : forall l pre s, GInv pre s -> GInv (pre ++ l) (fold_left (step retries) l s)).
  { induction l as [|x r IH]; intros pre s G; cbn [fold_left]; [rewrite app_nil_r; exact G|].
    replace (pre ++ x :: r)%list with ((pre ++ [x]) ++ r)%list by (rewrite <- app_assoc; reflexivity). apply IH, step_GInv, G. }
  apply (H ls [] init). split; cbn; intros ? [].
Qed.
