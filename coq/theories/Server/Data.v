(* Server data path — model of MetaCDC.startReplicateDMLMsg (one consumer per downstream channel with its
   write batcher), the checkpoint writes of replicateMsgsFunc, startReplicateAPIEvent for drop / error events,
   pause / resume and crash + restart, composed with a *feeder*: per replicated stream (task, collection,
   source channel) the source is a fixed list of packs, and the reader of an incarnation hands them over in
   order starting right after the stream's persisted checkpoint (the MQ seek contract "everything after the
   message id"; its time filter is discussed in DESIGN.md, finding C05-resume-filter).
   Runtime choices are label fields: which write of a flush fails, whether the first checkpoint write of a
   flush fails.  Used by C05 and C06. *)
From Coq Require Import List String NArith ZArith Bool.
From Verif Require Import Base.Util.
Import ListNotations.
Local Open Scope string_scope.

Record stream := { s_task : string; s_coll : Z; s_name : string; s_pch : string; s_ch : string; s_len : nat }.
(* pack i of stream k: end message id = i + 1; end time (ms) = 1000 * (k+1) + i *)
Definition pk_id (i : nat) : N := N.of_nat (S i).
Definition pk_ms (k i : nat) : Z := (1000 * Z.of_nat (S k) + Z.of_nat i)%Z.

Record pos := { ps_id : N; ps_ms : Z; ps_dropped : bool }.
Record cons := { c_alive : bool; c_buf : list (nat * nat) }.            (* buffered (stream, index) *)
Record st := {
  running : list (string * bool);                 (* task -> running? (memory = store, see C11) *)
  store : list (nat * pos);                        (* stream -> checkpoint of its (task, collection, channel) *)
  conss : list (string * cons);                    (* downstream channel -> consumer *)
  acks : list (string * nat * nat);                (* downstream channel, stream, index: acknowledged writes in order *)
  next : list (nat * nat);                         (* stream -> index of the next pack the reader hands over *)
  evloop : bool;                                   (* the entity's event loop is still serving *)
  wfails : list (nat * nat);                       (* refused writes so far: stream, index *)
  pfails : list nat;                               (* refused checkpoint writes so far: stream *)
  seeks : list (nat * (N * Z));                    (* seek positions handed to the reader at (re)starts: stream, message id, time filter *)
}.

Inductive label :=
| Feed (k : nat) (big : bool) (wfail : option nat) (pfail : bool)   (* the reader hands over the next pack of stream k; big = larger than the packer's MaxMsgSize *)
| EvDrop (k : nat) (fail : bool)                        (* drop-collection event of stream k's collection; downstream fails? *)
| EvError (task : string)                               (* error event naming a task ("" = none) *)
| ApiPause (task : string)
| ApiResume (task : string)
| Crash.                                                (* crash + restart + reload *)

Definition nlookup {A} (l : list (nat * A)) (k : nat) : option A :=
  match find (fun p => Nat.eqb (fst p) k) l with Some p => Some (snd p) | None => None end.
Fixpoint nupsert {A} (l : list (nat * A)) (k : nat) (v : A) : list (nat * A) :=
  match l with
  | [] => [(k, v)]
  | (k', v') :: r => if Nat.eqb k k' then (k, v) :: r else (k', v') :: nupsert r k v
  end.

Definition is_running (s : st) (t : string) : bool := match alookup (running s) t with Some b => b | None => false end.
Definition cursor (s : st) (k : nat) : nat :=            (* index of the next pack after the checkpoint *)
  match nlookup (store s) k with Some p => N.to_nat (ps_id p) | None => 0 end.
Definition next_of (s : st) (k : nat) : nat := match nlookup (next s) k with Some n => n | None => 0 end.
Definition cons_of (s : st) (ch : string) : cons := match alookup (conss s) ch with Some c => c | None => {| c_alive := false; c_buf := [] |} end.

Definition set_running (s : st) (t : string) (b : bool) : st :=
  {| running := aupsert (running s) t b; store := store s; conss := conss s; acks := acks s; next := next s; evloop := evloop s; wfails := wfails s; pfails := pfails s; seeks := seeks s |}.
Definition set_cons (s : st) (ch : string) (c : cons) : st :=
  {| running := running s; store := store s; conss := aupsert (conss s) ch c; acks := acks s; next := next s; evloop := evloop s; wfails := wfails s; pfails := pfails s; seeks := seeks s |}.

(* UpdateTaskCollectionPosition: an entry marked dropped is not overwritten *)
Definition put_pos (s : st) (k i : nat) : st :=
  match nlookup (store s) k with
  | Some p => if ps_dropped p then s
              else {| running := running s; store := nupsert (store s) k {| ps_id := pk_id i; ps_ms := pk_ms k i; ps_dropped := false |};
                      conss := conss s; acks := acks s; next := next s; evloop := evloop s; wfails := wfails s; pfails := pfails s; seeks := seeks s |}
  | None => {| running := running s; store := nupsert (store s) k {| ps_id := pk_id i; ps_ms := pk_ms k i; ps_dropped := false |};
               conss := conss s; acks := acks s; next := next s; evloop := evloop s; wfails := wfails s; pfails := pfails s; seeks := seeks s |}
  end.

(* last buffered index per stream, in first-occurrence order of the streams *)
Fixpoint last_per_stream (b : list (nat * nat)) (acc : list (nat * nat)) : list (nat * nat) :=
  match b with
  | [] => acc
  | (k, i) :: r => last_per_stream r (nupsert acc k i)
  end.

(* replicateMsgsFunc on a batch: write the packs in order (the wfail-th write fails: its task is paused and
   nothing is persisted), then one checkpoint per stream (the first put fails when pfail: its task is paused;
   the harness arms this only when the batch holds one stream).  Returns (state, error?) *)
Fixpoint write_all (streams : list stream) (s : st) (ch : string) (b : list (nat * nat)) (n : nat) (wfail : option nat) : st * bool :=
  match b with
  | [] => (s, false)
  | (k, i) :: r =>
      if match wfail with Some m => Nat.eqb m n | None => false end
      then (let s' := {| running := running s; store := store s; conss := conss s; acks := acks s; next := next s; evloop := evloop s;
                         wfails := (wfails s ++ [(k, i)])%list; pfails := pfails s; seeks := seeks s |} in
            match nth_error streams k with Some sm => set_running s' (s_task sm) false | None => s' end, true)
      else write_all streams
             {| running := running s; store := store s; conss := conss s; acks := (acks s ++ [(ch, k, i)])%list; next := next s; evloop := evloop s; wfails := wfails s; pfails := pfails s; seeks := seeks s |}
             ch r (S n) wfail
  end.

Definition flush (streams : list stream) (s : st) (ch : string) (b : list (nat * nat)) (wfail : option nat) (pfail : bool) : st * bool :=
  let '(s1, err) := write_all streams s ch b 1 wfail in
  if err then (s1, true)
  else match last_per_stream b [] with
       | [] => (s1, false)
       | (k, i) :: rest =>
           if pfail then (let s' := {| running := running s1; store := store s1; conss := conss s1; acks := acks s1; next := next s1; evloop := evloop s1;
                                       wfails := wfails s1; pfails := (pfails s1 ++ [k])%list; seeks := seeks s1 |} in
                          match nth_error streams k with Some sm => set_running s' (s_task sm) false | None => s' end, true)
           else (fold_left (fun s ki => put_pos s (fst ki) (snd ki)) ((k, i) :: rest) s1, false)
       end.

(* the consumer leaves its loop: the deferred ClearMsgs hands the rest of the buffer to the same function *)
Definition die (streams : list stream) (s : st) (ch : string) (wfail : option nat) (pfail : bool) : st :=
  let c := cons_of s ch in
  let s1 := fst (flush streams s ch (c_buf c) wfail pfail) in
  set_cons s1 ch {| c_alive := false; c_buf := [] |}.

(* when the last running task of the target stops, the entity is released: its context is cancelled, every
   consumer leaves its loop (flushing its buffer on the way out) and the event loop ends *)
Definition any_running (s : st) : bool := existsb snd (running s).
Definition release_if_idle (streams : list stream) (s : st) : st :=
  if any_running s then s
  else let s1 := fold_left (fun s cc => if c_alive (cons_of s (fst cc)) then die streams s (fst cc) None false else s) (conss s) s in
       {| running := running s1; store := store s1; conss := conss s1; acks := acks s1; next := next s1; evloop := false; wfails := wfails s1; pfails := pfails s1; seeks := seeks s1 |}.
(* a fresh entity (injected by the harness when the old one was released): new consumers, new event loop *)
Definition fresh_entity (s : st) : st :=
  {| running := running s; store := store s;
     conss := map (fun cc => (fst cc, {| c_alive := true; c_buf := [] |})) (conss s);
     acks := acks s; next := next s; evloop := true; wfails := wfails s; pfails := pfails s; seeks := seeks s |}.

Definition compose_ts (ms : Z) : Z := (ms * 262144)%Z.               (* tsoutil.ComposeTS(ms, 0) *)
(* (re)start of the streams selected by [which]: the reader is positioned right after the checkpoint; the seek
   position handed to it is the checkpoint's message id with the time filter ComposeTS(Time+1, 0) *)
Definition reset_next (streams : list stream) (s : st) (which : stream -> bool) : st :=
  let sel := filter (fun ks => which (snd ks)) (combine (seq 0 (List.length streams)) streams) in
  {| running := running s; store := store s; conss := conss s; acks := acks s;
     next := fold_left (fun nx ks => nupsert nx (fst ks) (cursor s (fst ks))) sel (next s);
     evloop := evloop s; wfails := wfails s; pfails := pfails s;
     seeks := (seeks s ++ flat_map (fun ks => match nlookup (store s) (fst ks) with
                                              | Some p => [(fst ks, (ps_id p, compose_ts (ps_ms p + 1)))]
                                              | None => [] end) sel)%list |}.

Definition step (maxcount : nat) (streams : list stream) (s : st) (l : label) : st :=
  match l with
  | Feed k big wfail pfail =>
      match nth_error streams k with
      | None => s
      | Some sm =>
          let i := next_of s k in
          let c := cons_of s (s_ch sm) in
          if negb (c_alive c) || Nat.leb (s_len sm) i then s
          else
            let s0 := {| running := running s; store := store s; conss := conss s; acks := acks s;
                         next := nupsert (next s) k (S i); evloop := evloop s; wfails := wfails s; pfails := pfails s; seeks := seeks s |} in
            if negb (is_running s0 (s_task sm)) then release_if_idle streams (die streams s0 (s_ch sm) wfail pfail)
            else
              let b := (c_buf c ++ [(k, i)])%list in
              if big || Nat.leb maxcount (List.length b)   (* Packer.Receive: an oversized pack, or the count checker, flushes the whole buffer *)
              then let '(s1, err) := flush streams s0 (s_ch sm) b wfail pfail in
                   release_if_idle streams (set_cons s1 (s_ch sm) {| c_alive := negb err; c_buf := [] |})
              else set_cons s0 (s_ch sm) {| c_alive := true; c_buf := b |}
      end
  | EvDrop k fail =>
      match nth_error streams k with
      | None => s
      | Some sm =>
          if negb (evloop s) then s
          else if negb (is_running s (s_task sm))
          then {| running := running s; store := store s; conss := conss s; acks := acks s; next := next s; evloop := false; wfails := wfails s; pfails := pfails s; seeks := seeks s |}
          else if fail || negb (existsb (fun kp => match nth_error streams (fst kp) with
                                                   | Some sm' => String.eqb (s_task sm') (s_task sm) && Z.eqb (s_coll sm') (s_coll sm)
                                                   | None => false end) (store s))
          then (* the downstream refuses the drop, or there is no checkpoint record to mark: the task is paused *)
               let s1 := set_running s (s_task sm) false in
               release_if_idle streams
                 {| running := running s1; store := store s1; conss := conss s1; acks := acks s1; next := next s1; evloop := false; wfails := wfails s1; pfails := pfails s1; seeks := seeks s1 |}
          else (* every channel entry of the collection's record is frozen *)
               {| running := running s;
                  store := map (fun kp => match nth_error streams (fst kp) with
                                          | Some sm' => if String.eqb (s_task sm') (s_task sm) && Z.eqb (s_coll sm') (s_coll sm)
                                                        then (fst kp, {| ps_id := ps_id (snd kp); ps_ms := ps_ms (snd kp); ps_dropped := true |})
                                                        else kp
                                          | None => kp end) (store s);
                  conss := conss s; acks := acks s; next := next s; evloop := evloop s; wfails := wfails s; pfails := pfails s; seeks := seeks s |}
      end
  | EvError task =>
      if negb (evloop s) then s
      else let s1 := match alookup (running s) task with Some _ => set_running s task false | None => s end in
           release_if_idle streams
             {| running := running s1; store := store s1; conss := conss s1; acks := acks s1; next := next s1; evloop := false; wfails := wfails s1; pfails := pfails s1; seeks := seeks s1 |}
  | ApiPause task =>
      match alookup (running s) task with
      | Some true => release_if_idle streams (set_running s task false)
      | _ => s
      end
  | ApiResume task =>
      match alookup (running s) task with
      | Some false =>
          let s0 := if any_running s then s else fresh_entity s in
          reset_next streams (set_running s0 task true) (fun sm => String.eqb (s_task sm) task)
      | _ => s
      end
  | Crash =>
      (* buffers and consumers are lost; every task is reloaded and started; the harness announces every channel again *)
      let s1 := {| running := map (fun tb => (fst tb, true)) (running s); store := store s;
                   conss := map (fun cc => (fst cc, {| c_alive := true; c_buf := [] |})) (conss s);
                   acks := acks s; next := next s; evloop := true; wfails := wfails s; pfails := pfails s; seeks := seeks s |} in
      reset_next streams s1 (fun _ => true)
  end.

Definition init (streams : list stream) : st :=
  {| running := fold_left (fun r sm => aupsert r (s_task sm) true) streams [];
     store := [];
     conss := fold_left (fun r sm => aupsert r (s_ch sm) {| c_alive := true; c_buf := [] |}) streams [];
     acks := []; next := []; evloop := true; wfails := []; pfails := []; seeks := [] |}.

Definition run (maxcount : nat) (streams : list stream) (ls : list label) : st := fold_left (step maxcount streams) ls (init streams).

(* ---- observation after every label ---- *)
Record obs := { o_acks : list (string * nat * nat);                 (* all acknowledged writes so far, in order *)
                o_store : list (nat * (N * Z * bool));               (* checkpoint per stream *)
                o_running : list (string * bool);
                o_alive : list (string * bool);
                o_evloop : bool;
                o_wfails : list (nat * nat); o_pfails : list nat; o_seeks : list (nat * (N * Z)) }.
Record case := { c_max : nat; c_streams : list stream; c_labels : list label; c_obs : list obs }.

Definition observe (s : st) : obs :=
  {| o_acks := acks s;
     o_store := map (fun kp => (fst kp, (ps_id (snd kp), ps_ms (snd kp), ps_dropped (snd kp)))) (store s);
     o_running := running s;
     o_alive := map (fun cc => (fst cc, c_alive (snd cc))) (conss s);
     o_evloop := evloop s; o_wfails := wfails s; o_pfails := pfails s; o_seeks := seeks s |}.

Fixpoint run_obs (maxcount : nat) (streams : list stream) (s : st) (ls : list label) : list obs :=
  match ls with
  | [] => []
  | l :: r => let s1 := step maxcount streams s l in observe s1 :: run_obs maxcount streams s1 r
  end.

Definition ack_eqb (a b : string * nat * nat) : bool :=
  String.eqb (fst (fst a)) (fst (fst b)) && Nat.eqb (snd (fst a)) (snd (fst b)) && Nat.eqb (snd a) (snd b).
Definition sto_eqb (a b : nat * (N * Z * bool)) : bool :=
  Nat.eqb (fst a) (fst b) && N.eqb (fst (fst (snd a))) (fst (fst (snd b))) && Z.eqb (snd (fst (snd a))) (snd (fst (snd b)))
  && Bool.eqb (snd (snd a)) (snd (snd b)).
Definition sb_eqb (a b : string * bool) : bool := String.eqb (fst a) (fst b) && Bool.eqb (snd a) (snd b).
Definition set_eqb {A} (eqb : A -> A -> bool) (a b : list A) : bool :=
  Nat.eqb (List.length a) (List.length b) && forallb (fun x => existsb (eqb x) b) a.
(* acknowledgements of different channels interleave freely; per channel the order is fixed *)
Definition acks_of (ch : string) (l : list (string * nat * nat)) := filter (fun a => String.eqb (fst (fst a)) ch) l.
Definition obs_eqb (chs : list string) (a b : obs) : bool :=
  forallb (fun ch => list_eqb ack_eqb (acks_of ch (o_acks a)) (acks_of ch (o_acks b))) chs
  && Nat.eqb (List.length (o_acks a)) (List.length (o_acks b))
  && set_eqb sto_eqb (o_store a) (o_store b) && set_eqb sb_eqb (o_running a) (o_running b)
  && set_eqb sb_eqb (o_alive a) (o_alive b) && Bool.eqb (o_evloop a) (o_evloop b)
  && list_eqb (pair_eqb Nat.eqb Nat.eqb) (o_wfails a) (o_wfails b) && list_eqb Nat.eqb (o_pfails a) (o_pfails b)
  && set_eqb (pair_eqb Nat.eqb (pair_eqb N.eqb Z.eqb)) (o_seeks a) (o_seeks b).

Definition channels (streams : list stream) : list string := map s_ch streams.
Definition agrees (c : case) : bool :=
  list_eqb (obs_eqb (channels (c_streams c))) (run_obs (c_max c) (c_streams c) (init (c_streams c)) (c_labels c)) (c_obs c).
