(* Server data path — one-step facts about the batch write (flush), the checkpoint write and the restart *)
From Coq Require Import List String NArith ZArith Bool Arith Lia.
From Verif Require Import Base.Util Server.Data.
Import ListNotations.
Local Open Scope string_scope.

Lemma alookup_aupsert_same {A} (l : list (string * A)) k (v : A) : alookup (aupsert l k v) k = Some v.
Proof.
  induction l as [|[a b] r IH]; cbn; [rewrite String.eqb_refl; reflexivity|].
  destruct (String.eqb_spec k a); cbn.
  - rewrite String.eqb_refl; reflexivity.
  - destruct (String.eqb_spec k a); [congruence|exact IH].
Qed.
Lemma alookup_aupsert_other {A} (l : list (string * A)) k k' (v : A) : k <> k' -> alookup (aupsert l k v) k' = alookup l k'.
Proof.
  intros Hk; induction l as [|[a b] r IH]; cbn.
  - destruct (String.eqb_spec k' k); congruence.
  - destruct (String.eqb_spec k a); cbn.
    + subst a. destruct (String.eqb_spec k' k); congruence.
    + destruct (String.eqb_spec k' a); [reflexivity|exact IH].
Qed.

Lemma is_running_set_same s t b : is_running (set_running s t b) t = b.
Proof. unfold is_running, set_running; cbn [running]. rewrite alookup_aupsert_same; reflexivity. Qed.
Lemma is_running_set_other s t b t' : t <> t' -> is_running (set_running s t b) t' = is_running s t'.
Proof. intros N. unfold is_running, set_running; cbn [running]. rewrite alookup_aupsert_other by exact N; reflexivity. Qed.

Definition task_at (streams : list stream) (k : nat) : option string := option_map s_task (nth_error streams k).

(* ---- write_all ---- *)
Lemma write_all_store streams ch : forall b s n wfail, store (fst (write_all streams s ch b n wfail)) = store s.
Proof.
  induction b as [|[k i] r IH]; intros s n wfail; cbn [write_all]; [reflexivity|].
  destruct (match wfail with Some m => Nat.eqb m n | None => false end).
  - cbn [fst]. destruct (nth_error streams k); reflexivity.
  - rewrite IH. reflexivity.
Qed.

Lemma write_all_acks streams ch : forall b s n wfail,
  exists m, acks (fst (write_all streams s ch b n wfail)) = (acks s ++ map (fun ki => (ch, fst ki, snd ki)) (firstn m b))%list
            /\ (snd (write_all streams s ch b n wfail) = false -> m = List.length b)
            /\ (snd (write_all streams s ch b n wfail) = true -> m < List.length b /\ wfail = Some (n + m)).
Proof.
  induction b as [|[k i] r IH]; intros s n wfail; cbn [write_all].
  - exists 0. cbn. rewrite app_nil_r. repeat split; auto; discriminate.
  - destruct (match wfail with Some m => Nat.eqb m n | None => false end) eqn:E.
    + exists 0. cbn [fst snd firstn map]. rewrite app_nil_r. split; [destruct (nth_error streams k); reflexivity|].
      split; [discriminate|]. intros _. split; [cbn; lia|]. destruct wfail as [m|]; [|discriminate].
      apply Nat.eqb_eq in E; subst; f_equal; lia.
    + match goal with |- context [write_all streams ?s' ch r (S n) wfail] => destruct (IH s' (S n) wfail) as [m [A [OK KO]]] end.
      exists (S m). split; [rewrite A; cbn [acks firstn map]; rewrite <- app_assoc; reflexivity|].
      split; [intros H; cbn; f_equal; apply OK; exact H|].
      intros H. destruct (KO H) as [L W]. split; [cbn; lia|]. rewrite W; f_equal; lia.
Qed.

Lemma write_all_ok streams ch : forall b s n wfail,
  snd (write_all streams s ch b n wfail) = false ->
  running (fst (write_all streams s ch b n wfail)) = running s /\ wfails (fst (write_all streams s ch b n wfail)) = wfails s.
Proof.
  induction b as [|[k i] r IH]; intros s n wfail; cbn [write_all]; [auto|].
  destruct (match wfail with Some m => Nat.eqb m n | None => false end); [discriminate|].
  intros H. destruct (IH _ _ _ H) as [A B]. split; [rewrite A|rewrite B]; reflexivity.
Qed.

(* a refused write: the owner of that pack is paused, every other task keeps its state, the refusal is recorded *)
Lemma write_all_fail streams ch : forall b s n wfail,
  snd (write_all streams s ch b n wfail) = true ->
  exists m k i, nth_error b m = Some (k, i) /\ wfail = Some (n + m)
    /\ wfails (fst (write_all streams s ch b n wfail)) = (wfails s ++ [(k, i)])%list
    /\ (forall t, task_at streams k = Some t -> is_running (fst (write_all streams s ch b n wfail)) t = false)
    /\ (forall t, task_at streams k <> Some t -> is_running (fst (write_all streams s ch b n wfail)) t = is_running s t).
Proof.
  induction b as [|[k i] r IH]; intros s n wfail; cbn [write_all]; [discriminate|].
  destruct (match wfail with Some m => Nat.eqb m n | None => false end) eqn:E.
  - intros _. exists 0, k, i. cbn [fst nth_error]. split; [reflexivity|].
    split; [destruct wfail as [m|]; [apply Nat.eqb_eq in E; subst; f_equal; lia|discriminate]|].
    unfold task_at. destruct (nth_error streams k) as [sm|]; cbn [option_map].
    + split; [reflexivity|]. split.
      * intros t H; injection H as <-. apply is_running_set_same.
      * intros t H. rewrite is_running_set_other by congruence. reflexivity.
    + split; [reflexivity|]. split; [discriminate|reflexivity].
  - intros H. destruct (IH _ _ _ H) as [m [k' [i' [N [W [Wf [R1 R2]]]]]]].
    exists (S m), k', i'. split; [exact N|]. split; [rewrite W; f_equal; lia|]. split; [exact Wf|]. split; [exact R1|exact R2].
Qed.

(* ---- flush ---- *)
(* a failed or unacknowledged write, or a failed checkpoint write, never advances any checkpoint *)
Lemma flush_error_store streams s ch b wfail pfail :
  snd (flush streams s ch b wfail pfail) = true -> store (fst (flush streams s ch b wfail pfail)) = store s.
Proof.
  unfold flush. pose proof (write_all_store streams ch b s 1 wfail) as St.
  destruct (write_all streams s ch b 1 wfail) as [s1 err]. cbn [fst snd] in *. destruct err; [intros _; exact St|].
  destruct (last_per_stream b []) as [|[k i] rest]; [discriminate|].
  destruct pfail; [|discriminate]. intros _. cbn [fst]. destruct (nth_error streams k); cbn; exact St.
Qed.

Lemma flush_ok_acks streams s ch b wfail pfail :
  snd (flush streams s ch b wfail pfail) = false ->
  forall k i, In (k, i) b -> In (ch, k, i) (acks (fst (flush streams s ch b wfail pfail))).
Proof.
  unfold flush. destruct (write_all_acks streams ch b s 1 wfail) as [m [A [OK _]]].
  destruct (write_all streams s ch b 1 wfail) as [s1 err]. cbn [fst snd] in *. destruct err; [discriminate|].
  specialize (OK eq_refl). subst m. rewrite firstn_all in A.
  assert (P : forall l s0, acks (fold_left (fun s ki => put_pos s (fst ki) (snd ki)) l s0) = acks s0).
  { induction l as [|x l IHl]; intros s0; cbn; [reflexivity|]. rewrite IHl. unfold put_pos.
    destruct (nlookup (store s0) (fst x)) as [p|]; [destruct (ps_dropped p)|]; reflexivity. }
  destruct (last_per_stream b []) as [|[k0 i0] rest].
  - intros _ k i Hin. cbn [fst]. rewrite A. apply in_or_app; right. apply (in_map (fun ki => (ch, fst ki, snd ki)) b (k, i) Hin).
  - destruct pfail; [discriminate|]. intros _ k i Hin. cbn [fst]. rewrite P, A. apply in_or_app; right.
    apply (in_map (fun ki => (ch, fst ki, snd ki)) b (k, i) Hin).
Qed.

(* the refused write of a flush: owner paused, others untouched, store untouched (C06) *)
Lemma flush_wfail streams s ch b n :
  n >= 1 -> n <= List.length b ->
  let r := flush streams s ch b (Some n) false in
  snd r = true /\ store (fst r) = store s
  /\ exists k i, nth_error b (n - 1) = Some (k, i)
       /\ wfails (fst r) = (wfails s ++ [(k, i)])%list
       /\ (forall t, task_at streams k = Some t -> is_running (fst r) t = false)
       /\ (forall t, task_at streams k <> Some t -> is_running (fst r) t = is_running s t)
       /\ acks (fst r) = (acks s ++ map (fun ki => (ch, fst ki, snd ki)) (firstn (n - 1) b))%list.
Proof.
  intros N1 N2. cbn zeta. unfold flush.
  destruct (write_all_acks streams ch b s 1 (Some n)) as [m [A [OK KO]]].
  pose proof (write_all_store streams ch b s 1 (Some n)) as St.
  pose proof (write_all_fail streams ch b s 1 (Some n)) as WF.
  destruct (write_all streams s ch b 1 (Some n)) as [s1 err] eqn:W. cbn [fst snd] in *.
  destruct err.
  - destruct (KO eq_refl) as [L E]. injection E as E. assert (m = n - 1) by lia. subst m.
    destruct (WF eq_refl) as [m' [k [i [Nth [E' [Wf [R1 R2]]]]]]]. injection E' as E'. assert (m' = n - 1) by lia. subst m'.
    split; [reflexivity|]. split; [exact St|]. exists k, i. repeat split; assumption.
  - exfalso. specialize (OK eq_refl). subst m.
    (* with n within the batch the n-th write is refused *)
    clear -W N1 N2. revert s W. assert (G : forall b s c, c >= 1 -> n >= c -> n < c + List.length b -> snd (write_all streams s ch b c (Some n)) = true).
    { induction b0 as [|[k i] r IH]; intros s0 c C1 C2 C3; cbn in *; [lia|].
      destruct (Nat.eqb_spec n c); [reflexivity|]. apply IH; lia. }
    intros s0 W. pose proof (G b s0 1 ltac:(lia) N1 ltac:(lia)) as X. rewrite W in X; discriminate.
Qed.

(* ---- checkpoint write ---- *)
Lemma put_pos_frozen s k i p : nlookup (store s) k = Some p -> ps_dropped p = true -> put_pos s k i = s.
Proof. intros H D. unfold put_pos. rewrite H, D. reflexivity. Qed.

(* ---- (re)start ---- *)
Lemma nlookup_nupsert_same {A} (l : list (nat * A)) k (v : A) : nlookup (nupsert l k v) k = Some v.
Proof.
  unfold nlookup. induction l as [|[a b] r IH]; cbn; [rewrite Nat.eqb_refl; reflexivity|].
  destruct (Nat.eqb_spec k a); cbn.
  - rewrite Nat.eqb_refl; reflexivity.
  - destruct (Nat.eqb_spec a k); [congruence|exact IH].
Qed.
Lemma nlookup_nupsert_other {A} (l : list (nat * A)) k k' (v : A) : k <> k' -> nlookup (nupsert l k v) k' = nlookup l k'.
Proof.
  intros Hk. unfold nlookup. induction l as [|[a b] r IH]; cbn.
  - destruct (Nat.eqb_spec k k'); congruence.
  - destruct (Nat.eqb_spec k a); cbn.
    + subst a. destruct (Nat.eqb_spec k k'); congruence.
    + destruct (Nat.eqb_spec a k'); [reflexivity|exact IH].
Qed.

(* every seek position handed over at a (re)start is the stored checkpoint with the filter ComposeTS(Time+1, 0),
   and nothing else in the state moves except the reader positions *)
Lemma reset_next_seeks streams s which :
  let s' := reset_next streams s which in
  store s' = store s /\ acks s' = acks s /\ running s' = running s
  /\ exists new, seeks s' = (seeks s ++ new)%list
       /\ forall k id ts, In (k, (id, ts)) new ->
            exists p, nlookup (store s) k = Some p /\ id = ps_id p /\ ts = compose_ts (ps_ms p + 1).
Proof.
  cbn zeta. unfold reset_next; cbn [store acks running seeks]. repeat split; try reflexivity.
  eexists; split; [reflexivity|]. intros k id ts Hin. apply in_flat_map in Hin. destruct Hin as [[k' sm] [Hsel Hx]].
  cbn [fst snd] in *. destruct (nlookup (store s) k') as [p|] eqn:L; [|destruct Hx]. destruct Hx as [E|[]]. injection E as <- <- <-.
  exists p. repeat split; try assumption; reflexivity.
Qed.

(* an error event pauses the task it names and nobody else; one that names no known task pauses nobody *)
Lemma error_event_spec : forall maxc streams s t t',
  evloop s = true -> t' <> t ->
  let s' := step maxc streams s (EvError t) in
  (alookup (running s) t <> None -> is_running s' t = false)
  /\ (any_running (match alookup (running s) t with Some _ => set_running s t false | None => s end) = true ->
      is_running s' t' = is_running s t').
Proof.
  intros maxc streams s t t' EL N. cbn zeta. cbn [step]. rewrite EL. cbn [negb].
  set (s1 := match alookup (running s) t with Some _ => set_running s t false | None => s end).
  split.
  - intros H. unfold release_if_idle. destruct (any_running _) eqn:AR.
    + cbn. unfold s1. destruct (alookup (running s) t); [apply is_running_set_same|congruence].
    + (* nobody runs any more: in particular not t *)
      cbn [any_running running] in AR. unfold is_running. cbn [running].
      (* the consumers' exit flush has no faults, so it pauses nobody and starts nobody *)
      assert (D : forall s0 ch, running (die streams s0 ch None false) = running s0).
      { intros s0 ch. unfold die, flush. pose proof (write_all_ok streams ch (c_buf (cons_of s0 ch)) s0 1 None) as OK.
        destruct (write_all streams s0 ch (c_buf (cons_of s0 ch)) 1 None) as [sx err] eqn:W. cbn [fst snd] in *.
        assert (err = false).
        { destruct err; [|reflexivity]. destruct (write_all_acks streams ch (c_buf (cons_of s0 ch)) s0 1 None) as [m [_ [_ KO]]].
          rewrite W in KO. destruct (KO eq_refl) as [_ X]. discriminate. }
        subst err. destruct (OK eq_refl) as [R _]. cbn [fst].
        assert (P : forall l sy, running (fold_left (fun s ki => put_pos s (fst ki) (snd ki)) l sy) = running sy).
        { induction l as [|x l IHl]; intros sy; cbn; [reflexivity|]. rewrite IHl. unfold put_pos.
          destruct (nlookup (store sy) (fst x)) as [p|]; [destruct (ps_dropped p)|]; reflexivity. }
        destruct (last_per_stream (c_buf (cons_of s0 ch)) []) as [|[k i] rest]; cbn [fst set_cons running]; [exact R|]. rewrite P. exact R. }
      assert (F : forall (l0 : list (string * cons)) s0, running (fold_left (fun s cc => if c_alive (cons_of s (fst cc)) then die streams s (fst cc) None false else s) l0 s0) = running s0).
      { induction l0 as [|x l0 IHl]; intros s0; cbn [fold_left]; [reflexivity|]. rewrite IHl. destruct (c_alive _); [apply D|reflexivity]. }
      rewrite F. cbn [running].
      unfold any_running in AR. cbn [running] in AR.
      destruct (alookup (running s1) t) as [b|] eqn:A; [|reflexivity].
      destruct b; [|reflexivity]. exfalso. rewrite <- not_true_iff_false in AR. apply AR. apply existsb_exists.
      clear -A. induction (running s1) as [|[a b] l IH]; cbn in *; [discriminate|].
      destruct (String.eqb_spec t a); [injection A as ->; exists (a, true); split; [left; reflexivity|reflexivity]|].
      destruct (IH A) as [x [Hx Tx]]. exists x; split; [right; exact Hx|exact Tx].
  - intros AR. unfold release_if_idle.
    replace (any_running {| running := running s1; store := store s1; conss := conss s1; acks := acks s1; next := next s1; evloop := false;
                            wfails := wfails s1; pfails := pfails s1; seeks := seeks s1 |}) with (any_running s1) by reflexivity.
    rewrite AR. unfold is_running; cbn [running]. unfold s1. destruct (alookup (running s) t); [|reflexivity].
    cbn [set_running running]. rewrite alookup_aupsert_other by congruence. reflexivity.
Qed.
