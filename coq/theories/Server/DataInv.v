(* Server data path — the history invariant of C05: at every instant of every history (batches, write and checkpoint
   failures, drops, pauses, resumes, crashes) every checkpoint names a pack that has been acknowledged together with every
   earlier pack of its stream *)
From Coq Require Import List String NArith ZArith Bool Arith Lia.
From Verif Require Import Base.Util Server.Data Server.DataProofs.
Import ListNotations.
Local Open Scope string_scope.

Definition acked (s : st) (k i : nat) : Prop := exists ch, In (ch, k, i) (acks s).
Definition acks_mono (s s' : st) : Prop := forall x, In x (acks s) -> In x (acks s').
Lemma acked_mono s s' k i : acks_mono s s' -> acked s k i -> acked s' k i.
Proof. intros M [ch H]. exists ch. apply M, H. Qed.
Lemma acks_mono_refl s : acks_mono s s. Proof. intros x H; exact H. Qed.
Lemma acks_mono_trans a b c : acks_mono a b -> acks_mono b c -> acks_mono a c.
Proof. intros H1 H2 x H. apply H2, H1, H. Qed.
Lemma acks_mono_eq s s' : acks s' = acks s -> acks_mono s s'.
Proof. intros E x H. rewrite E. exact H. Qed.

(* a buffer is prefix-closed relative to what is acknowledged: before pack i of a stream sits every earlier pack of that
   stream that is not acknowledged yet *)
Definition buf_ok (s : st) (b : list (nat * nat)) : Prop :=
  forall p k i, nth_error b p = Some (k, i) -> forall j, j < i -> acked s k j \/ In (k, j) (firstn p b).

Lemma buf_ok_nil s : buf_ok s []. Proof. intros [|p] k i H; discriminate. Qed.
Lemma buf_ok_mono s s' b : acks_mono s s' -> buf_ok s b -> buf_ok s' b.
Proof. intros M H p k i N j L. destruct (H p k i N j L) as [A|A]; [left; eapply acked_mono; eassumption|right; exact A]. Qed.
Lemma buf_ok_snoc s b k i : buf_ok s b -> (forall j, j < i -> acked s k j \/ In (k, j) b) -> buf_ok s (b ++ [(k, i)]).
Proof.
  intros H N p k' i' Hn j L. destruct (Nat.lt_ge_cases p (List.length b)) as [Lt|Ge].
  - rewrite nth_error_app1 in Hn by exact Lt. destruct (H p k' i' Hn j L) as [A|A]; [left; exact A|right].
    rewrite firstn_app. apply in_or_app. left. exact A.
  - rewrite nth_error_app2 in Hn by exact Ge. destruct (p - List.length b) as [|q] eqn:E; [|destruct q; discriminate].
    injection Hn as <- <-. destruct (N j L) as [A|A]; [left; exact A|right].
    rewrite firstn_app. apply in_or_app. left. rewrite firstn_all2 by lia. exact A.
Qed.
Lemma buf_ok_all s b : buf_ok s b -> forall k i, In (k, i) b -> forall j, j < i -> acked s k j \/ In (k, j) b.
Proof.
  intros H k i Hin j L. apply In_nth_error in Hin. destruct Hin as [p Hp]. destruct (H p k i Hp j L) as [A|A]; [left; exact A|right].
  rewrite <- (firstn_skipn p b). apply in_or_app. left. exact A.
Qed.

(* ---------- the invariant ---------- *)
Definition A_inv (s : st) : Prop :=
  forall k p, nlookup (store s) k = Some p ->
    let n := N.to_nat (ps_id p) in 1 <= n /\ ps_ms p = pk_ms k (n - 1) /\ forall j, j < n -> acked s k j.
Definition C_inv (s : st) : Prop := forall ch c, alookup (conss s) ch = Some c -> buf_ok s (c_buf c).
Definition B_inv (streams : list stream) (s : st) : Prop :=
  forall k sm, nth_error streams k = Some sm -> is_running s (s_task sm) = true -> c_alive (cons_of s (s_ch sm)) = true ->
    forall j, j < next_of s k -> acked s k j \/ In (k, j) (c_buf (cons_of s (s_ch sm))).
Definition Inv (streams : list stream) (s : st) : Prop := A_inv s /\ C_inv s /\ B_inv streams s.

(* ---------- put_pos / the checkpoint writes of a batch ---------- *)
Lemma put_pos_acks s k i : acks (put_pos s k i) = acks s.
Proof. unfold put_pos. destruct (nlookup (store s) k) as [p|]; [destruct (ps_dropped p)|]; reflexivity. Qed.
Lemma put_pos_frame s k i : running (put_pos s k i) = running s /\ conss (put_pos s k i) = conss s /\ next (put_pos s k i) = next s.
Proof. unfold put_pos. destruct (nlookup (store s) k) as [p|]; [destruct (ps_dropped p)|]; repeat split. Qed.

Lemma put_pos_A s k i : A_inv s -> (forall j, j <= i -> acked s k j) -> A_inv (put_pos s k i).
Proof.
  intros A H k' p' L.
  assert (New : forall st', store st' = nupsert (store s) k {| ps_id := pk_id i; ps_ms := pk_ms k i; ps_dropped := false |} -> acks st' = acks s ->
                nlookup (store st') k' = Some p' ->
                let n := N.to_nat (ps_id p') in 1 <= n /\ ps_ms p' = pk_ms k' (n - 1) /\ forall j, j < n -> acked st' k' j).
  { intros st' Es Ea L'. rewrite Es in L'. destruct (Nat.eq_dec k k') as [<-|N].
    - rewrite nlookup_nupsert_same in L'. injection L' as <-. cbn [ps_id ps_ms]. unfold pk_id. rewrite Nat2N.id.
      split; [lia|]. split; [f_equal; lia|]. intros j Lj. destruct (H j ltac:(lia)) as [ch Hc]. exists ch. rewrite Ea. exact Hc.
    - rewrite nlookup_nupsert_other in L' by exact N. destruct (A k' p' L') as [X [Y Z]]. split; [exact X|]. split; [exact Y|].
      intros j Lj. destruct (Z j Lj) as [ch Hc]. exists ch. rewrite Ea. exact Hc. }
  unfold put_pos in *. destruct (nlookup (store s) k) as [p|] eqn:E.
  - destruct (ps_dropped p); [apply (A k' p' L)|]. eapply New; [| |exact L]; reflexivity.
  - eapply New; [| |exact L]; reflexivity.
Qed.

Lemma fold_put_pos_A : forall l s, A_inv s -> (forall k i, In (k, i) l -> forall j, j <= i -> acked s k j) ->
  A_inv (fold_left (fun s ki => put_pos s (fst ki) (snd ki)) l s)
  /\ acks (fold_left (fun s ki => put_pos s (fst ki) (snd ki)) l s) = acks s
  /\ running (fold_left (fun s ki => put_pos s (fst ki) (snd ki)) l s) = running s
  /\ conss (fold_left (fun s ki => put_pos s (fst ki) (snd ki)) l s) = conss s
  /\ next (fold_left (fun s ki => put_pos s (fst ki) (snd ki)) l s) = next s.
Proof.
  induction l as [|[k i] r IH]; intros s A H; cbn [fold_left fst snd]; [split; [exact A|repeat split]|].
  destruct (put_pos_frame s k i) as [F1 [F2 F3]].
  destruct (IH (put_pos s k i)) as [A' [E1 [E2 [E3 E4]]]].
  - apply put_pos_A; [exact A|]. intros j L. apply (H k i (or_introl eq_refl) j L).
  - intros k' i' Hin j L. destruct (H k' i' (or_intror Hin) j L) as [ch Hc]. exists ch. rewrite put_pos_acks. exact Hc.
  - split; [exact A'|]. rewrite E1, E2, E3, E4, put_pos_acks. repeat split; assumption.
Qed.

Lemma last_per_stream_in : forall b acc k i, In (k, i) (last_per_stream b acc) -> In (k, i) b \/ In (k, i) acc.
Proof.
  induction b as [|[k0 i0] r IH]; intros acc k i H; cbn [last_per_stream] in H; [right; exact H|].
  destruct (IH _ _ _ H) as [A|A]; [left; right; exact A|].
  assert (G : forall (l : list (nat * nat)), In (k, i) (nupsert l k0 i0) -> (k, i) = (k0, i0) \/ In (k, i) l).
  { induction l as [|[a c] l IHl]; cbn [nupsert]; [intros [E|[]]; left; symmetry; exact E|].
    destruct (Nat.eqb k0 a); intros [E|E]; [left; symmetry; exact E|right; right; exact E|right; left; exact E|].
    destruct (IHl E) as [X|X]; [left; exact X|right; right; exact X]. }
  destruct (G acc A) as [E|E]; [left; left; symmetry; exact E|right; exact E].
Qed.

(* ---------- flush ---------- *)
Lemma write_all_frame streams ch : forall b s n wfail,
  conss (fst (write_all streams s ch b n wfail)) = conss s /\ next (fst (write_all streams s ch b n wfail)) = next s
  /\ (forall t, is_running (fst (write_all streams s ch b n wfail)) t = true -> is_running s t = true).
Proof.
  induction b as [|[k i] r IH]; intros s n wfail; cbn [write_all]; [repeat split; auto|].
  destruct (match wfail with Some m => Nat.eqb m n | None => false end).
  - cbn [fst]. destruct (nth_error streams k) as [sm|]; cbn; repeat split; auto.
    intros t H. destruct (String.eqb_spec (s_task sm) t) as [<-|N].
    + rewrite is_running_set_same in H. discriminate.
    + rewrite is_running_set_other in H by exact N. exact H.
  - match goal with |- context [write_all streams ?s' ch r (S n) wfail] => destruct (IH s' (S n) wfail) as [A [B C]] end.
    split; [exact A|]. split; [exact B|exact C].
Qed.

Lemma flush_inv streams s ch b wfail pfail : A_inv s -> buf_ok s b ->
  let r := flush streams s ch b wfail pfail in
  A_inv (fst r) /\ acks_mono s (fst r) /\ conss (fst r) = conss s /\ next (fst r) = next s
  /\ (forall t, is_running (fst r) t = true -> is_running s t = true)
  /\ (snd r = false -> forall k i, In (k, i) b -> acked (fst r) k i).
Proof.
  intros A Bk. cbv zeta.
  pose proof (flush_ok_acks streams s ch b wfail pfail) as OKA.
  unfold flush in *.
  destruct (write_all_acks streams ch b s 1 wfail) as [m [Ea [OK KO]]].
  pose proof (write_all_store streams ch b s 1 wfail) as St.
  destruct (write_all_frame streams ch b s 1 wfail) as [Fc [Fn Fr]].
  destruct (write_all streams s ch b 1 wfail) as [s1 err] eqn:W. cbn [fst snd] in *.
  assert (M1 : acks_mono s s1) by (intros x H; rewrite Ea; apply in_or_app; left; exact H).
  assert (A1 : A_inv s1).
  { intros k p L. rewrite St in L. destruct (A k p L) as [X [Y Z]]. split; [exact X|]. split; [exact Y|]. intros j Lj. eapply acked_mono; [exact M1|apply Z; exact Lj]. }
  destruct err.
  - cbn [fst snd]. split; [exact A1|]. split; [exact M1|]. split; [exact Fc|]. split; [exact Fn|]. split; [exact Fr|discriminate].
  - specialize (OK eq_refl). subst m. rewrite firstn_all in Ea.
    assert (All : forall k i, In (k, i) b -> acked s1 k i).
    { intros k i Hin. exists ch. rewrite Ea. apply in_or_app. right. apply (in_map (fun ki => (ch, fst ki, snd ki)) b (k, i) Hin). }
    assert (Le : forall k i, In (k, i) b -> forall j, j <= i -> acked s1 k j).
    { intros k i Hin j L. destruct (Nat.eq_dec j i) as [->|N]; [apply All; exact Hin|].
      destruct (buf_ok_all s b Bk k i Hin j ltac:(lia)) as [X|X]; [eapply acked_mono; eassumption|apply All; exact X]. }
    destruct (last_per_stream b []) as [|[k0 i0] rest] eqn:LP.
    + cbn [fst snd]. split; [exact A1|]. split; [exact M1|]. split; [exact Fc|]. split; [exact Fn|]. split; [exact Fr|]. intros _. exact All.
    + destruct pfail.
      * cbn [fst snd]. destruct (nth_error streams k0) as [sm|]; cbn [fst snd]; (split; [exact A1|]); (split; [exact M1|]); (split; [exact Fc|]); (split; [exact Fn|]); (split; [|discriminate]); [|exact Fr].
        intros t H. destruct (String.eqb_spec (s_task sm) t) as [<-|N]; [rewrite is_running_set_same in H; discriminate|].
        rewrite is_running_set_other in H by exact N. apply Fr. exact H.
      * cbn [fst snd]. destruct (fold_put_pos_A ((k0, i0) :: rest) s1 A1) as [A2 [E1 [E2 [E3 E4]]]].
        { intros k i Hin j L. rewrite <- LP in Hin. destruct (last_per_stream_in b [] k i Hin) as [X|[]]. apply (Le k i X j L). }
        split; [exact A2|]. split; [intros x H; rewrite E1; apply M1; exact H|]. split; [rewrite E3; exact Fc|]. split; [rewrite E4; exact Fn|].
        split; [intros t H; apply Fr; unfold is_running in *; rewrite E2 in H; exact H|].
        intros _ k i Hin. destruct (All k i Hin) as [c Hc]. exists c. rewrite E1. exact Hc.
Qed.

(* ---------- frames ---------- *)
Lemma A_ext s s' : store s' = store s -> acks_mono s s' -> A_inv s -> A_inv s'.
Proof.
  intros Es M A k p L. rewrite Es in L. destruct (A k p L) as [X [Y Z]]. split; [exact X|]. split; [exact Y|]. intros j Lj. eapply acked_mono; [exact M|apply Z, Lj].
Qed.

Lemma B_weaken streams s s' : B_inv streams s ->
  (forall t, is_running s' t = true -> is_running s t = true) -> acks_mono s s' -> next s' = next s ->
  (forall ch, c_alive (cons_of s' ch) = true -> cons_of s' ch = cons_of s ch) -> B_inv streams s'.
Proof.
  intros B R M N C k sm Hk Hr Ha j Lj. unfold next_of in Lj. rewrite N in Lj. pose proof (C _ Ha) as E. rewrite E in Ha |- *.
  destruct (B k sm Hk (R _ Hr) Ha j Lj) as [X|X]; [left; eapply acked_mono; eassumption|right; exact X].
Qed.

Lemma C_weaken s s' : C_inv s -> acks_mono s s' -> (forall ch c, alookup (conss s') ch = Some c -> c_buf c = [] \/ alookup (conss s) ch = Some c) -> C_inv s'.
Proof.
  intros C M H ch c L. destruct (H ch c L) as [E|E]; [rewrite E; apply buf_ok_nil|]. eapply buf_ok_mono; [exact M|apply (C ch c E)].
Qed.

Lemma cons_of_set_same s ch c : cons_of (set_cons s ch c) ch = c.
Proof. unfold cons_of, set_cons. cbn [conss]. rewrite alookup_aupsert_same. reflexivity. Qed.
Lemma cons_of_set_other s ch c ch' : ch <> ch' -> cons_of (set_cons s ch c) ch' = cons_of s ch'.
Proof. intros N. unfold cons_of, set_cons. cbn [conss]. rewrite alookup_aupsert_other by exact N. reflexivity. Qed.
Lemma cons_of_ext s s' ch : conss s' = conss s -> cons_of s' ch = cons_of s ch.
Proof. intros E. unfold cons_of. rewrite E. reflexivity. Qed.

(* ---------- the consumer leaves its loop ---------- *)
Lemma die_inv streams s ch wfail pfail : Inv streams s ->
  let s' := die streams s ch wfail pfail in
  Inv streams s' /\ acks_mono s s' /\ next s' = next s /\ (forall t, is_running s' t = true -> is_running s t = true)
  /\ cons_of s' ch = {| c_alive := false; c_buf := [] |} /\ (forall ch', ch <> ch' -> cons_of s' ch' = cons_of s ch').
Proof.
  intros [A [C B]]. cbv zeta. unfold die.
  assert (Bk : buf_ok s (c_buf (cons_of s ch))).
  { unfold cons_of. destruct (alookup (conss s) ch) as [c|] eqn:E; [apply (C ch c E)|apply buf_ok_nil]. }
  destruct (flush_inv streams s ch (c_buf (cons_of s ch)) wfail pfail A Bk) as [A1 [M1 [Fc [Fn [Fr _]]]]].
  set (s1 := fst (flush streams s ch (c_buf (cons_of s ch)) wfail pfail)) in *.
  set (s' := set_cons s1 ch {| c_alive := false; c_buf := [] |}).
  assert (M : acks_mono s s') by exact M1.
  assert (O : forall ch', ch <> ch' -> cons_of s' ch' = cons_of s ch').
  { intros ch' N. unfold s'. rewrite cons_of_set_other by exact N. apply cons_of_ext. exact Fc. }
  split; [|split; [exact M|split; [exact Fn|split; [exact Fr|split; [apply cons_of_set_same|exact O]]]]].
  split; [|split].
  - apply (A_ext s1); [reflexivity|intros x H; exact H|exact A1].
  - apply (C_weaken s); [exact C|exact M|]. intros ch' c L. unfold s', set_cons in L. cbn [conss] in L.
    destruct (String.eqb_spec ch ch') as [<-|N]; [rewrite alookup_aupsert_same in L; injection L as <-; left; reflexivity|].
    rewrite alookup_aupsert_other in L by exact N. right. rewrite <- Fc. exact L.
  - apply (B_weaken streams s); [exact B|exact Fr|exact M|exact Fn|].
    intros ch' Ha. destruct (String.eqb_spec ch ch') as [<-|N]; [unfold s' in Ha; rewrite cons_of_set_same in Ha; discriminate|apply O, N].
Qed.

Lemma not_any_running s t : any_running s = false -> is_running s t = false.
Proof.
  unfold any_running, is_running. intros H. destruct (alookup (running s) t) as [b|] eqn:E; [|reflexivity].
  destruct b; [|reflexivity]. exfalso.
  assert (In (t, true) (running s)).
  { clear H. induction (running s) as [|[a c] r IH]; cbn in E; [discriminate|]. destruct (String.eqb_spec t a) as [->|N]; [injection E as ->; left; reflexivity|right; apply IH, E]. }
  assert (existsb snd (running s) = true) by (apply existsb_exists; exists (t, true); split; [assumption|reflexivity]). congruence.
Qed.

Lemma release_inv streams s : Inv streams s ->
  Inv streams (release_if_idle streams s) /\ acks_mono s (release_if_idle streams s)
  /\ (forall t, is_running (release_if_idle streams s) t = true -> is_running s t = true).
Proof.
  intros I. unfold release_if_idle. destruct (any_running s) eqn:AR; [split; [exact I|split; [apply acks_mono_refl|auto]]|].
  assert (G : forall (l : list (string * cons)) s0, Inv streams s0 -> (forall t, is_running s0 t = false) ->
              let s1 := fold_left (fun s cc => if c_alive (cons_of s (fst cc)) then die streams s (fst cc) None false else s) l s0 in
              Inv streams s1 /\ acks_mono s0 s1 /\ (forall t, is_running s1 t = false)).
  { induction l as [|cc l IH]; intros s0 I0 R0; cbn [fold_left]; [split; [exact I0|split; [apply acks_mono_refl|exact R0]]|].
    destruct (c_alive (cons_of s0 (fst cc))).
    - destruct (die_inv streams s0 (fst cc) None false I0) as [I1 [M1 [_ [R1 _]]]].
      assert (R1' : forall t, is_running (die streams s0 (fst cc) None false) t = false).
      { intros t. destruct (is_running (die streams s0 (fst cc) None false) t) eqn:E; [|reflexivity]. specialize (R1 t E). rewrite (R0 t) in R1. discriminate. }
      destruct (IH _ I1 R1') as [I2 [M2 R2]]. split; [exact I2|split; [eapply acks_mono_trans; eassumption|exact R2]].
    - apply IH; assumption. }
  destruct (G (conss s) s I (fun t => not_any_running s t AR)) as [[A1 [C1 B1]] [M1 R1]].
  set (s1 := fold_left _ (conss s) s) in *.
  split; [|split; [exact M1|]].
  - split; [exact A1|]. split; [exact C1|]. intros k sm Hk Hr. exfalso. unfold is_running in Hr. cbn [running] in Hr. fold (is_running s1 (s_task sm)) in Hr. rewrite R1 in Hr. discriminate.
  - intros t H. exfalso. unfold is_running in H. cbn [running] in H. fold (is_running s1 t) in H. rewrite R1 in H. discriminate.
Qed.

(* ---------- (re)start: the reader is positioned at the checkpoint ---------- *)
Lemma fold_nupsert_spec (g : nat -> nat) : forall (l : list (nat * stream)) nx k,
  nlookup (fold_left (fun nx ks => nupsert nx (fst ks) (g (fst ks))) l nx) k
  = if existsb (fun ks => Nat.eqb (fst ks) k) l then Some (g k) else nlookup nx k.
Proof.
  induction l as [|x l IH]; intros nx k; cbn [fold_left existsb]; [reflexivity|]. rewrite IH.
  destruct (existsb _ l); [rewrite orb_true_r; reflexivity|]. rewrite orb_false_r.
  destruct (Nat.eqb_spec (fst x) k) as [<-|N]; [apply nlookup_nupsert_same|apply nlookup_nupsert_other; exact N].
Qed.

Lemma combine_seq_in {A} : forall (l : list A) a k x, nth_error l k = Some x -> In (a + k, x) (combine (seq a (List.length l)) l).
Proof.
  induction l as [|y l IH]; intros a k x H; [destruct k; discriminate|]. cbn [List.length seq combine].
  destruct k as [|k]; cbn in H; [injection H as <-; left; f_equal; lia|]. right. replace (a + S k) with (S a + k) by lia. apply IH, H.
Qed.
Lemma combine_seq_fst {A} : forall (l : list A) a k x, In (k, x) (combine (seq a (List.length l)) l) -> nth_error l (k - a) = Some x /\ a <= k.
Proof.
  induction l as [|y l IH]; intros a k x H; [destruct H|]. cbn [List.length seq combine] in H. destruct H as [E|H].
  - injection E as <- <-. rewrite Nat.sub_diag. split; [reflexivity|lia].
  - destruct (IH _ _ _ H) as [N L]. split; [|lia]. replace (k - a) with (S (k - S a)) by lia. exact N.
Qed.

Lemma reset_next_next streams s which k sm : nth_error streams k = Some sm ->
  next_of (reset_next streams s which) k = if which sm then cursor s k else next_of s k.
Proof.
  intros Hk. unfold next_of, reset_next. cbn [next].
  rewrite (fold_nupsert_spec (fun k => cursor s k)).
  set (sel := filter (fun ks => which (snd ks)) (combine (seq 0 (List.length streams)) streams)).
  destruct (which sm) eqn:W.
  - assert (E : existsb (fun ks : nat * stream => Nat.eqb (fst ks) k) sel = true).
    { apply existsb_exists. exists (k, sm). split; [|apply Nat.eqb_refl]. apply filter_In. split; [apply (combine_seq_in streams 0 k sm Hk)|exact W]. }
    rewrite E. reflexivity.
  - assert (E : existsb (fun ks : nat * stream => Nat.eqb (fst ks) k) sel = false).
    { destruct (existsb _ sel) eqn:X; [|reflexivity]. exfalso. apply existsb_exists in X. destruct X as [[k' sm'] [Hin Ek]].
      cbn in Ek. apply Nat.eqb_eq in Ek. subst k'. apply filter_In in Hin. destruct Hin as [Hin W'].
      destruct (combine_seq_fst streams 0 k sm' Hin) as [N _]. rewrite Nat.sub_0_r in N. cbn in W'. congruence. }
    rewrite E. reflexivity.
Qed.

Lemma reset_next_inv streams s which : A_inv s -> C_inv s ->
  (forall k sm, nth_error streams k = Some sm -> which sm = false -> is_running s (s_task sm) = true -> c_alive (cons_of s (s_ch sm)) = true ->
     forall j, j < next_of s k -> acked s k j \/ In (k, j) (c_buf (cons_of s (s_ch sm)))) ->
  Inv streams (reset_next streams s which).
Proof.
  intros A C B. split; [|split].
  - apply (A_ext s); [reflexivity|intros x H; exact H|exact A].
  - intros ch c L. apply (C ch c L).
  - intros k sm Hk Hr Ha j Lj. rewrite (reset_next_next streams s which k sm Hk) in Lj.
    change (cons_of (reset_next streams s which) (s_ch sm)) with (cons_of s (s_ch sm)) in *.
    change (is_running (reset_next streams s which) (s_task sm)) with (is_running s (s_task sm)) in Hr.
    destruct (which sm) eqn:W.
    + left. unfold cursor in Lj. destruct (nlookup (store s) k) as [p|] eqn:E; [|lia]. destruct (A k p E) as [_ [_ Z]].
      destruct (Z j Lj) as [ch Hc]. exists ch. exact Hc.
    + destruct (B k sm Hk W Hr Ha j Lj) as [X|X]; [left|right]; exact X.
Qed.

(* ---------- every label preserves the invariant ---------- *)
Lemma alookup_map_fresh (l : list (string * cons)) ch c :
  alookup (map (fun cc => (fst cc, {| c_alive := true; c_buf := [] |})) l) ch = Some c -> c_buf c = [].
Proof.
  induction l as [|[a x] r IH]; cbn; [discriminate|]. destruct (String.eqb ch a); [intros H; injection H as <-; reflexivity|exact IH].
Qed.

Lemma nlookup_map_val (f : nat -> pos -> pos) (l : list (nat * pos)) k :
  nlookup (map (fun kp => (fst kp, f (fst kp) (snd kp))) l) k = option_map (f k) (nlookup l k).
Proof.
  unfold nlookup. induction l as [|[a p] r IH]; cbn [map find fst snd]; [reflexivity|].
  destruct (Nat.eqb_spec a k) as [->|N]; [reflexivity|exact IH].
Qed.

Lemma cons_alive_lookup s ch : c_alive (cons_of s ch) = true -> alookup (conss s) ch = Some (cons_of s ch).
Proof. unfold cons_of. destruct (alookup (conss s) ch); [reflexivity|discriminate]. Qed.

Lemma Inv_frame streams s s' : Inv streams s -> store s' = store s -> acks s' = acks s -> conss s' = conss s -> next s' = next s ->
  (forall t, is_running s' t = true -> is_running s t = true) -> Inv streams s'.
Proof.
  intros [A [C B]] Es Ea Ec En R. assert (M : acks_mono s s') by (apply acks_mono_eq; exact Ea).
  split; [apply (A_ext s); assumption|]. split.
  - apply (C_weaken s); [exact C|exact M|]. intros ch c L. right. rewrite <- Ec. exact L.
  - apply (B_weaken streams s); [exact B|exact R|exact M|exact En|]. intros ch _. apply cons_of_ext. exact Ec.
Qed.

Lemma set_running_false_sub s t t' : is_running (set_running s t false) t' = true -> is_running s t' = true.
Proof.
  intros H. destruct (String.eqb_spec t t') as [<-|N]; [rewrite is_running_set_same in H; discriminate|]. rewrite is_running_set_other in H by exact N. exact H.
Qed.

Theorem step_Inv maxcount streams s l : Inv streams s -> Inv streams (step maxcount streams s l).
Proof.
  intros I. pose proof I as [A [C B]]. destruct l as [k big wfail pfail|k fail|task|task|task|]; cbn [step].
  - (* Feed *)
    destruct (nth_error streams k) as [sm|] eqn:Hk; [|exact I].
    set (i := next_of s k). set (c := cons_of s (s_ch sm)).
    destruct (negb (c_alive c) || Nat.leb (s_len sm) i) eqn:G; [exact I|].
    apply orb_false_iff in G. destruct G as [Al _]. apply negb_false_iff in Al.
    set (s0 := {| running := running s; store := store s; conss := conss s; acks := acks s; next := nupsert (next s) k (S i);
                  evloop := evloop s; wfails := wfails s; pfails := pfails s; seeks := seeks s |}).
    assert (N0 : forall k', next_of s0 k' = if Nat.eqb k k' then S i else next_of s k').
    { intros k'. unfold next_of, s0. cbn [next]. destruct (Nat.eqb_spec k k') as [<-|N]; [rewrite nlookup_nupsert_same; reflexivity|rewrite nlookup_nupsert_other by exact N; reflexivity]. }
    assert (Bk : buf_ok s (c_buf c)) by (apply (C (s_ch sm) c); apply cons_alive_lookup; exact Al).
    destruct (is_running s0 (s_task sm)) eqn:Run; cbn [negb].
    + (* the task runs *)
      change (is_running s0 (s_task sm)) with (is_running s (s_task sm)) in Run.
      assert (Pre : forall j, j < i -> acked s k j \/ In (k, j) (c_buf c)) by (intros j Lj; apply (B k sm Hk Run Al j Lj)).
      set (b := (c_buf c ++ [(k, i)])%list).
      assert (Bb : buf_ok s0 b) by (apply (buf_ok_snoc s (c_buf c) k i Bk Pre)).
      assert (Cover : forall k' sm', nth_error streams k' = Some sm' -> s_ch sm' = s_ch sm -> is_running s (s_task sm') = true ->
                forall j, j < next_of s0 k' -> acked s k' j \/ In (k', j) b).
      { intros k' sm' Hk' Ech Hr' j Lj. rewrite N0 in Lj. destruct (Nat.eqb_spec k k') as [<-|N].
        - destruct (Nat.eq_dec j i) as [->|Nj]; [right; apply in_or_app; right; left; reflexivity|].
          destruct (Pre j ltac:(lia)) as [X|X]; [left; exact X|right; apply in_or_app; left; exact X].
        - assert (Al' : c_alive (cons_of s (s_ch sm')) = true) by (rewrite Ech; exact Al).
          destruct (B k' sm' Hk' Hr' Al' j Lj) as [X|X]; [left; exact X|right; apply in_or_app; left; rewrite Ech in X; exact X]. }
      destruct (big || Nat.leb maxcount (List.length b)).
      * (* the batch is written *)
        destruct (flush_inv streams s0 (s_ch sm) b wfail pfail A Bb) as [A1 [M1 [Fc [Fn [Fr Fa]]]]].
        destruct (flush streams s0 (s_ch sm) b wfail pfail) as [s1 err] eqn:F. cbn [fst snd] in *.
        apply release_inv.
        set (s2 := set_cons s1 (s_ch sm) {| c_alive := negb err; c_buf := [] |}).
        split; [apply (A_ext s1); [reflexivity|intros x H; exact H|exact A1]|]. split.
        -- apply (C_weaken s); [exact C|exact M1|]. intros ch' c' L. unfold s2, set_cons in L. cbn [conss] in L.
           destruct (String.eqb_spec (s_ch sm) ch') as [<-|N]; [rewrite alookup_aupsert_same in L; injection L as <-; left; reflexivity|].
           rewrite alookup_aupsert_other in L by exact N. right. rewrite Fc in L. exact L.
        -- intros k' sm' Hk' Hr' Ha' j Lj.
           assert (Hr0 : is_running s (s_task sm') = true) by (apply Fr; exact Hr').
           assert (Nx : next_of s2 k' = next_of s0 k') by (unfold next_of, s2, set_cons; cbn [next]; rewrite Fn; reflexivity).
           rewrite Nx in Lj.
           destruct (String.eqb_spec (s_ch sm) (s_ch sm')) as [E|N].
           ++ unfold s2 in Ha'. rewrite <- E, cons_of_set_same in Ha'. cbn [c_alive] in Ha'. apply negb_true_iff in Ha'. subst err.
              left. destruct (Cover k' sm' Hk' (eq_sym E) Hr0 j Lj) as [X|X]; [eapply acked_mono; [exact M1|exact X]|apply (Fa eq_refl k' j X)].
           ++ unfold s2 in *. rewrite cons_of_set_other in * by exact N. rewrite (cons_of_ext s0 s1 _ Fc) in *.
              change (cons_of s0 (s_ch sm')) with (cons_of s (s_ch sm')) in *.
              assert (Lj' : j < next_of s k') by (rewrite N0 in Lj; destruct (Nat.eqb_spec k k') as [<-|_]; [rewrite Hk in Hk'; injection Hk' as <-; contradiction|exact Lj]).
              destruct (B k' sm' Hk' Hr0 Ha' j Lj') as [X|X]; [left; eapply acked_mono; [exact M1|exact X]|right; exact X].
      * (* the pack is buffered *)
        set (s3 := set_cons s0 (s_ch sm) {| c_alive := true; c_buf := b |}).
        split; [apply (A_ext s); [reflexivity|intros x H; exact H|exact A]|]. split.
        -- intros ch' c' L. unfold s3, set_cons in L. cbn [conss] in L.
           destruct (String.eqb_spec (s_ch sm) ch') as [<-|N]; [rewrite alookup_aupsert_same in L; injection L as <-; exact Bb|].
           rewrite alookup_aupsert_other in L by exact N. apply (C ch' c' L).
        -- intros k' sm' Hk' Hr' Ha' j Lj.
           change (is_running s3 (s_task sm')) with (is_running s (s_task sm')) in Hr'.
           assert (Nx : next_of s3 k' = next_of s0 k') by reflexivity. rewrite Nx in Lj.
           destruct (String.eqb_spec (s_ch sm) (s_ch sm')) as [E|N].
           ++ unfold s3. rewrite <- E, cons_of_set_same. cbn [c_buf]. apply (Cover k' sm' Hk' (eq_sym E) Hr' j Lj).
           ++ unfold s3 in *. rewrite cons_of_set_other in * by exact N. change (cons_of s0 (s_ch sm')) with (cons_of s (s_ch sm')) in *.
              assert (Lj' : j < next_of s k') by (rewrite N0 in Lj; destruct (Nat.eqb_spec k k') as [<-|_]; [rewrite Hk in Hk'; injection Hk' as <-; contradiction|exact Lj]).
              apply (B k' sm' Hk' Hr' Ha' j Lj').
    + (* the task does not run: the consumer leaves its loop *)
      change (is_running s0 (s_task sm)) with (is_running s (s_task sm)) in Run.
      assert (I0 : Inv streams s0).
      { split; [apply (A_ext s); [reflexivity|intros x H; exact H|exact A]|]. split; [intros ch' c' L; apply (C ch' c' L)|].
        intros k' sm' Hk' Hr' Ha' j Lj. change (is_running s0 (s_task sm')) with (is_running s (s_task sm')) in Hr'.
        change (cons_of s0 (s_ch sm')) with (cons_of s (s_ch sm')) in *. rewrite N0 in Lj.
        destruct (Nat.eqb_spec k k') as [<-|_]; [rewrite Hk in Hk'; injection Hk' as <-; congruence|]. apply (B k' sm' Hk' Hr' Ha' j Lj). }
      apply release_inv. apply (die_inv streams s0 (s_ch sm) wfail pfail I0).
  - (* EvDrop *)
    destruct (nth_error streams k) as [sm|] eqn:Hk; [|exact I]. destruct (negb (evloop s)); [exact I|].
    destruct (negb (is_running s (s_task sm))); [apply (Inv_frame streams s); auto|].
    match goal with |- context [if ?x then _ else _] => destruct x end.
    + apply release_inv. apply (Inv_frame streams s); [exact I|reflexivity|reflexivity|reflexivity|reflexivity|]. intros t H. apply (set_running_false_sub s (s_task sm) t H).
    + split; [|split].
      * intros k' p' L. cbn [store] in L.
        set (f := fun (k0 : nat) (p0 : pos) => match nth_error streams k0 with
                    | Some sm' => if String.eqb (s_task sm') (s_task sm) && Z.eqb (s_coll sm') (s_coll sm)
                                  then {| ps_id := ps_id p0; ps_ms := ps_ms p0; ps_dropped := true |} else p0
                    | None => p0 end).
        assert (E : map (fun kp : nat * pos => match nth_error streams (fst kp) with
                      | Some sm' => if String.eqb (s_task sm') (s_task sm) && Z.eqb (s_coll sm') (s_coll sm)
                                    then (fst kp, {| ps_id := ps_id (snd kp); ps_ms := ps_ms (snd kp); ps_dropped := true |}) else kp
                      | None => kp end) (store s) = map (fun kp => (fst kp, f (fst kp) (snd kp))) (store s)).
        { apply map_ext. intros [a q]. unfold f. cbn [fst snd]. destruct (nth_error streams a) as [sm'|]; [destruct (_ && _)|]; reflexivity. }
        rewrite E, nlookup_map_val in L. destruct (nlookup (store s) k') as [q|] eqn:Q; [|discriminate]. cbn in L. injection L as <-.
        destruct (A k' q Q) as [X [Y Z]]. unfold f. destruct (nth_error streams k') as [sm'|]; [destruct (_ && _)|]; cbn [ps_id ps_ms]; (split; [exact X|split; [exact Y|exact Z]]).
      * intros ch' c' L. apply (C ch' c' L).
      * intros k' sm' Hk' Hr' Ha' j Lj. apply (B k' sm' Hk' Hr' Ha' j Lj).
  - (* EvError *)
    destruct (negb (evloop s)); [exact I|]. apply release_inv. apply (Inv_frame streams s); [exact I| | | | |];
      try (destruct (alookup (running s) task); reflexivity).
    intros t H. destruct (alookup (running s) task); [apply (set_running_false_sub s task t H)|exact H].
  - (* ApiPause *)
    destruct (alookup (running s) task) as [[|]|]; try exact I. apply release_inv.
    apply (Inv_frame streams s); [exact I|reflexivity|reflexivity|reflexivity|reflexivity|]. intros t H. apply (set_running_false_sub s task t H).
  - (* ApiResume *)
    destruct (alookup (running s) task) as [[|]|]; try exact I.
    destruct (any_running s) eqn:AR.
    + apply reset_next_inv; [apply (A_ext s); [reflexivity|intros x H; exact H|exact A]|intros ch c L; apply (C ch c L)|].
      intros k sm Hk W Hr Ha j Lj. apply String.eqb_neq in W. rewrite is_running_set_other in Hr by congruence. apply (B k sm Hk Hr Ha j Lj).
    + apply reset_next_inv; [apply (A_ext s); [reflexivity|intros x H; exact H|exact A]| |].
      * intros ch c L. unfold set_running, fresh_entity in L. cbn [conss] in L. rewrite (alookup_map_fresh _ _ _ L). apply buf_ok_nil.
      * intros k sm Hk W Hr Ha j Lj. exfalso. apply String.eqb_neq in W. rewrite is_running_set_other in Hr by congruence.
        change (is_running (fresh_entity s) (s_task sm)) with (is_running s (s_task sm)) in Hr. rewrite (not_any_running s _ AR) in Hr. discriminate.
  - (* Crash *)
    apply reset_next_inv; [apply (A_ext s); [reflexivity|intros x H; exact H|exact A]| |].
    + intros ch c L. cbn [conss] in L. rewrite (alookup_map_fresh _ _ _ L). apply buf_ok_nil.
    + intros k sm Hk W. discriminate.
Qed.

Lemma Inv_init streams : Inv streams (init streams).
Proof.
  split; [|split].
  - intros k p L. unfold init in L. cbn in L. discriminate.
  - intros ch c L. unfold init in L. cbn [conss] in L.
    assert (G : forall (l : list stream) r, (forall ch c, alookup r ch = Some c -> c_buf c = []) ->
                forall ch c, alookup (fold_left (fun r sm => aupsert r (s_ch sm) {| c_alive := true; c_buf := [] |}) l r) ch = Some c -> c_buf c = []).
    { induction l as [|sm l IH]; intros r H ch0 c0 L0; cbn [fold_left] in L0; [apply (H ch0 c0 L0)|].
      eapply (IH (aupsert r (s_ch sm) {| c_alive := true; c_buf := [] |})); [|exact L0]. intros ch1 c1 L1.
      destruct (String.eqb_spec (s_ch sm) ch1) as [<-|N]; [rewrite alookup_aupsert_same in L1; injection L1 as <-; reflexivity|].
      rewrite alookup_aupsert_other in L1 by exact N. apply (H ch1 c1 L1). }
    rewrite (G streams [] ltac:(intros ? ? X; discriminate) ch c L). apply buf_ok_nil.
  - intros k sm Hk Hr Ha j Lj. unfold next_of, init in Lj. cbn in Lj. lia.
Qed.

Theorem run_Inv maxcount streams : forall ls s, Inv streams s -> Inv streams (fold_left (step maxcount streams) ls s).
Proof. induction ls as [|l r IH]; intros s I; cbn [fold_left]; [exact I|]. apply IH, step_Inv, I. Qed.
