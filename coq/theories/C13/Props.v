(* C13 — property theorems only (model: C13/Model.v, proofs: C13/Proofs.v) *)
From Coq Require Import List String NArith ZArith Bool.
From Verif Require Import Base.Util C13.Model C13.Proofs.
(* the double-notification harness of this check (h_reader -mode c13d) evaluates its cases with the reader model and C01.Check *)
From Verif Require Reader.Model C01.Check.
Import ListNotations.
Local Open Scope string_scope.

(* For every script of catalog writes placed anywhere relative to the reader's steps (before StartRead; between opening the
   watches and the collection listing; between the two listings; before and after StartWatch): a collection written as created
   at any phase after the watches were opened is started; so is a non-default partition written as created then, if the
   catalog knows its collection. *)
Theorem C13_created_later_never_missed : forall s ph c, In (ph, WC c) s -> (1 <= ph)%nat -> cw_state c = SCreated -> In (cw_id c) (started s).
Proof. exact watch_never_missed. Qed.
Print Assumptions C13_created_later_never_missed.

Theorem C13_partition_created_later_never_missed : forall s ph p, In (ph, WP p) s -> (1 <= ph)%nat -> pw_state p = SCreated ->
  is_default (pw_name p) = false -> name_at s 4 (pw_coll p) = true -> In (pw_coll p, pw_id p) (parts s).
Proof. exact watch_partition_never_missed. Qed.
Print Assumptions C13_partition_created_later_never_missed.

(* what the listing shows: every listed collection that does not lose the newest-incarnation selection is started, with every
   listed non-default partition of it; the losers are listed collections, are reported dropped and are not started by the listing *)
Theorem C13_listed_started : forall s c, In c (listed s) -> zmem (cw_id c) (repeated s) = false -> In (cw_id c) (started s).
Proof. exact listed_started. Qed.
Print Assumptions C13_listed_started.

Theorem C13_listed_partition_added : forall s p, In p (plisted s) -> zmem (pw_coll p) (repeated s) = false -> name_at s 2 (pw_coll p) = true ->
  In (pw_coll p, pw_id p) (parts s).
Proof. exact listed_partition_added. Qed.
Print Assumptions C13_listed_partition_added.

Theorem C13_older_incarnations : forall s i, In i (repeated s) ->
  (exists c, In c (listed s) /\ cw_id c = i) /\ In i (dropped_calls s) /\ ~ In i (started_by_list s).
Proof. intros s i H. split; [apply repeated_are_listed; exact H|apply repeated_reported; exact H]. Qed.
Print Assumptions C13_older_incarnations.

(* creating -> dropped (a tombstone over a creating record, seen by the watch) is reported dropped; and nothing is started
   that was neither listed (and kept) nor written as created after the watches were opened *)
Theorem C13_creating_dropped : forall s i, In i (skipped_go s []) -> In i (dropped_calls s).
Proof. exact creating_dropped_reported. Qed.
Print Assumptions C13_creating_dropped.

Theorem C13_started_only : forall s i, In i (started s) ->
  (exists c, In c (listed s) /\ cw_id c = i /\ zmem i (repeated s) = false)
  \/ (exists ph c, In (ph, WC c) s /\ (1 <= ph)%nat /\ cw_state c = SCreated /\ cw_id c = i).
Proof. exact started_only. Qed.
Print Assumptions C13_started_only.

Example C13_nonvacuous :
  let s := [(0%nat, WC {| cw_db := 1; cw_id := 100; cw_name := "a"; cw_state := SDropped; cw_create := 10 |});
            (0%nat, WC {| cw_db := 1; cw_id := 101; cw_name := "a"; cw_state := SCreated; cw_create := 20 |});
            (1%nat, WC {| cw_db := 1; cw_id := 102; cw_name := "b"; cw_state := SCreated; cw_create := 30 |});
            (2%nat, WC {| cw_db := 1; cw_id := 103; cw_name := "c"; cw_state := SCreating; cw_create := 40 |});
            (2%nat, WP {| pw_coll := 102; pw_id := 1000; pw_name := "p1"; pw_state := SCreated |});
            (4%nat, WC {| cw_db := 1; cw_id := 103; cw_name := "c"; cw_state := STomb; cw_create := 40 |});
            (4%nat, WC {| cw_db := 1; cw_id := 104; cw_name := "d"; cw_state := SCreated; cw_create := 50 |})] in
  repeated s = [100%Z] /\ started s = [101; 102; 102; 104]%Z /\ dropped_calls s = [100; 103]%Z /\ parts s = [(102, 1000); (102, 1000)]%Z
  /\ check_C13 {| k_script := s; k_started := [101; 102; 104]%Z; k_parts := [(102, 1000)%Z]; k_dropped := [100; 103]%Z; k_dropped_parts := [] |} = true.
Proof. vm_compute. repeat split. Qed.
