(* C13 — proofs over the start-up model: nothing written as created after the watches were opened is missed, the newest listed
   incarnation of every name is started and the older ones are reported dropped, whatever the phases of the writes *)
From Coq Require Import List String NArith ZArith Bool Arith Lia.
From Verif Require Import Base.Util C13.Model.
Import ListNotations.
Local Open Scope string_scope.

Lemma zmem_In x l : zmem x l = true <-> In x l.
Proof. unfold zmem. rewrite existsb_exists. split; [intros [y [H E]]; apply Z.eqb_eq in E; subst; exact H|intros H; exists x; split; [exact H|apply Z.eqb_refl]]. Qed.

(* a write made at phase >= 1 is a watch event *)
Lemma event_of s ph w : In (ph, w) s -> (1 <= ph)%nat -> In w (events s).
Proof.
  intros H L. unfold events, from. apply in_map_iff. exists (ph, w). split; [reflexivity|]. apply filter_In. split; [exact H|].
  cbn [fst]. apply Nat.leb_le. exact L.
Qed.

Theorem watch_never_missed s ph c : In (ph, WC c) s -> (1 <= ph)%nat -> cw_state c = SCreated -> In (cw_id c) (started s).
Proof.
  intros H L St. unfold started. apply in_or_app. right. unfold started_by_watch. apply in_flat_map. exists (WC c).
  split; [eapply event_of; eassumption|]. rewrite St. left. reflexivity.
Qed.

Theorem watch_partition_never_missed s ph p : In (ph, WP p) s -> (1 <= ph)%nat -> pw_state p = SCreated -> is_default (pw_name p) = false ->
  name_at s 4 (pw_coll p) = true -> In (pw_coll p, pw_id p) (parts s).
Proof.
  intros H L St D N. unfold parts. apply in_or_app. right. unfold parts_by_watch. apply in_flat_map. exists (WP p).
  split; [eapply event_of; eassumption|]. rewrite St, D, N. left. reflexivity.
Qed.

Theorem listed_started s c : In c (listed s) -> zmem (cw_id c) (repeated s) = false -> In (cw_id c) (started s).
Proof.
  intros H R. unfold started. apply in_or_app. left. unfold started_by_list. apply in_map. apply filter_In. split; [exact H|]. rewrite R. reflexivity.
Qed.

Theorem listed_partition_added s p : In p (plisted s) -> zmem (pw_coll p) (repeated s) = false -> name_at s 2 (pw_coll p) = true ->
  In (pw_coll p, pw_id p) (parts s).
Proof.
  intros H R N. unfold parts. apply in_or_app. left. unfold parts_by_list. apply (in_map (fun p => (pw_coll p, pw_id p))). apply filter_In.
  split; [exact H|]. rewrite R, N. reflexivity.
Qed.

Theorem repeated_reported s i : In i (repeated s) -> In i (dropped_calls s) /\ ~ In i (started_by_list s).
Proof.
  intros H. split; [unfold dropped_calls; apply in_or_app; left; exact H|].
  unfold started_by_list. intros Hin. apply in_map_iff in Hin. destruct Hin as [c [<- Hc]]. apply filter_In in Hc. destruct Hc as [_ Hc].
  apply negb_true_iff in Hc. apply (proj2 (zmem_In _ _)) in H. congruence.
Qed.

(* the ids that lose the newest-incarnation selection: each has a listed namesake in the same database that is kept *)
Lemma repeated_go_spec : forall l best rep i,
  In i (repeated_go l best rep) -> In i rep \/ exists c, (In c l \/ In c best) /\ cw_id c = i.
Proof.
  induction l as [|c r IH]; intros best rep i H; cbn [repeated_go] in H; [left; exact H|].
  destruct (find _ best) as [b|] eqn:F.
  - destruct (N.ltb (cw_create b) (cw_create c)).
    + destruct (IH _ _ _ H) as [A|[x [[A|A] E]]].
      * apply in_app_or in A. destruct A as [A|[<-|[]]]; [left; exact A|]. right. exists b. split; [right; eapply find_some; eassumption|reflexivity].
      * right. exists x. split; [left; right; exact A|exact E].
      * apply in_map_iff in A. destruct A as [y [E2 Hy]]. destruct (_ && _) in E2; subst x; right; [exists c; split; [left; left; reflexivity|exact E]|exists y; split; [right; exact Hy|exact E]].
    + destruct (IH _ _ _ H) as [A|[x [[A|A] E]]].
      * apply in_app_or in A. destruct A as [A|[<-|[]]]; [left; exact A|]. right. exists c. split; [left; left; reflexivity|reflexivity].
      * right. exists x. split; [left; right; exact A|exact E].
      * right. exists x. split; [right; exact A|exact E].
  - destruct (IH _ _ _ H) as [A|[x [[A|A] E]]]; [left; exact A|right; exists x; split; [left; right; exact A|exact E]|].
    apply in_app_or in A. destruct A as [A|[<-|[]]]; right; [exists x; split; [right; exact A|exact E]|exists c; split; [left; left; reflexivity|exact E]].
Qed.

Theorem repeated_are_listed s i : In i (repeated s) -> exists c, In c (listed s) /\ cw_id c = i.
Proof.
  intros H. destruct (repeated_go_spec _ _ _ _ H) as [[]|[c [[A|[]] E]]]. exists c. split; assumption.
Qed.

Theorem creating_dropped_reported s i : In i (skipped_go s []) -> In i (dropped_calls s).
Proof. intros H. unfold dropped_calls. apply in_or_app. right. exact H. Qed.

(* nothing else is started *)
Theorem started_only s i : In i (started s) ->
  (exists c, In c (listed s) /\ cw_id c = i /\ zmem i (repeated s) = false)
  \/ (exists ph c, In (ph, WC c) s /\ (1 <= ph)%nat /\ cw_state c = SCreated /\ cw_id c = i).
Proof.
  intros H. unfold started in H. apply in_app_or in H. destruct H as [H|H].
  - left. unfold started_by_list in H. apply in_map_iff in H. destruct H as [c [E Hc]]. apply filter_In in Hc. destruct Hc as [Hc R].
    exists c. split; [exact Hc|]. split; [exact E|]. rewrite <- E. apply negb_true_iff. exact R.
  - right. unfold started_by_watch in H. apply in_flat_map in H. destruct H as [w [Hw Hi]]. destruct w as [c|p]; [|destruct Hi].
    destruct (cw_state c) eqn:St; try (destruct Hi; fail). destruct Hi as [<-|[]].
    unfold events, from in Hw. apply in_map_iff in Hw. destruct Hw as [[ph w'] [E Hf]]. cbn in E. subst w'. apply filter_In in Hf. destruct Hf as [Hs L].
    cbn [fst] in L. apply Nat.leb_le in L. exists ph, c. repeat split; assumption.
Qed.
