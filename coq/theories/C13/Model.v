(* C13 — executable model of the start-up of CollectionReader.StartRead on EtcdOp (core/reader/collection_reader.go:99-340,
   core/reader/etcd_op.go:156-430,557-757): catalog writes placed at five phases relative to the reader's steps
     0 before StartRead | subscribe, open both watches | 1 | list collections, start them | 2 | list partitions, add them | 3 | StartWatch | 4
   and the calls the channel manager has received at quiescence, as sets *)
From Coq Require Import List String NArith ZArith Bool.
From Verif Require Import Base.Util.
Import ListNotations.
Local Open Scope string_scope.

Inductive ostate := SCreating | SCreated | SDropping | SDropped | STomb.
Definition ostate_eqb (a b : ostate) : bool :=
  match a, b with SCreating, SCreating | SCreated, SCreated | SDropping, SDropping | SDropped, SDropped | STomb, STomb => true | _, _ => false end.

Record cwrite := { cw_db : Z; cw_id : Z; cw_name : string; cw_state : ostate; cw_create : N }.
Record pwrite := { pw_coll : Z; pw_id : Z; pw_name : string; pw_state : ostate }.
Inductive write := WC (c : cwrite) | WP (p : pwrite).
Definition script := list (nat * write).      (* (phase, write) in the order the writes are made *)

Definition upto (n : nat) (s : script) : list write := map snd (filter (fun pw => Nat.leb (fst pw) n) s).
Definition from (n : nat) (s : script) : list write := map snd (filter (fun pw => Nat.leb n (fst pw)) s).

(* the value of a key after a list of writes: the last write to it *)
Definition ckey_eqb (a b : cwrite) : bool := Z.eqb (cw_db a) (cw_db b) && Z.eqb (cw_id a) (cw_id b).
Definition pkey_eqb (a b : pwrite) : bool := Z.eqb (pw_coll a) (pw_coll b) && Z.eqb (pw_id a) (pw_id b).
Fixpoint cstore (ws : list write) (acc : list cwrite) : list cwrite :=
  match ws with
  | [] => acc
  | WC c :: r => cstore r (if existsb (ckey_eqb c) acc then map (fun x => if ckey_eqb c x then c else x) acc else (acc ++ [c])%list)
  | _ :: r => cstore r acc end.
Fixpoint pstore (ws : list write) (acc : list pwrite) : list pwrite :=
  match ws with
  | [] => acc
  | WP p :: r => pstore r (if existsb (pkey_eqb p) acc then map (fun x => if pkey_eqb p x then p else x) acc else (acc ++ [p])%list)
  | _ :: r => pstore r acc end.

(* key order of a range read: by (database id, collection id) - ids are generated with equal digit counts, so that the
   lexicographic order of the keys is the numeric one *)
Fixpoint cins (c : cwrite) (l : list cwrite) : list cwrite :=
  match l with
  | [] => [c]
  | x :: r => if Z.ltb (cw_db c) (cw_db x) || (Z.eqb (cw_db c) (cw_db x) && Z.ltb (cw_id c) (cw_id x)) then c :: x :: r else x :: cins c r end.
Definition csort (l : list cwrite) : list cwrite := fold_right cins [] l.

(* the default partition, or one of the partitions "_default_<n>" that a partition-key collection is created with; a user partition
   whose name merely contains "_default" is an ordinary partition *)
Definition is_default (name : string) : bool :=
  String.eqb name "_default" || String.prefix "_default_" name.

(* ---- the listing of collections (GetAllCollection) ---- *)
Definition listed (s : script) : list cwrite :=
  filter (fun c => match cw_state c with SCreated | SDropped | SDropping => true | _ => false end) (csort (cstore (upto 1 s) [])).

(* newest incarnation per (database, name): the ids that lose *)
Fixpoint repeated_go (l : list cwrite) (best : list cwrite) (rep : list Z) : list Z :=
  match l with
  | [] => rep
  | c :: r =>
      match find (fun b => Z.eqb (cw_db b) (cw_db c) && String.eqb (cw_name b) (cw_name c)) best with
      | None => repeated_go r (best ++ [c])%list rep
      | Some b => if N.ltb (cw_create b) (cw_create c)
                  then repeated_go r (map (fun x => if Z.eqb (cw_db x) (cw_db c) && String.eqb (cw_name x) (cw_name c) then c else x) best) (rep ++ [cw_id b])%list
                  else repeated_go r best (rep ++ [cw_id c])%list
      end
  end.
Definition repeated (s : script) : list Z := repeated_go (listed s) [] [].
Definition zmem (x : Z) (l : list Z) : bool := existsb (Z.eqb x) l.

Definition started_by_list (s : script) : list Z := map cw_id (filter (fun c => negb (zmem (cw_id c) (repeated s))) (listed s)).

(* ---- watch events: every write made after the watches were opened, in order ---- *)
Definition events (s : script) : list write := from 1 s.
Definition started_by_watch (s : script) : list Z :=
  flat_map (fun w => match w with WC c => match cw_state c with SCreated => [cw_id c] | _ => [] end | _ => [] end) (events s).

(* a tombstone whose previous value was 'creating' *)
Fixpoint skipped_go (ws : list (nat * write)) (prev : list cwrite) : list Z :=
  match ws with
  | [] => []
  | (ph, WC c) :: r =>
      let before := find (ckey_eqb c) prev in
      let prev' := if existsb (ckey_eqb c) prev then map (fun x => if ckey_eqb c x then c else x) prev else (prev ++ [c])%list in
      (if Nat.leb 1 ph && ostate_eqb (cw_state c) STomb
       then match before with Some b => if ostate_eqb (cw_state b) SCreating then [cw_id c] else [] | None => [] end
       else []) ++ skipped_go r prev'
  | _ :: r => skipped_go r prev
  end.
Definition dropped_calls (s : script) : list Z := (repeated s ++ skipped_go s [])%list.

(* ---- partitions ---- *)
(* the collection name the reader finds for an id: the cache filled by the listing, else the record in the catalog at the
   time of the lookup (any state; a tombstone and a missing record give nothing) *)
Definition name_at (s : script) (upto_phase : nat) (coll : Z) : bool :=
  existsb (fun c => Z.eqb (cw_id c) coll) (listed s)
  || existsb (fun c => Z.eqb (cw_id c) coll && negb (ostate_eqb (cw_state c) STomb)) (cstore (upto upto_phase s) []).

Definition plisted (s : script) : list pwrite :=
  filter (fun p => (match pw_state p with SCreated | SDropped | SDropping => true | _ => false end) && negb (is_default (pw_name p)))
         (pstore (upto 2 s) []).
Definition parts_by_list (s : script) : list (Z * Z) :=
  map (fun p => (pw_coll p, pw_id p)) (filter (fun p => negb (zmem (pw_coll p) (repeated s)) && name_at s 2 (pw_coll p)) (plisted s)).
Definition parts_by_watch (s : script) : list (Z * Z) :=
  flat_map (fun w => match w with
                     | WP p => if ostate_eqb (pw_state p) SCreated && negb (is_default (pw_name p)) && name_at s 4 (pw_coll p)
                               then [(pw_coll p, pw_id p)] else []
                     | _ => [] end) (events s).

(* ---- the calls at quiescence, as sets ---- *)
Definition started (s : script) : list Z := (started_by_list s ++ started_by_watch s)%list.
Definition parts (s : script) : list (Z * Z) := (parts_by_list s ++ parts_by_watch s)%list.

(* ---------- cases ---------- *)
Record case := { k_script : script; k_started : list Z; k_parts : list (Z * Z); k_dropped : list Z; k_dropped_parts : list Z }.

Definition zset_eqb (a b : list Z) : bool := forallb (fun x => zmem x b) a && forallb (fun x => zmem x a) b.
Definition zzmem (x : Z * Z) (l : list (Z * Z)) : bool := existsb (fun y => Z.eqb (fst x) (fst y) && Z.eqb (snd x) (snd y)) l.
Definition zzset_eqb (a b : list (Z * Z)) : bool := forallb (fun x => zzmem x b) a && forallb (fun x => zzmem x a) b.

Definition agrees (k : case) : bool :=
  zset_eqb (started (k_script k)) (k_started k) && zzset_eqb (parts (k_script k)) (k_parts k)
  && zset_eqb (dropped_calls (k_script k)) (k_dropped k).

(* ---------- the property on the implementation's own calls ---------- *)
(* the newest listed incarnation of a (database, name), by create time *)
Definition newest (s : script) (c : cwrite) : bool :=
  forallb (fun o => negb (Z.eqb (cw_db o) (cw_db c) && String.eqb (cw_name o) (cw_name c)) || Z.eqb (cw_id o) (cw_id c) || N.ltb (cw_create o) (cw_create c))
          (listed s).
Definition check_C13 (k : case) : bool :=
  let s := k_script k in
  (* every collection written as created after the watches were opened is started *)
  forallb (fun w => match w with WC c => negb (ostate_eqb (cw_state c) SCreated) || zmem (cw_id c) (k_started k) | _ => true end) (events s)
  (* every listed collection that is the newest of its name is started, the older ones are reported dropped and not started by the listing *)
  && forallb (fun c => if newest s c then zmem (cw_id c) (k_started k)
                       else zmem (cw_id c) (k_dropped k) && (negb (zmem (cw_id c) (k_started k)) || zmem (cw_id c) (started_by_watch s)))
             (listed s)
  (* nothing is started that was never listed as newest nor written as created after the watches were opened *)
  && forallb (fun i => zmem i (started_by_watch s) || existsb (fun c => Z.eqb (cw_id c) i && newest s c) (listed s)) (k_started k)
  (* creating -> dropped *)
  && forallb (fun i => zmem i (k_dropped k)) (skipped_go s [])
  (* partitions: every non-default partition written as created after the watches were opened, of a collection the catalog knows *)
  && forallb (fun w => match w with
                       | WP p => negb (ostate_eqb (pw_state p) SCreated && negb (is_default (pw_name p)) && name_at s 4 (pw_coll p))
                                 || zzmem (pw_coll p, pw_id p) (k_parts k)
                       | _ => true end) (events s)
  (* ... and every listed one of a collection that is not an older incarnation *)
  && forallb (fun p => negb (negb (zmem (pw_coll p) (repeated s)) && name_at s 2 (pw_coll p)) || zzmem (pw_coll p, pw_id p) (k_parts k)) (plisted s)
  && match k_dropped_parts k with [] => true | _ => false end.

Definition mismatches (l : list (N * case)) : list N := failing_ids agrees l.
Definition checkfails (l : list (N * case)) : list N := failing_ids check_C13 l.
Definition knownclass (l : list (N * case)) : list (N * N) := [].
