(* C07, the handler half - cases of `h_c07r`: the real MilvusDataHandler.ReplicateMessage against an in-process gRPC Milvus.
   kind 0: the downstream accepts; 1: the RPC fails; 2: the downstream answers with an error status; 3: the context is cancelled
   before the call (the task is being stopped).  A failure of any kind is reported to the caller, the downstream position is handed
   back only after a success, and a cancelled call that did not reach the downstream is not reported as delivered. *)
From Coq Require Import List NArith Bool.
From Verif Require Import Base.Util.
Import ListNotations.

Record rcase := { rr_kind : N; rr_err : bool; rr_pos : bool; rr_reached : bool }.

(* the handler's result: (error reported, position handed back) *)
Definition handler_result (kind : N) : bool * bool := if N.eqb kind 0 then (false, true) else (true, false).
Definition ragrees (c : rcase) : bool :=
  let '(e, p) := handler_result (rr_kind c) in Bool.eqb (rr_err c) e && Bool.eqb (rr_pos c) p.
(* the statement itself: no error reported => the downstream has answered with a position; a downstream failure => an error *)
Definition check_C07r (c : rcase) : bool :=
  (rr_err c || (rr_pos c && rr_reached c)) && (N.eqb (rr_kind c) 0 || rr_err c).

Definition mismatches (l : list (N * rcase)) : list N := failing_ids ragrees l.
Definition checkfails (l : list (N * rcase)) : list N := failing_ids check_C07r l.
Definition knownclass (l : list (N * rcase)) : list (N * N) := [].
