(* C07 — property theorems only.  Each is closed by [exact] of a lemma of C07/Proofs.v. *)
From Coq Require Import List String NArith Bool.
From Verif Require Import Base.Util Writer.Model C07.Model C07.Proofs.
(* the handler-level harness of this check (h_c07r) evaluates its cases with C07.RCheck *)
From Verif Require C07.RCheck.
Import ListNotations.
Local Open Scope string_scope.
Local Open Scope list_scope.

(* the bytes decode to the prepared messages, in order — for any codec that round-trips (Milvus' marshal /
   unmarshal dispatcher; the hypothesis is exercised by the harness, which decodes with the real dispatcher) *)
Theorem C07_roundtrip : forall (bytes : Type) (enc : dmsg -> bytes) (dec : bytes -> option dmsg),
  (forall m, dec (enc m) = Some (wire m)) ->
  forall rid nm dtick msgs,
    map dec (map (fun m => enc (prepare rid nm dtick m)) msgs) = map (fun m => Some (wire (prepare rid nm dtick m))) msgs.
Proof. exact roundtrip. Qed.
Print Assumptions C07_roundtrip.

(* what "prepared" means, message by message: type, ids, timestamps and content digest are the source's; ticks
   become replicate-ticks (timestamp = the tick's end time) and every message carries the mark exactly when a
   replicate id is configured; database/collection of the five DML kinds are the mapped names *)
Theorem C07_prepare_spec : forall rid nm dtick m,
  msg_ok rid nm dtick m (wire (prepare rid nm dtick m)) = true.
Proof. exact prepare_spec. Qed.
Print Assumptions C07_prepare_spec.

(* the call: channel, begin/end, start/end positions verbatim, flagged as replication; result = id of the last
   end position; a downstream error is the result; an empty pack is an error without a call — as the checker
   run on implementation traces demands *)
Theorem C07_call_spec : forall rid nm dtick ch p fail,
  let '(pa, r) := handle_rm rid nm dtick ch p fail in
  call_ok rid nm dtick {| rc_chan := ch; rc_pack := p; rc_fail := fail |} {| ro_param := pa; ro_res := r |} = true.
Proof. exact call_spec. Qed.
Print Assumptions C07_call_spec.

Theorem C07_error_not_swallowed : forall rid nm dtick ch p,
  snd (handle_rm rid nm dtick ch p true) = RErr
  /\ (rp_msgs p <> [] -> exists id, snd (handle_rm rid nm dtick ch p false) = ROk id
                                   /\ id = p_id (last (rp_endp p) {| p_chan := ""; p_id := ""; p_ts := 0%N |})).
Proof. exact error_not_swallowed. Qed.
Print Assumptions C07_error_not_swallowed.

(* whole histories over several channels: the checker accepts every model run, in particular the DataHandler
   sees the calls of one channel in call order *)
Theorem C07_model_passes_checker : forall rid nm dtick calls,
  let c := {| c_rid := rid; c_nm := nm; c_dtick := dtick; c_calls := calls;
              c_obs := model_obs {| c_rid := rid; c_nm := nm; c_dtick := dtick; c_calls := calls; c_obs := []; c_chanlog := [] |};
              c_chanlog := [] |} in
  forall chans,
  check_C07 {| c_rid := rid; c_nm := nm; c_dtick := dtick; c_calls := calls; c_obs := c_obs c;
               c_chanlog := map (fun ch => (ch, chan_params ch calls (c_obs c))) chans |} = true.
Proof. exact model_passes_checker. Qed.
Print Assumptions C07_model_passes_checker.

Example C07_nonvacuous :
  let m := {| d_kind := MTick; d_id := 9; d_db := ""; d_coll := ""; d_ts := 5; d_endts := 7; d_digest := 1; d_rep := false; d_rid := "" |} in
  let i := {| d_kind := MInsert; d_id := 3; d_db := ""; d_coll := "c1"; d_ts := 5; d_endts := 5; d_digest := 2; d_rep := false; d_rid := "" |} in
  map (fun x => (d_kind x, d_db x, d_coll x, d_ts x, d_rid x)) (map (prepare "r" [(("default", "c1"), ("tdb", "c1x"))] 0 ) [m; i])
  = [(MReplicate, "", "", 7%N, "r"); (MInsert, "tdb", "c1x", 5%N, "r")].
Proof. vm_compute. reflexivity. Qed.
