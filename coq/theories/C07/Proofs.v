(* C07 — proofs of the lemmas used by C07/Props.v. *)
From Coq Require Import List String NArith Bool.
From Verif Require Import Base.Util Writer.Model C07.Model.
Import ListNotations.
Local Open Scope string_scope.
Local Open Scope list_scope.

(* ---- reflexivity of the boolean equalities ---- *)
Lemma mkind_eqb_refl : forall k, mkind_eqb k k = true.
Proof. destruct k; reflexivity. Qed.

Lemma pair_str_eqb_refl : forall p, pair_str_eqb p p = true.
Proof. intros [a b]. unfold pair_str_eqb. simpl. rewrite !String.eqb_refl. reflexivity. Qed.

Lemma list_eqb_refl : forall A (e : A -> A -> bool), (forall x, e x x = true) -> forall l, list_eqb e l l = true.
Proof. intros A e H l. induction l as [|x l IH]; simpl; [reflexivity|]. rewrite H, IH. reflexivity. Qed.

Lemma dmsg_eqb_refl : forall m, dmsg_eqb m m = true.
Proof.
  intros m. unfold dmsg_eqb.
  rewrite mkind_eqb_refl, !N.eqb_refl, !String.eqb_refl, Bool.eqb_reflx. reflexivity.
Qed.

Lemma pos_eqb_refl : forall p, pos_eqb p p = true.
Proof. intros p. unfold pos_eqb. rewrite !String.eqb_refl, N.eqb_refl. reflexivity. Qed.

Lemma rparam_eqb_refl : forall p, rparam_eqb p p = true.
Proof.
  intros p. unfold rparam_eqb.
  rewrite String.eqb_refl, !N.eqb_refl, !(list_eqb_refl _ pos_eqb pos_eqb_refl),
    Bool.eqb_reflx, (list_eqb_refl _ dmsg_eqb dmsg_eqb_refl). reflexivity.
Qed.

(* ---- roundtrip ---- *)
Lemma roundtrip : forall (bytes : Type) (enc : dmsg -> bytes) (dec : bytes -> option dmsg),
  (forall m, dec (enc m) = Some (wire m)) ->
  forall rid nm dtick msgs,
    map dec (map (fun m => enc (prepare rid nm dtick m)) msgs) = map (fun m => Some (wire (prepare rid nm dtick m))) msgs.
Proof.
  intros bytes enc dec H rid nm dtick msgs.
  rewrite map_map. apply map_ext. intros m. apply H.
Qed.

(* ---- prepare ---- *)
Lemma prepare_spec : forall rid nm dtick m,
  msg_ok rid nm dtick m (wire (prepare rid nm dtick m)) = true.
Proof.
  intros rid nm dtick m.
  unfold msg_ok, prepare.
  destruct (String.eqb rid "") eqn:Er; simpl negb; cbv iota;
    destruct m as [k id db coll ts ets dg rep r]; destruct k; simpl;
    try destruct (map_names nm db coll) as [tdb tc] eqn:Em; simpl;
    unfold pair_str_eqb; simpl;
    rewrite ?N.eqb_refl, ?String.eqb_refl, ?Bool.eqb_reflx; reflexivity.
Qed.

Lemma msgs_ok : forall rid nm dtick msgs,
  list_eqb (fun s d => msg_ok rid nm dtick s d) msgs (map (fun m => wire (prepare rid nm dtick m)) msgs) = true.
Proof.
  intros rid nm dtick msgs. induction msgs as [|m l IH]; [reflexivity|].
  cbn [map list_eqb]. rewrite prepare_spec, IH. reflexivity.
Qed.

(* ---- one call ---- *)
Lemma call_spec : forall rid nm dtick ch p fail,
  let '(pa, r) := handle_rm rid nm dtick ch p fail in
  call_ok rid nm dtick {| rc_chan := ch; rc_pack := p; rc_fail := fail |} {| ro_param := pa; ro_res := r |} = true.
Proof.
  intros rid nm dtick ch p fail.
  unfold handle_rm, call_ok. cbn [rc_pack rc_chan rc_fail].
  pose proof (msgs_ok rid nm dtick (rp_msgs p)) as Hm.
  destruct (rp_msgs p) as [|m0 l] eqn:E.
  - reflexivity.
  - destruct fail; cbn [ro_param ro_res pa_chan pa_begin pa_end pa_start pa_endp pa_flag pa_msgs];
      rewrite String.eqb_refl, !N.eqb_refl, !(list_eqb_refl _ pos_eqb pos_eqb_refl), Hm;
      rewrite ?String.eqb_refl; reflexivity.
Qed.

Lemma error_not_swallowed : forall rid nm dtick ch p,
  snd (handle_rm rid nm dtick ch p true) = RErr
  /\ (rp_msgs p <> [] -> exists id, snd (handle_rm rid nm dtick ch p false) = ROk id
                                   /\ id = p_id (last (rp_endp p) {| p_chan := ""; p_id := ""; p_ts := 0%N |})).
Proof.
  intros rid nm dtick ch p. unfold handle_rm. split.
  - destruct (rp_msgs p); reflexivity.
  - intros Hne. destruct (rp_msgs p) as [|m0 l]; [contradiction Hne; reflexivity|].
    eexists. split; reflexivity.
Qed.

(* ---- histories ---- *)
Lemma calls_ok : forall rid nm dtick calls,
  forall2b (fun k o => call_ok rid nm dtick k o) calls
    (map (fun k => let '(pa, r) := handle_rm rid nm dtick (rc_chan k) (rc_pack k) (rc_fail k) in
                   {| ro_param := pa; ro_res := r |}) calls) = true.
Proof.
  intros rid nm dtick calls. induction calls as [|k l IH]; [reflexivity|].
  cbn [map forall2b]. rewrite IH, andb_true_r.
  destruct k as [ch p fail]. cbn [rc_chan rc_pack rc_fail].
  pose proof (call_spec rid nm dtick ch p fail) as H.
  destruct (handle_rm rid nm dtick ch p fail) as [pa r]. exact H.
Qed.

Lemma model_passes_checker : forall rid nm dtick calls,
  let c := {| c_rid := rid; c_nm := nm; c_dtick := dtick; c_calls := calls;
              c_obs := model_obs {| c_rid := rid; c_nm := nm; c_dtick := dtick; c_calls := calls; c_obs := []; c_chanlog := [] |};
              c_chanlog := [] |} in
  forall chans,
  check_C07 {| c_rid := rid; c_nm := nm; c_dtick := dtick; c_calls := calls; c_obs := c_obs c;
               c_chanlog := map (fun ch => (ch, chan_params ch calls (c_obs c))) chans |} = true.
Proof.
  intros rid nm dtick calls c chans. subst c.
  unfold check_C07, model_obs. cbn [c_rid c_nm c_dtick c_calls c_obs c_chanlog].
  rewrite calls_ok. cbn [andb].
  induction chans as [|ch l IH]; [reflexivity|].
  cbn [map forallb fst snd]. rewrite (list_eqb_refl _ rparam_eqb rparam_eqb_refl). exact IH.
Qed.
