(* C07 — executable model of ChannelWriter.HandleReplicateMessage and the per-channel hand-off of
   replicateMessageManager.  A message is abstracted to the fields the writer may touch (type, base id and
   timestamp, database and collection names, replication mark) plus a digest of everything else, computed by
   the harness with one function on the source message and on the message decoded from the bytes sent. *)
From Coq Require Import List String NArith Bool.
From Verif Require Import Base.Util Writer.Model.
Import ListNotations.
Local Open Scope string_scope.
Local Open Scope list_scope.

Inductive mkind := MInsert | MDelete | MDropPartition | MDropCollection | MImport | MTick | MReplicate.

Record dmsg := { d_kind : mkind; d_id : N; d_db : string; d_coll : string; d_ts : N;
                 d_endts : N;            (* BaseMsg.EndTimestamp of the source message (not serialized) *)
                 d_digest : N; d_rep : bool; d_rid : string }.

Record pos := { p_chan : string; p_id : string; p_ts : N }.
Record rpack := { rp_begin : N; rp_end : N; rp_start : list pos; rp_endp : list pos; rp_msgs : list dmsg }.
(* what the DataHandler receives, messages decoded with Milvus' own dispatcher *)
Record rparam := { pa_chan : string; pa_begin : N; pa_end : N; pa_start : list pos; pa_endp : list pos;
                   pa_flag : bool; pa_msgs : list dmsg }.

Definition maps_names (k : mkind) : bool :=
  match k with MInsert | MDelete | MDropPartition | MDropCollection | MImport => true | _ => false end.

(* per message: replicate mark when a replicate id is configured, tick -> replicate-tick, name mapping *)
Definition prepare (rid : string) (nm : nmap) (digest_of_tick : N) (m : dmsg) : dmsg :=
  let marked := negb (String.eqb rid "") in
  let m1 := if marked then {| d_kind := d_kind m; d_id := d_id m; d_db := d_db m; d_coll := d_coll m; d_ts := d_ts m;
                              d_endts := d_endts m; d_digest := d_digest m; d_rep := true; d_rid := rid |} else m in
  match d_kind m1 with
  | MTick =>
      if marked then {| d_kind := MReplicate; d_id := 0; d_db := ""; d_coll := ""; d_ts := d_endts m; d_endts := d_endts m;
                        d_digest := digest_of_tick; d_rep := true; d_rid := rid |}
      else m1
  | k => if maps_names k
         then let '(tdb, tc) := map_names nm (d_db m1) (d_coll m1) in
              {| d_kind := k; d_id := d_id m1; d_db := tdb; d_coll := tc; d_ts := d_ts m1; d_endts := d_endts m1;
                 d_digest := d_digest m1; d_rep := d_rep m1; d_rid := d_rid m1 |}
         else m1
  end.

(* on the wire the BaseMsg times are not carried *)
Definition wire (m : dmsg) : dmsg :=
  {| d_kind := d_kind m; d_id := d_id m; d_db := d_db m; d_coll := d_coll m; d_ts := d_ts m; d_endts := 0;
     d_digest := d_digest m; d_rep := d_rep m; d_rid := d_rid m |}.

Inductive rres := RErr | ROk (msgid : string).

(* one HandleReplicateMessage call: the DataHandler call made (if any) and the result *)
Definition handle_rm (rid : string) (nm : nmap) (dtick : N) (ch : string) (p : rpack) (fail : bool) : option rparam * rres :=
  match rp_msgs p with
  | [] => (None, RErr)
  | _ =>
      let pa := {| pa_chan := ch; pa_begin := rp_begin p; pa_end := rp_end p; pa_start := rp_start p; pa_endp := rp_endp p;
                   pa_flag := true; pa_msgs := map (fun m => wire (prepare rid nm dtick m)) (rp_msgs p) |} in
      if fail then (Some pa, RErr)
      else (Some pa, ROk (p_id (last (rp_endp p) {| p_chan := ""; p_id := ""; p_ts := 0 |})))
  end.

(* ---- histories: calls on several channels; per channel the DataHandler sees them in call order ---- *)
Record rcall := { rc_chan : string; rc_pack : rpack; rc_fail : bool }.
Record robs := { ro_param : option rparam; ro_res : rres }.

Record case := { c_rid : string; c_nm : nmap; c_dtick : N; c_calls : list rcall; c_obs : list robs;
                 (* per channel: the DataHandler's own log of received params, in arrival order *)
                 c_chanlog : list (string * list rparam) }.

Definition mkind_eqb (a b : mkind) : bool :=
  match a, b with
  | MInsert, MInsert | MDelete, MDelete | MDropPartition, MDropPartition | MDropCollection, MDropCollection
  | MImport, MImport | MTick, MTick | MReplicate, MReplicate => true
  | _, _ => false
  end.
Definition dmsg_eqb (a b : dmsg) : bool :=
  mkind_eqb (d_kind a) (d_kind b) && N.eqb (d_id a) (d_id b) && String.eqb (d_db a) (d_db b) && String.eqb (d_coll a) (d_coll b)
  && N.eqb (d_ts a) (d_ts b) && N.eqb (d_endts a) (d_endts b) && N.eqb (d_digest a) (d_digest b)
  && Bool.eqb (d_rep a) (d_rep b) && String.eqb (d_rid a) (d_rid b).
Definition pos_eqb (a b : pos) : bool := String.eqb (p_chan a) (p_chan b) && String.eqb (p_id a) (p_id b) && N.eqb (p_ts a) (p_ts b).
Definition rparam_eqb (a b : rparam) : bool :=
  String.eqb (pa_chan a) (pa_chan b) && N.eqb (pa_begin a) (pa_begin b) && N.eqb (pa_end a) (pa_end b)
  && list_eqb pos_eqb (pa_start a) (pa_start b) && list_eqb pos_eqb (pa_endp a) (pa_endp b)
  && Bool.eqb (pa_flag a) (pa_flag b) && list_eqb dmsg_eqb (pa_msgs a) (pa_msgs b).
Definition rres_eqb (a b : rres) : bool :=
  match a, b with RErr, RErr => true | ROk x, ROk y => String.eqb x y | _, _ => false end.
Definition robs_eqb (a b : robs) : bool := option_eqb rparam_eqb (ro_param a) (ro_param b) && rres_eqb (ro_res a) (ro_res b).

Definition model_obs (c : case) : list robs :=
  map (fun k => let '(pa, r) := handle_rm (c_rid c) (c_nm c) (c_dtick c) (rc_chan k) (rc_pack k) (rc_fail k) in
                {| ro_param := pa; ro_res := r |}) (c_calls c).

(* per-channel order: the params of the calls on channel ch, in call order *)
Definition chan_params (ch : string) (calls : list rcall) (obs : list robs) : list rparam :=
  flat_map (fun ko => if String.eqb (rc_chan (fst ko)) ch then match ro_param (snd ko) with Some p => [p] | None => [] end else [])
           (combine calls obs).

Definition agrees (c : case) : bool :=
  list_eqb robs_eqb (model_obs c) (c_obs c)
  && forallb (fun cl => list_eqb rparam_eqb (chan_params (fst cl) (c_calls c) (model_obs c)) (snd cl)) (c_chanlog c).

(* ---- the property as a checker on observations ---- *)
Definition msg_ok (rid : string) (nm : nmap) (dtick : N) (src dec : dmsg) : bool :=
  let marked := negb (String.eqb rid "") in
  (* type: unchanged, except tick -> replicate-tick under a replicate id *)
  (if marked && mkind_eqb (d_kind src) MTick
   then mkind_eqb (d_kind dec) MReplicate && N.eqb (d_ts dec) (d_endts src) && N.eqb (d_digest dec) dtick
   else mkind_eqb (d_kind dec) (d_kind src) && N.eqb (d_id dec) (d_id src) && N.eqb (d_ts dec) (d_ts src)
        && N.eqb (d_digest dec) (d_digest src)
        && (if maps_names (d_kind src)
            then pair_str_eqb (d_db dec, d_coll dec) (map_names nm (d_db src) (d_coll src))
            else String.eqb (d_db dec) (d_db src) && String.eqb (d_coll dec) (d_coll src)))
  && (if marked then d_rep dec && String.eqb (d_rid dec) rid
      else Bool.eqb (d_rep dec) (d_rep src) && String.eqb (d_rid dec) (d_rid src)).

Definition call_ok (rid : string) (nm : nmap) (dtick : N) (k : rcall) (o : robs) : bool :=
  let p := rc_pack k in
  match rp_msgs p, ro_param o with
  | [], None => match ro_res o with RErr => true | _ => false end
  | [], Some _ => false
  | _ :: _, None => false
  | _ :: _, Some pa =>
      String.eqb (pa_chan pa) (rc_chan k) && N.eqb (pa_begin pa) (rp_begin p) && N.eqb (pa_end pa) (rp_end p)
      && list_eqb pos_eqb (pa_start pa) (rp_start p) && list_eqb pos_eqb (pa_endp pa) (rp_endp p) && pa_flag pa
      && list_eqb (fun s d => msg_ok rid nm dtick s d) (rp_msgs p) (pa_msgs pa)
      && (if rc_fail k then match ro_res o with RErr => true | _ => false end
          else match ro_res o with
               | ROk id => String.eqb id (p_id (last (rp_endp p) {| p_chan := ""; p_id := ""; p_ts := 0 |}))
               | RErr => false end)
  end.

Definition check_C07 (c : case) : bool :=
  forall2b (fun k o => call_ok (c_rid c) (c_nm c) (c_dtick c) k o) (c_calls c) (c_obs c)
  && forallb (fun cl => list_eqb rparam_eqb (chan_params (fst cl) (c_calls c) (c_obs c)) (snd cl)) (c_chanlog c).

Definition mismatches (l : list (N * case)) : list N := failing_ids agrees l.
Definition checkfails (l : list (N * case)) : list N := failing_ids check_C07 l.
Definition knownclass (l : list (N * case)) : list (N * N) := [].
Definition explain (c : case) := (model_obs c, c_obs c).
