From Coq Require Import List String NArith Bool.
From Verif Require Import Base.Util C18.Model.
Import ListNotations.
Local Open Scope string_scope.

Lemma mask_blank m r f : m f = true -> mask m r f = "".
Proof. unfold mask; intros ->; reflexivity. Qed.

Lemma req_hides r f : secret f = true -> mask req_masks r f = "".
Proof. intros H; apply mask_blank. destruct f; cbn in *; congruence. Qed.
Lemma task_hides r f : secret f = true -> mask task_masks r f = "".
Proof. intros H; apply mask_blank. destruct f; cbn in *; congruence. Qed.

(* every string leaf of a masked record is empty or the value of a non-secret field of the original *)
Lemma masked_leaves m r : (forall f, secret f = true -> m f = true) ->
  forall s, In s (leaves (mask m r)) -> s = "" \/ exists f, secret f = false /\ r f = s.
Proof.
  intros Hm s Hin. unfold leaves in Hin. apply in_map_iff in Hin. destruct Hin as [f [E _]].
  unfold mask in E. destruct (m f) eqn:Mf; [left; congruence|].
  right; exists f; split; [|exact E]. destruct (secret f) eqn:S; [|reflexivity]. rewrite (Hm f S) in Mf; discriminate.
Qed.

Lemma req_leaves r s : In s (leaves (mask req_masks r)) -> s = "" \/ exists f, secret f = false /\ r f = s.
Proof. apply masked_leaves. intros f; destruct f; cbn; congruence. Qed.
Lemma task_leaves r s : In s (leaves (mask task_masks r)) -> s = "" \/ exists f, secret f = false /\ r f = s.
Proof. apply masked_leaves. intros f; destruct f; cbn; congruence. Qed.

(* what the model says is visible never includes a secret field: the checker accepts every model run *)
Lemma model_passes set :
  List.length set = 11 ->
  check_C18 (CMask {| mc_set := set; mc_req_seen := visible req_masks (set_of set); mc_task_seen := visible task_masks (set_of set) |}) = true.
Proof.
  intros _. unfold check_C18, visible, all_fields; cbn.
  repeat match goal with |- context [set_of set ?f] => destruct (set_of set f) end; reflexivity.
Qed.
