(* C18 — property theorems only *)
From Coq Require Import List String NArith Bool.
From Verif Require Import Base.Util C18.Model C18.Proofs gen.Gen_sinks.
Import ListNotations.
Local Open Scope string_scope.

(* the text logged for a request (GetRequestInfo) blanks every credential field *)
Theorem C18_request_log_hides : forall r f, secret f = true -> mask req_masks r f = "".
Proof. exact req_hides. Qed.
Print Assumptions C18_request_log_hides.

(* the task returned by get / list (GetTask) blanks every credential field *)
Theorem C18_response_hides : forall r f, secret f = true -> mask task_masks r f = "".
Proof. exact task_hides. Qed.
Print Assumptions C18_response_hides.

(* for all field contents: every string leaf of either rendering is empty or the value of a non-secret field *)
Theorem C18_leaves : forall r s,
  (In s (leaves (mask req_masks r)) \/ In s (leaves (mask task_masks r))) ->
  s = "" \/ exists f, secret f = false /\ r f = s.
Proof. intros r s [H|H]; [apply req_leaves|apply task_leaves]; exact H. Qed.
Print Assumptions C18_leaves.

(* every log / format sink of the current sources whose argument type can carry a Password / Token field
   is one of the accepted kind (table regenerated from /repo on every run) *)
Theorem C18_sinks_safe : forallb sink_ok Gen_sinks = true.
Proof. vm_compute. reflexivity. Qed.
Print Assumptions C18_sinks_safe.

Example C18_nonvacuous :
  let r := fun f => match f with MPass => "pw" | MToken => "tok" | KSPass => "spw" | MHost => "h" | _ => "" end in
  In "h" (leaves (mask req_masks r)) /\ ~ In "pw" (leaves (mask req_masks r)) /\ ~ In "spw" (leaves (mask task_masks r)).
Proof. cbn. intuition discriminate. Qed.
