(* C18 — model of the two masking functions (server.GetRequestInfo for the "request receive" / "fail to
   create" logs, request.GetTask for get / list responses) over the credential-bearing fields of a
   create request, plus the checker used on the canary runs of the real server.  The log / format sinks
   whose argument type can carry a credential are regenerated from /repo (gen/Gen_sinks.v). *)
From Coq Require Import List String NArith Bool.
From Verif Require Import Base.Util.
Import ListNotations.
Local Open Scope string_scope.

Inductive field := MHost | MUser | MPass | MUri | MToken | KAddr | KTopic | KSUser | KSPass | KMech | KProto.
Definition all_fields : list field := [MHost; MUser; MPass; MUri; MToken; KAddr; KTopic; KSUser; KSPass; KMech; KProto].

(* what the statement calls credentials: passwords, tokens and SASL secrets *)
Definition secret (f : field) : bool := match f with MPass | MToken | KSPass => true | _ => false end.
(* fields blanked by GetRequestInfo (after the repair) and by GetTask *)
Definition req_masks (f : field) : bool := match f with MPass | MToken | KSPass => true | _ => false end.
Definition task_masks (f : field) : bool := match f with MUser | MPass | MToken | KSUser | KSPass => true | _ => false end.

Definition record := field -> string.
Definition mask (m : field -> bool) (r : record) : record := fun f => if m f then "" else r f.
Definition leaves (r : record) : list string := map r all_fields.

(* which fields' values are visible in the rendering (an empty value is never "visible") *)
Definition visible (m : field -> bool) (set : field -> bool) : list bool :=
  map (fun f => set f && negb (m f)) all_fields.

Definition field_eqb (a b : field) : bool :=
  match a, b with
  | MHost, MHost | MUser, MUser | MPass, MPass | MUri, MUri | MToken, MToken | KAddr, KAddr | KTopic, KTopic
  | KSUser, KSUser | KSPass, KSPass | KMech, KMech | KProto, KProto => true
  | _, _ => false
  end.

(* ---- cases ---- *)
(* mask case: which fields are set; which canaries the implementation's GetRequestInfo text / GetTask JSON shows *)
Record mcase := { mc_set : list bool; mc_req_seen : list bool; mc_task_seen : list bool }.
(* scenario case: per step, the credential canaries found in the log and in the response body *)
Record step := { st_name : string; st_in_log : list string; st_in_resp : list string }.
Inductive case := CMask (m : mcase) | CScen (name : string) (steps : list step).

Definition set_of (l : list bool) (f : field) : bool :=
  nth (match f with MHost => 0 | MUser => 1 | MPass => 2 | MUri => 3 | MToken => 4 | KAddr => 5 | KTopic => 6
                  | KSUser => 7 | KSPass => 8 | KMech => 9 | KProto => 10 end) l false.

Definition agrees (c : case) : bool :=
  match c with
  | CMask m => list_eqb Bool.eqb (visible req_masks (set_of (mc_set m))) (mc_req_seen m)
               && list_eqb Bool.eqb (visible task_masks (set_of (mc_set m))) (mc_task_seen m)
  | CScen _ steps => forallb (fun s => match st_in_log s, st_in_resp s with [], [] => true | _, _ => false end) steps
  end.

(* the property on observations: no secret field is visible anywhere *)
Definition check_C18 (c : case) : bool :=
  match c with
  | CMask m => forallb (fun fb => negb (secret (fst fb) && snd fb)) (combine all_fields (mc_req_seen m))
               && forallb (fun fb => negb (secret (fst fb) && snd fb)) (combine all_fields (mc_task_seen m))
  | CScen _ steps => forallb (fun s => match st_in_log s, st_in_resp s with [], [] => true | _, _ => false end) steps
  end.

(* ---- sinks ---- *)
Fixpoint prefixb (p s : string) : bool :=
  match p, s with
  | EmptyString, _ => true
  | String a p', String b s' => Ascii.eqb a b && prefixb p' s'
  | _, _ => false
  end.
Fixpoint containsb (p s : string) : bool :=
  prefixb p s || match s with EmptyString => false | String _ s' => containsb p s' end.

(* A sink is acceptable only if its argument is a replicated Milvus message (credentials of *replicated*
   users travel inside CreateUser messages and are not create-request credentials); every other sink whose
   argument type can carry a Password / Token field is refused. *)
Definition sink_ok (s : string * string * string * string) : bool :=
  let '(_, _, _, arg) := s in containsb "milvus/pkg/mq/msgstream." arg.

Definition mismatches (l : list (N * case)) : list N := failing_ids agrees l.
Definition checkfails (l : list (N * case)) : list N := failing_ids check_C18 l.
Definition knownclass (l : list (N * case)) : list (N * N) := [].
