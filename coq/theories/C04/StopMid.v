(* C04, a stop between the last counted shard and the hand-over of the drop request.
   The drop barrier of a collection (core/reader/replicate_channel_manager.go StartReadCollection, data_barrier.go) counts
   the shards that have read the drop-collection message; when all have, its callback hands the drop request to the event
   channel - or leaves through the barrier's close channel when StopReadCollection has closed it meanwhile.  Which way the
   callback takes when both are possible is the Go runtime's choice: the label carries it.  The collection is marked
   dropped in the manager (which outlives a stop / start of the collection) exactly when a request has been handed over. *)
From Coq Require Import List Arith Bool Lia.
Import ListNotations.

Record cfg := { mark_after_handover : bool }.
Definition cfg_now := {| mark_after_handover := true |}.
Definition cfg_early := {| mark_after_handover := false |}.   (* the mark is set before the select *)

Record st := { marked : bool; reqs : nat; reading : bool; seen : nat }.
Definition init : st := {| marked := false; reqs := 0; reading := false; seen := 0 |}.

Inductive label :=
| LStart                     (* StartReadCollection *)
| LStop                      (* StopReadCollection *)
| LRead                      (* one more shard reads the drop message *)
| LReadStop (sent : bool).   (* the last shard reads it; the stop closes the barrier before the hand-over; sent: the callback handed the request over all the same *)

Definition fire (s : st) : st := {| marked := true; reqs := S (reqs s); reading := false; seen := 0 |}.
Definition stop (s : st) : st := {| marked := marked s; reqs := reqs s; reading := false; seen := 0 |}.

Definition step (g : cfg) (shards : nat) (s : st) (l : label) : st :=
  match l with
  | LStart => if marked s || reading s then s else {| marked := false; reqs := reqs s; reading := true; seen := 0 |}
  | LStop => stop s
  | LRead =>
      if negb (reading s) then s
      else if Nat.eqb (S (seen s)) shards then fire s
      else {| marked := marked s; reqs := reqs s; reading := true; seen := S (seen s) |}
  | LReadStop sent =>
      if negb (reading s) then stop s
      else if Nat.eqb (S (seen s)) shards
           then (if sent then fire s
                 else {| marked := negb (mark_after_handover g); reqs := reqs s; reading := false; seen := 0 |})
           else stop s
  end.

Fixpoint run (g : cfg) (shards : nat) (s : st) (ls : list label) : st :=
  match ls with [] => s | l :: r => run g shards (step g shards s l) r end.

Fixpoint trace (g : cfg) (shards : nat) (s : st) (ls : list label) : list nat :=
  match ls with [] => [] | l :: r => let s' := step g shards s l in reqs s' :: trace g shards s' r end.
