(* C04, stop before the hand-over - cases of `h_reader -mode c04s`: the real channel manager over lib/rfake; the replicate meta
   store holds the recording of the last shard's signal while StopReadCollection runs, so the barrier's callback finds its
   close channel closed.  After every label: the number of drop-collection requests handed over so far.  Every history ends
   with stop, start, and every shard reading the drop message. *)
From Coq Require Import List Arith NArith Bool.
From Verif Require Import Base.Util.
From Verif Require Export C04.StopMid.
Import ListNotations.

Record smcase := { sm_shards : nat; sm_ops : list label; sm_reqs : list nat }.

Fixpoint nats_eqb (a b : list nat) : bool :=
  match a, b with
  | [], [] => true
  | x :: a', y :: b' => Nat.eqb x y && nats_eqb a' b'
  | _, _ => false
  end.
Definition smagrees (k : smcase) : bool := nats_eqb (trace cfg_now (sm_shards k) init (sm_ops k)) (sm_reqs k).

Definition label_eqb (a b : label) : bool :=
  match a, b with
  | LStart, LStart | LStop, LStop | LRead, LRead => true
  | LReadStop x, LReadStop y => Bool.eqb x y
  | _, _ => false
  end.
Fixpoint labels_eqb (a b : list label) : bool :=
  match a, b with
  | [], [] => true
  | x :: a', y :: b' => label_eqb x y && labels_eqb a' b'
  | _, _ => false
  end.
Definition closing (shards : nat) : list label := LStop :: LStart :: repeat LRead shards.
Definition ends_closed (shards : nat) (ops : list label) : bool :=
  let n := List.length (closing shards) in
  Nat.leb n (List.length ops) && labels_eqb (skipn (List.length ops - n) ops) (closing shards).

Fixpoint mono (prev : nat) (l : list nat) : bool :=
  match l with [] => true | x :: r => Nat.leb prev x && Nat.leb x 1 && mono x r end.

(* the statement on the observations: never more than one request, and exactly one once the collection has been started
   again and read completely *)
Definition check_C04s (k : smcase) : bool :=
  Nat.eqb (List.length (sm_ops k)) (List.length (sm_reqs k)) && mono 0 (sm_reqs k)
  && (negb (ends_closed (sm_shards k) (sm_ops k)) || Nat.eqb (last (sm_reqs k) 0) 1).

Definition mismatches (l : list (N * smcase)) : list N := failing_ids smagrees l.
Definition checkfails (l : list (N * smcase)) : list N := failing_ids check_C04s l.
Definition knownclass (l : list (N * smcase)) : list (N * N) := [].
