(* C04 - the once-only signal of a shard to a drop barrier (core/model/reader.go, OnceWriteChan.Write = sync.Once around a channel send).
   A shard may reach its barrier signal twice at the same time: the pack that its handler generates for an object dropped while CDC was
   down (handler main loop) and the real drop message read from the stream (stream goroutine).  Goroutine steps are labels. *)
From Coq Require Import List Arith Bool Lia.
Import ListNotations.

(* once = true: the code as it is (sync.Once: a second caller waits until the first has finished and then returns);
   once = false: test-then-send (a caller that finds the flag clear goes on to send; the flag is set after the send) *)
Record ost := { o_done : bool; o_inside : list nat; o_sent : nat }.
Definition o_init : ost := {| o_done := false; o_inside := []; o_sent := 0 |}.
Inductive olbl := OCall (i : nat)      (* goroutine i calls Write *)
                | ORecv.               (* the barrier goroutine receives one signal *)

Definition ostep (once : bool) (s : ost) (l : olbl) : ost :=
  match l with
  | OCall i =>
      if o_done s then s
      else if once && negb (match o_inside s with [] => true | _ => false end) then s      (* waits inside once.Do, then returns *)
      else {| o_done := o_done s; o_inside := o_inside s ++ [i]; o_sent := o_sent s |}      (* blocked on the send *)
  | ORecv =>
      match o_inside s with
      | [] => s
      | _ :: r => {| o_done := true; o_inside := r; o_sent := S (o_sent s) |}
      end
  end.
Definition orun (once : bool) (ls : list olbl) : ost := fold_left (ostep once) ls o_init.

Definition OInv (s : ost) : Prop :=
  (o_done s = true -> o_inside s = [] /\ o_sent s = 1) /\ (o_done s = false -> o_sent s = 0 /\ length (o_inside s) <= 1).

Lemma ostep_inv s l : OInv s -> OInv (ostep true s l).
Proof.
  destruct s as [d ins sent]. unfold OInv; cbn [o_done o_inside o_sent]. intros [D N]. destruct l as [i|]; cbn [ostep o_done o_inside o_sent].
  - destruct d; [split; assumption|]. destruct (N eq_refl) as [S0 L].
    destruct ins as [|x r]; cbn [andb negb o_done o_inside o_sent].
    + split; [discriminate|]. intros _. split; [exact S0|cbn; lia].
    + split; assumption.
  - destruct ins as [|x r]; [split; assumption|]. cbn [o_done o_inside o_sent].
    destruct d; [destruct (D eq_refl) as [X _]; discriminate|]. destruct (N eq_refl) as [S0 L]. cbn in L.
    split; [|discriminate]. intros _. destruct r; [|cbn in L; lia]. rewrite S0. split; reflexivity.
Qed.

(* every schedule of callers and receives: at most one signal reaches the barrier *)
Lemma once_at_most_one ls : o_sent (orun true ls) <= 1.
Proof.
  assert (H : OInv (orun true ls)).
  { unfold orun. assert (I0 : OInv o_init) by (split; cbn; [discriminate|intros _; split; [reflexivity|lia]]). revert I0. generalize o_init.
    induction ls as [|l r IH]; intros s I; cbn [fold_left]; [exact I|]. apply IH, ostep_inv, I. }
  destruct H as [D N]. destruct (o_done (orun true ls)) eqn:E; [destruct (D eq_refl) as [_ ->]; lia|destruct (N eq_refl) as [-> _]; lia].
Qed.
(* test-then-send does not have the property: two callers, two signals *)
Lemma test_then_send_refuted : o_sent (orun false [OCall 0; OCall 1; ORecv; ORecv]) = 2.
Proof. reflexivity. Qed.

(* ---- cases of `h_reader -mode c04o`: k goroutines call Write on a fresh OnceWriteChan over an unbuffered channel one after the
   other (each blocked or returned before the next starts), then the channel is read until it stays empty ---- *)
Record ocase := { oc_writers : nat; oc_signals : nat }.
Definition sched (k : nat) : list olbl := map OCall (seq 0 k) ++ repeat ORecv k.
Definition oagrees (c : ocase) : bool := Nat.eqb (o_sent (orun true (sched (oc_writers c)))) (oc_signals c).
Definition check_once (c : ocase) : bool := Nat.leb (oc_signals c) 1 && (Nat.eqb (oc_writers c) 0 || Nat.eqb (oc_signals c) 1).
