(* C04 — property theorems only (model: Reader/Model.v, proofs: Reader/Proofs.v, C04/Proofs.v) *)
From Coq Require Import List String NArith ZArith Bool.
From Verif Require Import Base.Util Reader.Model Reader.Script Reader.Proofs C04.Check C04.Proofs Reader.Example.
From Verif Require C04.Once C04.OCheck C04.PartProofs.
Import ListNotations.
Local Open Scope string_scope.
Local Open Scope N_scope.

(* Every history of the reader model, for all catalogs, all label sequences (collections started and started again, partitions
   added, packs fed on any stream in any order, collections announced dropped or stopped) and all partition answers: at most
   one drop-collection request is ever issued for a collection, and once it has been issued the collection is marked dropped;
   barriers are unique per collection and a collection with a live barrier has had no request yet. *)
Theorem C04_at_most_once : forall retries ls c,
  let s := run retries ls in
  (cnt c s <= 1)%nat /\ (cnt c s = 1%nat -> zmem c (dcolls s) = true) /\ (In c (keys s) -> cnt c s = 0%nat) /\ NoDup (keys s).
Proof.
  intros retries ls c s. destruct (run_DI retries ls init DI_init) as [N I]. destruct (I c) as [A [B C]].
  split; [exact B|]. split; [exact C|]. split; [exact A|exact N].
Qed.
Print Assumptions C04_at_most_once.

(* a request is issued only by a barrier that has not fired and has counted as many signals as the collection has shards *)
Theorem C04_only_when_counted : forall s c b, events (fire_one s (c, b)) <> events s ->
  b_done b = false /\ (b_dest b <= b_got b)%nat /\ events (fire_one s (c, b)) = (events s ++ [EvDropColl c (b_ts b)])%list.
Proof. exact fire_one_counted. Qed.
Print Assumptions C04_only_when_counted.

(* once marked dropped, always marked dropped; and nothing is emitted for a message of a collection marked dropped *)
Theorem C04_dropped_stays : forall retries s l c, zmem c (dcolls s) = true -> zmem c (dcolls (step retries s l)) = true.
Proof. exact step_dcolls. Qed.
Print Assumptions C04_dropped_stays.

Theorem C04_nothing_afterwards : forall retries a m,
  zmem (m_coll m) (dcolls (a_st a)) = true -> (a_first a = None \/ a_first a = Some (m_coll m)) ->
  match one_msg retries a m with COk a' => a_out a' = a_out a /\ a_st a' = a_st a | CErr _ => False end.
Proof. exact one_msg_dropped. Qed.
Print Assumptions C04_nothing_afterwards.

Definition ex_drop : list label :=
  [StartColl {| ci_id := 101; ci_name := "c1"; ci_tid := 9101; ci_src := [("s_v0", "s0"); ("s_v1", "s1")]; ci_tgt := [("t_v0", "t0"); ("t_v1", "t1")];
                ci_parts := [("_default", 7%Z)]; ci_dropped := false; ci_seek := [] |};
   Feed 101 "c1" "s0" {| p_begin := 10; p_end := 20; p_starts := [10];
                         p_msgs := [{| m_kind := KDropColl; m_id := 5; m_coll := 101; m_part := 0; m_pname := ""; m_ts := 15; m_rows := O; m_pospch := true |}] |} [];
   Feed 101 "c1" "s1" {| p_begin := 10; p_end := 20; p_starts := [10];
                         p_msgs := [{| m_kind := KDropColl; m_id := 5; m_coll := 101; m_part := 0; m_pname := ""; m_ts := 15; m_rows := O; m_pospch := true |}] |} [];
   StartColl {| ci_id := 101; ci_name := "c1"; ci_tid := 9101; ci_src := [("s_v0", "s0"); ("s_v1", "s1")]; ci_tgt := [("t_v0", "t0"); ("t_v1", "t1")];
                ci_parts := [("_default", 7%Z)]; ci_dropped := false; ci_seek := [] |}].

(* the partition half, over every history of the reader model (partitions registered - also as dropped -, packs fed in any order on any
   shard, handlers waiting and started, collections stopped and started again): at most one drop-partition request is ever issued for a
   partition, once it has been issued the partition is marked dropped (so it is never registered again), and partition barriers are
   unique per (collection, partition) *)
Theorem C04_partition_at_most_once : forall retries ls c p,
  let s := run retries ls in
  (PartProofs.cntp c p s <= 1)%nat /\ (PartProofs.cntp c p s = 1%nat -> zmem p (dparts s) = true) /\ NoDup (map fst (pbars s)).
Proof. exact PartProofs.partition_at_most_once. Qed.
Print Assumptions C04_partition_at_most_once.

(* a drop-partition request is issued only by a barrier that has not fired and has counted as many signals as handlers were registered *)
Theorem C04_partition_only_when_counted : forall s c p b, events (PartProofs.firep s ((c, p), b)) <> events s ->
  b_done b = false /\ (b_dest b <= b_got b)%nat /\ events (PartProofs.firep s ((c, p), b)) = (events s ++ [EvDropPart c p (b_ts b)])%list.
Proof. exact PartProofs.firep_counted. Qed.
Print Assumptions C04_partition_only_when_counted.

(* the once-only signal of a shard to a drop barrier (OnceWriteChan.Write): whatever the schedule of the goroutines that reach it
   - the pack a handler generates for an object dropped while CDC was down and the real drop message of the stream may arrive at the
   same time - at most one signal reaches the barrier, so a shard is counted once; a test-then-send variant is refuted *)
Theorem C04_shard_signals_once : forall ls, (Once.o_sent (Once.orun true ls) <= 1)%nat.
Proof. exact Once.once_at_most_one. Qed.
Print Assumptions C04_shard_signals_once.
Theorem C04_test_then_send_refuted : Once.o_sent (Once.orun false [Once.OCall 0; Once.OCall 1; Once.ORecv; Once.ORecv]) = 2%nat.
Proof. exact Once.test_then_send_refuted. Qed.
Print Assumptions C04_test_then_send_refuted.

Example C04_nonvacuous :
  events (run 3 (firstn 2 ex_drop)) = [] /\ events (run 3 ex_drop) = [EvDropColl 101 15] /\ cnt 101 (run 3 ex_drop) = 1%nat
  /\ keys (run 3 (firstn 2 ex_drop)) = [101%Z] /\ keys (run 3 ex_drop) = [].
Proof. vm_compute. repeat split. Qed.

(* ---- a stop between the last counted shard and the hand-over of the drop request
   (model: C04/StopMid.v, cases of harness h_reader -mode c04s checked by C04.SMCheck) ---- *)
Require Verif.C04.StopMid Verif.C04.StopMidProofs Verif.C04.SMCheck Verif.C04.SMCheckProofs.

(* for every history of starts, stops, shards reading the drop message and stops that close the barrier right before the
   hand-over - whichever way the callback then takes -: the collection is marked dropped exactly when the one request has
   been handed over, and a marked collection is not read *)
Theorem C04_stop_before_handover_every_history : forall shards ls,
  let s := StopMid.run StopMid.cfg_now shards StopMid.init ls in
  (StopMid.marked s = true /\ StopMid.reqs s = 1%nat /\ StopMid.reading s = false) \/ (StopMid.marked s = false /\ StopMid.reqs s = 0%nat).
Proof. exact StopMidProofs.stopmid_every_history. Qed.
Print Assumptions C04_stop_before_handover_every_history.

(* whatever happened before: once the collection has been started again and every shard has read the drop message,
   exactly one request has been handed over in total *)
Theorem C04_one_request_after_restart : forall shards ls, (1 <= shards)%nat ->
  StopMid.reqs (StopMid.run StopMid.cfg_now shards StopMid.init (ls ++ StopMid.LStop :: StopMid.LStart :: repeat StopMid.LRead shards)) = 1%nat.
Proof. exact StopMidProofs.one_request_after_restart. Qed.
Print Assumptions C04_one_request_after_restart.

(* with the mark set before the hand-over the drop is lost when the stop wins *)
Theorem C04_early_mark_refuted : exists ls,
  StopMid.reqs (StopMid.run StopMid.cfg_early 1%nat StopMid.init (ls ++ StopMid.LStop :: StopMid.LStart :: repeat StopMid.LRead 1%nat)) <> 1%nat.
Proof. exact StopMidProofs.early_mark_refuted. Qed.
Print Assumptions C04_early_mark_refuted.

(* the checker evaluated on the implementation's request counts accepts every trace of this model *)
Theorem C04_stopmid_checker_accepts_model : forall k,
  (1 <= SMCheck.sm_shards k)%nat ->
  SMCheck.sm_reqs k = StopMid.trace StopMid.cfg_now (SMCheck.sm_shards k) StopMid.init (SMCheck.sm_ops k) -> SMCheck.check_C04s k = true.
Proof. exact SMCheckProofs.model_traces_accepted. Qed.
Print Assumptions C04_stopmid_checker_accepts_model.
