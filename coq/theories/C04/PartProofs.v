(* C04, partition half - over every history of the reader model a partition's drop request is issued at most once, only by a barrier
   that has not fired and has counted every registered handler, and the partition is marked dropped from then on *)
From Coq Require Import List String NArith ZArith Bool Arith Lia.
From Verif Require Import Base.Util Reader.Model Reader.Proofs C04.Proofs.
From Verif Require Import Reader.Forget.
From Verif Require C16.Model C16.Manager.
Import ListNotations.

Definition is_dp (c p : Z) (e : event) : bool := match e with EvDropPart c' p' _ => Z.eqb c' c && Z.eqb p' p | _ => false end.
Definition dpev (l : list event) : list event := filter (fun e => match e with EvDropPart _ _ _ => true | _ => false end) l.
Definition cntp (c p : Z) (s : st) : nat := List.length (filter (is_dp c p) (dpev (events s))).
(* what the invariant looks at: the barriers with their fired flag, the drop-partition requests, the partitions marked dropped *)
Definition pkeys (s : st) : list (Z * Z * bool) := map (fun x => (fst x, b_done (snd x))) (pbars s).
Definition pview (s : st) : list (Z * Z * bool) * list event * list Z := (pkeys s, dpev (events s), dparts s).

Definition PI (s : st) : Prop :=
  NoDup (map fst (pbars s))
  /\ forall c p, (cntp c p s <= 1)%nat /\ (cntp c p s = 1%nat -> zmem p (dparts s) = true)
                 /\ (In ((c, p), false) (pkeys s) -> cntp c p s = 0%nat).

Lemma PI_same s s' : pview s' = pview s -> PI s -> PI s'.
Proof.
  unfold pview. intros E [N I]. injection E as Ek Ee Ed.
  assert (Kf : map fst (pbars s') = map fst (pbars s)).
  { unfold pkeys in Ek. apply (f_equal (map fst)) in Ek. rewrite !map_map in Ek. exact Ek. }
  split; [rewrite Kf; exact N|]. intros c p. unfold cntp. rewrite Ee, Ed, Ek. apply I.
Qed.

Lemma dpev_app l l' : dpev (l ++ l') = (dpev l ++ dpev l')%list. Proof. apply filter_app. Qed.

(* ---- the content phase: a barrier signal changes neither the fired flags nor the requests ---- *)
Lemma pbar_set_keys l c p b b0 : b_done b = b_done b0 -> (forall x, In x l -> pbar_key_eqb (fst x) c p = true -> b_done (snd x) = b_done b0) ->
  map (fun x => (fst x, b_done (snd x))) (pbar_set l c p b) = map (fun x => (fst x, b_done (snd x))) l.
Proof.
  intros E H. unfold pbar_set. rewrite map_map. apply map_ext_in. intros x Hx. destruct (pbar_key_eqb (fst x) c p) eqn:K; [|reflexivity].
  cbn [fst snd]. rewrite E, (H x Hx K). reflexivity.
Qed.
Lemma pbar_get_in s c p b : pbar_get s c p = Some b -> exists x, In x (pbars s) /\ pbar_key_eqb (fst x) c p = true /\ snd x = b.
Proof.
  unfold pbar_get. destruct (find _ _) as [x|] eqn:F; [|discriminate]. intros E; injection E as <-. apply find_some in F. exists x. tauto.
Qed.
Lemma key_eqb_eq a c p : pbar_key_eqb a c p = true -> a = (c, p).
Proof. destruct a as [x y]. unfold pbar_key_eqb; cbn. intros H. apply andb_true_iff in H. destruct H as [A B]. apply Z.eqb_eq in A, B. congruence. Qed.

Lemma signal_pview s c p b : NoDup (map fst (pbars s)) -> pbar_get s c p = Some b ->
  forall g t, map (fun x => (fst x, b_done (snd x))) (pbar_set (pbars s) c p {| b_dest := b_dest b; b_got := g; b_ts := t; b_done := b_done b |})
              = pkeys s.
Proof.
  intros N G g t. apply (pbar_set_keys _ _ _ _ b); [reflexivity|]. intros x Hx K.
  destruct (pbar_get_in s c p b G) as [y [Hy [Ky Ey]]]. apply key_eqb_eq in K, Ky.
  assert (x = y).
  { clear -N Hx Hy K Ky. induction (pbars s) as [|z l IH]; [destruct Hx|]. cbn in N. inversion N; subst.
    destruct Hx as [->|Hx], Hy as [->|Hy]; try reflexivity.
    - exfalso. apply H1. apply in_map_iff. exists y. split; [congruence|exact Hy].
    - exfalso. apply H1. apply in_map_iff. exists x. split; [congruence|exact Hx].
    - apply IH; assumption. }
  subst y. rewrite Ey. reflexivity.
Qed.

Lemma part_lookup_pview retries a c r pid name res a' r' : part_lookup retries a c r pid name = (res, a', r') -> pview (a_st a') = pview (a_st a) /\ pbars (a_st a') = pbars (a_st a).
Proof.
  unfold part_lookup. destruct (alookup _ name); [intros H; injection H as _ <- _; split; reflexivity|].
  destruct (refresh retries (a_ans a) name _) as [[res0 rest] newmap]. destruct newmap; intros H; injection H as _ <- _; split; reflexivity.
Qed.
Lemma import_lookup_pview retries a c r count res a' r' : import_lookup retries a c r count = (res, a', r') -> pview (a_st a') = pview (a_st a).
Proof.
  unfold import_lookup. destruct (Nat.eqb _ count); [intros H; injection H as _ <- _; reflexivity|].
  destruct (refresh_count retries (a_ans a) count _) as [[ok rest] newmap]. destruct newmap; intros H; injection H as _ <- _; reflexivity.
Qed.

Lemma pview_err s : pview {| dcolls := dcolls s; dparts := dparts s; handlers := handlers s; clocks := clocks s; heap := heap s; cbars := cbars s; pbars := pbars s;
                             pbar_handlers := pbar_handlers s; keymap := keymap s; out := out s; events := (events s ++ [EvErr true])%list; alive := alive s;
                             mg := mg s; wsh := wsh s |} = pview s.
Proof. unfold pview, pkeys; cbn [pbars events dparts]. rewrite dpev_app; cbn. rewrite app_nil_r. reflexivity. Qed.

Lemma one_msg_pview retries a m : NoDup (map fst (pbars (a_st a))) ->
  match one_msg retries a m with COk a' => pview (a_st a') = pview (a_st a) | CErr s => pview s = pview (a_st a) end.
Proof.
  intros N. unfold one_msg.
  repeat dm; cbn [a_st] in *; rewrite ?append_frame; cbn [a_st] in *; try reflexivity.
  all: repeat match goal with
       | H : part_lookup _ _ _ _ _ _ = _ |- _ => apply part_lookup_pview in H; destruct H as [? ?]
       | H : import_lookup _ _ _ _ _ = _ |- _ => apply import_lookup_pview in H
       end.
  all: cbn [a_st a_h a_first a_out a_need a_fwd a_ans a_cname] in *.
  all: try assumption.
  all: try (unfold pview, pkeys; cbn [pbars events dparts upd_state]; rewrite ?dpev_app; cbn [dpev filter]; rewrite ?app_nil_r; reflexivity).
  all: try (etransitivity; [|eassumption]; unfold pview, pkeys; cbn [pbars events dparts upd_state]; rewrite ?dpev_app; cbn [dpev filter]; rewrite ?app_nil_r; reflexivity).
  all: etransitivity; [|eassumption]; unfold pview; cbn [pbars events dparts upd_state]; f_equal; f_equal.
  all: match goal with Hg : pbar_get ?s0 ?c ?p = Some ?b0, Hp : pbars ?s0 = pbars _ |- _ =>
         apply (signal_pview s0 c p b0); [rewrite Hp; exact N|exact Hg] end.
Qed.

Lemma all_msgs_pview retries : forall l a, NoDup (map fst (pbars (a_st a))) ->
  match all_msgs retries a l with COk a' => pview (a_st a') = pview (a_st a) | CErr s => pview s = pview (a_st a) end.
Proof.
  induction l as [|m r IH]; intros a N; cbn [all_msgs]; [reflexivity|].
  pose proof (one_msg_pview retries a m N) as F. destruct (one_msg retries a m) as [s|a1]; [exact F|].
  assert (N1 : NoDup (map fst (pbars (a_st a1)))).
  { unfold pview, pkeys in F. injection F as Fk _ _. apply (f_equal (map fst)) in Fk. rewrite !map_map in Fk.
    replace (map fst (pbars (a_st a1))) with (map (fun x : Z * Z * bar => fst (fst x, b_done (snd x))) (pbars (a_st a1))) by (apply map_ext; reflexivity).
    rewrite Fk. rewrite (map_ext _ fst) by reflexivity. exact N. }
  specialize (IH a1 N1). destruct (all_msgs retries a1 r); congruence.
Qed.

(* ---- the partition barriers firing ---- *)
Definition firep (s : st) (pb : Z * Z * bar) : st :=
  let '((c, p), b) := pb in
  if negb (b_done b) && Nat.leb (b_dest b) (b_got b)
  then {| dcolls := dcolls s; dparts := (dparts s ++ [p])%list; handlers := handlers s; clocks := clocks s; heap := heap s;
          cbars := cbars s; pbars := pbar_set (pbars s) c p {| b_dest := b_dest b; b_got := b_got b; b_ts := b_ts b; b_done := true |};
          pbar_handlers := pbar_handlers s; keymap := keymap s; out := out s;
          events := (events s ++ [EvDropPart c p (b_ts b)])%list; alive := alive s; mg := mg s; wsh := wsh s |}
  else s.
Lemma fire_pbars_fold s : fire_pbars s = fold_left firep (pbars s) s.
Proof. reflexivity. Qed.

Lemma zmem_app_r p l x : zmem p (l ++ [x]) = zmem p l || Z.eqb p x.
Proof. unfold zmem. rewrite existsb_app. cbn. rewrite orb_false_r. reflexivity. Qed.

Lemma cntp_app c p s s' c' p' t : dpev (events s') = (dpev (events s) ++ [EvDropPart c' p' t])%list ->
  cntp c p s' = (cntp c p s + (if Z.eqb c' c && Z.eqb p' p then 1 else 0))%nat.
Proof. intros E. unfold cntp. rewrite E, filter_app, app_length. cbn [filter is_dp]. destruct (Z.eqb c' c && Z.eqb p' p); reflexivity. Qed.

(* a request is issued only by a barrier that has not fired and has counted every registered handler *)
Lemma firep_counted s c p b : events (firep s ((c, p), b)) <> events s ->
  b_done b = false /\ (b_dest b <= b_got b)%nat /\ events (firep s ((c, p), b)) = (events s ++ [EvDropPart c p (b_ts b)])%list.
Proof.
  unfold firep. destruct (negb (b_done b) && Nat.leb (b_dest b) (b_got b)) eqn:E; [|intros H; contradiction H; reflexivity].
  intros _. apply andb_true_iff in E. destruct E as [E1 E2]. apply negb_true_iff in E1. apply Nat.leb_le in E2. repeat split; assumption.
Qed.

Lemma pkeys_set_done l c p b : NoDup (map fst l) -> In ((c, p), b) l ->
  forall k d, In (k, d) (map (fun x => (fst x, b_done (snd x))) (pbar_set l c p {| b_dest := b_dest b; b_got := b_got b; b_ts := b_ts b; b_done := true |}))
           -> (k = (c, p) /\ d = true) \/ (k <> (c, p) /\ In (k, d) (map (fun x => (fst x, b_done (snd x))) l)).
Proof.
  intros N Hin k d H. unfold pbar_set in H. rewrite map_map in H. apply in_map_iff in H. destruct H as [x [E Hx]].
  destruct (pbar_key_eqb (fst x) c p) eqn:K; cbn [fst snd b_done] in E.
  - apply key_eqb_eq in K. left. injection E as <- <-. split; [exact K|reflexivity].
  - right. injection E as <- <-. split.
    + intros Ek. unfold pbar_key_eqb in K. rewrite Ek in K. cbn in K. rewrite !Z.eqb_refl in K. discriminate.
    + apply in_map_iff. exists x. split; [reflexivity|exact Hx].
Qed.

Lemma firep_PI s c p b : PI s -> In ((c, p), b) (pbars s) -> PI (firep s ((c, p), b)).
Proof.
  intros [N I] Hin. unfold firep. destruct (negb (b_done b) && Nat.leb (b_dest b) (b_got b)) eqn:E; [|split; assumption].
  apply andb_true_iff in E. destruct E as [E1 _]. apply negb_true_iff in E1.
  set (s' := {| dcolls := dcolls s; dparts := (dparts s ++ [p])%list; handlers := handlers s; clocks := clocks s; heap := heap s; cbars := cbars s;
                pbars := pbar_set (pbars s) c p {| b_dest := b_dest b; b_got := b_got b; b_ts := b_ts b; b_done := true |};
                pbar_handlers := pbar_handlers s; keymap := keymap s; out := out s; events := (events s ++ [EvDropPart c p (b_ts b)])%list;
                alive := alive s; mg := mg s; wsh := wsh s |}).
  assert (Kf : map fst (pbars s') = map fst (pbars s)).
  { cbn [pbars s']. unfold pbar_set. rewrite map_map. apply map_ext. intros x. destruct (pbar_key_eqb (fst x) c p); reflexivity. }
  assert (C0 : cntp c p s = 0%nat).
  { destruct (I c p) as [_ [_ Z0]]. apply Z0. unfold pkeys. apply in_map_iff. exists ((c, p), b). split; [cbn; rewrite E1; reflexivity|exact Hin]. }
  split; [rewrite Kf; exact N|]. intros c0 p0. destruct (I c0 p0) as [A [B C]].
  assert (Ec : cntp c0 p0 s' = (cntp c0 p0 s + (if Z.eqb c c0 && Z.eqb p p0 then 1 else 0))%nat).
  { apply (cntp_app c0 p0 s s' c p (b_ts b)). cbn [events s']. rewrite dpev_app. reflexivity. }
  rewrite Ec. cbn [dparts s']. rewrite zmem_app_r.
  destruct (Z.eqb c c0 && Z.eqb p p0) eqn:Eq.
  - apply andb_true_iff in Eq. destruct Eq as [Q1 Q2]. apply Z.eqb_eq in Q1, Q2. subst c0 p0. rewrite C0. split; [lia|]. split.
    + intros _. rewrite Z.eqb_refl. apply orb_true_r.
    + intros H. unfold pkeys in H. cbn [pbars s'] in H. destruct (pkeys_set_done _ c p b N Hin _ _ H) as [[_ D]|[D _]]; [discriminate|contradiction D; reflexivity].
  - rewrite Nat.add_0_r. split; [exact A|]. split.
    + intros H. rewrite (B H). reflexivity.
    + intros H. apply C. unfold pkeys in H. cbn [pbars s'] in H. destruct (pkeys_set_done _ c p b N Hin _ _ H) as [[K _]|[_ D]]; [|exact D].
      injection K as -> ->. rewrite !Z.eqb_refl in Eq. discriminate.
Qed.


(* ---- PI only gets easier when barriers disappear or more partitions are marked dropped ---- *)
Lemma PI_weaken s s' :
  NoDup (map fst (pbars s')) -> (forall k, In k (pkeys s') -> In k (pkeys s)) -> dpev (events s') = dpev (events s) ->
  (forall p, zmem p (dparts s) = true -> zmem p (dparts s') = true) -> PI s -> PI s'.
Proof.
  intros N' Hk He Hd [N I]. split; [exact N'|]. intros c p. destruct (I c p) as [A [B C]]. unfold cntp in *. rewrite He.
  split; [exact A|]. split; [intros H; apply Hd, B, H|intros H; apply C, Hk, H].
Qed.

Lemma fire_cbars_pview s : pview (fire_cbars s) = pview s.
Proof.
  unfold fire_cbars. generalize (cbars s) at 1. intros l. revert s. induction l as [|[c b] r IH]; intros s; cbn [fold_left]; [reflexivity|].
  rewrite IH. destruct (_ && _); [|reflexivity]. unfold pview, pkeys; cbn [pbars events dparts]. rewrite dpev_app; cbn. rewrite app_nil_r. reflexivity.
Qed.

Lemma firep_keeps s c p b x : In x (pbars s) -> fst x <> (c, p) -> In x (pbars (firep s ((c, p), b))).
Proof.
  intros Hx Hne. unfold firep. destruct (_ && _); [|exact Hx]. cbn [pbars]. unfold pbar_set. apply in_map_iff. exists x. split; [|exact Hx].
  destruct (pbar_key_eqb (fst x) c p) eqn:K; [apply key_eqb_eq in K; contradiction|reflexivity].
Qed.

Lemma fire_pbars_PI s : PI s -> PI (fire_pbars s).
Proof.
  intros P. rewrite fire_pbars_fold.
  assert (H : forall l s0, PI s0 -> NoDup (map fst l) -> (forall x, In x l -> In x (pbars s0)) -> PI (fold_left firep l s0)).
  { induction l as [|[[c p] b] r IH]; intros s0 P0 N Hsub; cbn [fold_left]; [exact P0|].
    cbn [map fst] in N. inversion N as [|? ? Hnin N']; subst.
    apply IH; [apply firep_PI; [exact P0|apply Hsub; left; reflexivity]|exact N'|].
    intros x Hx. apply firep_keeps; [apply Hsub; right; exact Hx|]. intros E. apply Hnin. apply in_map_iff. exists x. split; [exact E|exact Hx]. }
  apply H; [exact P|apply P|auto].
Qed.

(* ---- the labels ---- *)
Lemma start_handler_pview s a b c z : pview (start_handler s a b c z) = pview s. Proof. reflexivity. Qed.
Lemma add_shard_pview s c ref sh : pview (add_shard s c ref sh) = pview s.
Proof.
  unfold add_shard. destruct (hlookup s _); [reflexivity|]. destruct (Manager.has_handler _ _); [reflexivity|]. destruct (alookup _ _); reflexivity.
Qed.
Lemma fold_pview {A} (f : st -> A -> st) : (forall s x, pview (f s x) = pview s) -> forall l s, pview (fold_left f l s) = pview s.
Proof. intros H l. induction l as [|x l IH]; intros s; cbn [fold_left]; [reflexivity|]. rewrite IH. apply H. Qed.
Lemma settle_pview s : pview (settle s) = pview s.
Proof.
  unfold settle, materialise. rewrite fold_pview; [reflexivity|]. intros s0 k. destruct (alookup _ _); [|reflexivity].
  destruct (Manager.find_handler _ _) as [mh|]; [|reflexivity]. cbn [with_mg].
  match goal with |- pview (with_mg ?s2 _ _) = _ => change (pview s2 = pview s0) end.
  rewrite (fold_pview (fun s w => set_clock s (Manager.h_tgt mh) (collect (clock_of s (Manager.h_tgt mh)) (ws_seek w)))); [reflexivity|intros; reflexivity].
Qed.
Lemma emit_pview s ch label b e msgs need : pview (emit s ch label b e msgs need) = pview s.
Proof. unfold emit. destruct label as [[lc ln] lsp]. repeat dm; reflexivity. Qed.

Lemma pbar_get_none_notin s c p : pbar_get s c p = None -> ~ In (c, p) (map fst (pbars s)).
Proof.
  unfold pbar_get. destruct (find _ _) eqn:F; [discriminate|]. intros _ Hin. apply in_map_iff in Hin. destruct Hin as [x [E Hx]].
  pose proof (find_none _ _ F x Hx) as K. unfold pbar_key_eqb in K. rewrite E in K. cbn in K. rewrite !Z.eqb_refl in K. discriminate.
Qed.

Lemma forget_pview l b x : pview (forget_fired l b x) = pview x.
Proof.
  pose proof (forget_fired_frame l b x) as F. unfold same_but_heap in F. unfold pview, pkeys.
  repeat match goal with H : _ /\ _ |- _ => destruct H end. congruence.
Qed.

Lemma step_PI retries s l : PI s -> PI (step retries s l).
Proof.
  intros P. unfold step. apply (PI_same _ _ (forget_pview _ _ _)). apply fire_pbars_PI. apply (PI_same _ _ (fire_cbars_pview _)).
  destruct l as [c|c pid pname th pd|c cname spch p answers|cs|c spchs|ns nt].
  - (* StartColl *)
    destruct (zmem _ _); [exact P|]. destruct (zlookup _ _); [exact P|]. destruct (pairing c) as [shards|]; [|exact P].
    eapply PI_same; [|exact P]. rewrite settle_pview.
    match goal with |- pview (fold_left ?f ?l ?s1) = _ => rewrite (fold_pview f); [reflexivity|intros s0 sh; apply add_shard_pview] end.
  - (* AddPart *)
    destruct (zmem pid (dparts s) || zmem c (dcolls s)) eqn:Gd; [exact P|]. apply orb_false_iff in Gd. destruct Gd as [Gp _].
    repeat match goal with |- PI ?t => match t with match ?x with _ => _ end => destruct x eqn:? end end; try exact P.
    + (* dropped on both sides: marked dropped *)
      apply (PI_weaken s); [apply P|auto| |intros q Hq|exact P]; cbn [upd_state pbars events dparts]; [reflexivity|].
      rewrite zmem_app_r, Hq. reflexivity.
    + (* the create-partition event only *)
      eapply PI_same; [|exact P]. unfold pview, pkeys; cbn [upd_state pbars events dparts]. destruct (match alookup _ pname with Some _ => true | None => false end); [reflexivity|].
      rewrite dpev_app; cbn. rewrite app_nil_r. reflexivity.
    + (* a new barrier *)
      destruct P as [N I].
      match goal with H : pbar_get s c pid = None |- _ => pose proof (pbar_get_none_notin s c pid H) as Nin end.
      assert (C0 : cntp c pid s = 0%nat).
      { destruct (I c pid) as [A [B _]]. destruct (cntp c pid s) as [|[|n]] eqn:E; [reflexivity| |lia]. specialize (B eq_refl). congruence. }
      split; cbn [pbars].
      * rewrite map_app. cbn. apply NoDup_app_snoc; assumption.
      * intros c0 p0. destruct (I c0 p0) as [A [B C]].
        match goal with |- (cntp c0 p0 ?s' <= 1)%nat /\ _ => assert (Ec : cntp c0 p0 s' = cntp c0 p0 s) end.
        { unfold cntp; cbn [events]. destruct (match alookup _ pname with Some _ => true | None => false end); [reflexivity|].
          rewrite dpev_app; cbn. rewrite app_nil_r. reflexivity. }
        rewrite Ec. cbn [dparts].
        split; [exact A|]. split; [exact B|]. unfold pkeys; cbn [pbars]. rewrite map_app. cbn. intros H. apply in_app_iff in H.
        destruct H as [H|[H|[]]]; [apply C, H|]. injection H as <- <-. exact C0.
  - (* Feed *)
    destruct (hlookup s spch) as [h|]; [|exact P].
    match goal with |- context [all_msgs retries ?a0 ?l] => pose proof (all_msgs_pview retries l a0) as Sh; destruct (all_msgs retries a0 l) as [s1|a] end.
    + specialize (Sh (proj1 P)). assert (Sh' : pview s1 = pview s) by exact Sh. eapply PI_same; [|exact P]. exact Sh'.
    + specialize (Sh (proj1 P)). assert (Sh' : pview (a_st a) = pview s) by exact Sh. clear Sh. rename Sh' into Sh.
      destruct (a_fwd a).
      * match goal with |- context [find ?f ?l] => destruct (find f l) end.
        -- eapply PI_same; [|exact P]. rewrite emit_pview. exact Sh.
        -- eapply PI_same; [|exact P]. rewrite <- Sh. unfold pview, pkeys; cbn [pbars events dparts]. rewrite dpev_app; cbn. rewrite app_nil_r. reflexivity.
      * eapply PI_same; [|exact P]. rewrite emit_pview. exact Sh.
  - eapply PI_same; [|exact P]. reflexivity.
  - (* StopColl: the barriers of the collection are closed *)
    apply (PI_weaken s); cbn [pbars events dparts]; [| |reflexivity|auto|exact P].
    + destruct P as [N _]. clear -N. induction (pbars s) as [|x l IH]; cbn; [constructor|]. cbn in N. inversion N; subst.
      destruct (negb _); cbn; [|apply IH; assumption]. constructor; [|apply IH; assumption].
      intros Hin. apply in_map_iff in Hin. destruct Hin as [y [E Hy]]. apply filter_In in Hy. apply H1. apply in_map_iff. exists y. tauto.
    + intros k Hk. unfold pkeys in *. cbn [pbars] in Hk. apply in_map_iff in Hk. destruct Hk as [x [E Hx]]. apply filter_In in Hx. apply in_map_iff. exists x. tauto.
  - destruct (handlers s); [|exact P]. destruct (wsh s); [|exact P]. destruct (Manager.g_hs (mg s)); [|exact P]. eapply PI_same; [|exact P]. reflexivity.
Qed.

Lemma PI_init : PI init.
Proof. split; [constructor|]. intros c p. unfold cntp, pkeys. cbn. split; [lia|]. split; [discriminate|intros []]. Qed.

Lemma partition_at_most_once retries ls c p :
  let s := run retries ls in
  (cntp c p s <= 1)%nat /\ (cntp c p s = 1%nat -> zmem p (dparts s) = true) /\ NoDup (map fst (pbars s)).
Proof.
  cbn zeta. assert (H : PI (run retries ls)).
  { unfold run. generalize PI_init. generalize init. induction ls as [|l r IH]; intros s0 P0; cbn [fold_left]; [exact P0|]. apply IH, step_PI, P0. }
  destruct H as [N I]. destruct (I c p) as [A [B _]]. repeat split; assumption.
Qed.
