(* C04 — proofs: over every history of the reader model a collection's drop request is issued at most once, only when its
   barrier has counted every shard, and the collection is marked dropped from then on *)
From Coq Require Import List String NArith ZArith Bool Arith Lia Permutation Sorting.Sorted.
From Verif Require Import Base.Util Reader.Model Reader.Script Reader.Proofs C03.Proofs.
From Verif Require Import Reader.Forget.
Import ListNotations.
Local Open Scope string_scope.

Definition is_dc (c : Z) (e : event) : bool := match e with EvDropColl c' _ => Z.eqb c' c | _ => false end.
Definition cnt (c : Z) (s : st) : nat := List.length (filter (is_dc c) (events s)).
Definition keys (s : st) : list Z := map fst (cbars s).
Definition has_bar (c : Z) (s : st) : bool := match zlookup (cbars s) c with Some _ => true | None => false end.

Definition DI (s : st) : Prop :=
  NoDup (keys s)
  /\ forall c, (In c (keys s) -> cnt c s = 0%nat) /\ (cnt c s <= 1)%nat /\ (cnt c s = 1%nat -> zmem c (dcolls s) = true).

(* ---------- association list facts ---------- *)
Lemma zlookup_in {A} (l : list (Z * A)) k : (exists v, zlookup l k = Some v) <-> In k (map fst l).
Proof.
  induction l as [|[k' v'] r IH]; cbn; [split; [intros [v H]; discriminate|intros []]|].
  destruct (Z.eqb_spec k k') as [->|Hne]; split.
  - intros _. left. reflexivity.
  - intros _. exists v'. reflexivity.
  - intros H. right. apply IH. exact H.
  - intros [H|H]; [congruence|]. apply IH. exact H.
Qed.
Lemma zupsert_keys_some {A} (l : list (Z * A)) k v v0 : zlookup l k = Some v0 -> map fst (zupsert l k v) = map fst l.
Proof.
  induction l as [|[k' v'] r IH]; cbn; [discriminate|]. destruct (Z.eqb_spec k k') as [->|Hne]; [reflexivity|].
  intros H. cbn. rewrite (IH H). reflexivity.
Qed.
Lemma zupsert_keys_none {A} (l : list (Z * A)) k v : zlookup l k = None -> map fst (zupsert l k v) = (map fst l ++ [k])%list.
Proof.
  induction l as [|[k' v'] r IH]; cbn; [reflexivity|]. destruct (Z.eqb_spec k k') as [->|Hne]; [discriminate|].
  intros H. cbn. rewrite (IH H). reflexivity.
Qed.
Lemma zlookup_zupsert {A} (l : list (Z * A)) k v k' : zlookup (zupsert l k v) k' = if Z.eqb k' k then Some v else zlookup l k'.
Proof.
  induction l as [|[k0 v0] r IH]; cbn.
  - destruct (Z.eqb k' k); reflexivity.
  - destruct (Z.eqb_spec k k0) as [->|Hne]; cbn.
    + destruct (Z.eqb k' k0); reflexivity.
    + destruct (Z.eqb_spec k' k0) as [->|Hne2]; [destruct (Z.eqb_spec k0 k); [congruence|reflexivity]|exact IH].
Qed.
Lemma zlookup_zremove {A} (l : list (Z * A)) k k' : zlookup (zremove l k) k' = if Z.eqb k' k then None else zlookup l k'.
Proof.
  induction l as [|[k0 v0] r IH]; cbn; [destruct (Z.eqb k' k); reflexivity|].
  destruct (Z.eqb_spec k k0) as [->|Hne].
  - rewrite IH. destruct (Z.eqb_spec k' k0); reflexivity.
  - cbn. destruct (Z.eqb_spec k' k0) as [->|Hne2]; [destruct (Z.eqb_spec k0 k); [congruence|reflexivity]|exact IH].
Qed.
Lemma zremove_keys {A} (l : list (Z * A)) k : map fst (zremove l k) = filter (fun x => negb (Z.eqb k x)) (map fst l).
Proof. induction l as [|[k0 v0] r IH]; cbn; [reflexivity|]. destruct (Z.eqb k k0); cbn; rewrite IH; reflexivity. Qed.
Lemma NoDup_filter {A} (f : A -> bool) l : NoDup l -> NoDup (filter f l).
Proof.
  induction 1 as [|x l H _ IH]; cbn; [constructor|]. destruct (f x); [|exact IH]. constructor; [|exact IH].
  intros Hin. apply filter_In in Hin. apply H, Hin.
Qed.

(* ---------- the invariant only looks at three things ---------- *)
Definition dcev (l : list event) : list event := filter (fun e => match e with EvDropColl _ _ => true | _ => false end) l.
Lemma cnt_dcev c s : cnt c s = List.length (filter (is_dc c) (dcev (events s))).
Proof.
  unfold cnt, dcev. f_equal. induction (events s) as [|e l IH]; cbn; [reflexivity|]. destruct e; cbn; try exact IH.
  destruct (Z.eqb c0 c); [f_equal|]; exact IH.
Qed.
Lemma DI_same s s' : keys s' = keys s -> dcev (events s') = dcev (events s) ->
  (forall c, zmem c (dcolls s) = true -> zmem c (dcolls s') = true) -> DI s -> DI s'.
Proof.
  intros Hc He Hd [N I].
  assert (Hcnt : forall c, cnt c s' = cnt c s) by (intros c; rewrite !cnt_dcev, He; reflexivity).
  split; [rewrite Hc; exact N|]. intros c. destruct (I c) as [A [B C]]. rewrite Hc, Hcnt.
  split; [exact A|]. split; [exact B|]. intros H. apply Hd, C, H.
Qed.

Definition T3 (s s' : st) : Prop := keys s' = keys s /\ dcev (events s') = dcev (events s) /\ dcolls s' = dcolls s.
Lemma T3_refl s : T3 s s. Proof. repeat split. Qed.
Lemma T3_trans a b c : T3 a b -> T3 b c -> T3 a c.
Proof. intros [A [B C]] [D [E F]]. repeat split; congruence. Qed.
Lemma DI_T3 s s' : T3 s s' -> DI s -> DI s'.
Proof. intros [A [B C]]. apply DI_same; [exact A|exact B|]. intros c. rewrite C. auto. Qed.

Lemma dcev_app l l' : dcev (l ++ l') = (dcev l ++ dcev l')%list.
Proof. apply filter_app. Qed.

Lemma part_lookup_T3 retries a c r pid name res a' r' :
  part_lookup retries a c r pid name = (res, a', r') -> T3 (a_st a) (a_st a').
Proof.
  unfold part_lookup. destruct (alookup _ name); [intros H; injection H as _ <- _; apply T3_refl|].
  destruct (refresh retries (a_ans a) name _) as [[res0 rest] newmap].
  destruct newmap; intros H; injection H as _ <- _; cbn; repeat split.
Qed.

Lemma import_lookup_T3 retries a c r count res a' r' :
  import_lookup retries a c r count = (res, a', r') -> T3 (a_st a) (a_st a').
Proof.
  unfold import_lookup. destruct (Nat.eqb _ count); [intros H; injection H as _ <- _; apply T3_refl|].
  destruct (refresh_count retries (a_ans a) count _) as [[ok rest] newmap].
  destruct newmap; intros H; injection H as _ <- _; cbn; repeat split.
Qed.

Lemma one_msg_T3 retries a m :
  match one_msg retries a m with COk a' => T3 (a_st a) (a_st a') | CErr s => T3 (a_st a) s end.
Proof.
  unfold one_msg.
  repeat dm; try apply T3_refl.
  all: repeat match goal with H : part_lookup _ _ _ _ _ _ = _ |- _ => apply part_lookup_T3 in H | H : import_lookup _ _ _ _ _ = _ |- _ => apply import_lookup_T3 in H end.
  all: repeat rewrite append_frame.
  all: cbn [a_st] in *.
  all: try assumption.
  all: unfold T3, keys in *; cbn [cbars events dcolls upd_state] in *.
  all: repeat rewrite dcev_app; cbn [dcev filter]; repeat rewrite app_nil_r.
  all: try (repeat split; intuition congruence).
  all: match goal with Hz : zlookup ?l ?k = Some _ |- context [zupsert ?l ?k ?v] => rewrite (zupsert_keys_some l k v _ Hz) end.
  all: repeat split; intuition congruence.
Qed.

Lemma all_msgs_T3 retries : forall l a,
  match all_msgs retries a l with COk a' => T3 (a_st a) (a_st a') | CErr s => T3 (a_st a) s end.
Proof.
  induction l as [|m r IH]; intros a; cbn [all_msgs]; [apply T3_refl|].
  pose proof (one_msg_T3 retries a m) as F. destruct (one_msg retries a m) as [s|a1]; [exact F|].
  specialize (IH a1). destruct (all_msgs retries a1 r); eapply T3_trans; eassumption.
Qed.

(* ---------- the collection barriers firing ---------- *)
Lemma zmem_app c l l' : zmem c (l ++ l') = zmem c l || zmem c l'.
Proof. unfold zmem. apply existsb_app. Qed.

Definition fire_one (s : st) (cb : Z * bar) : st :=
  let '(c, b) := cb in
  if negb (b_done b) && Nat.leb (b_dest b) (b_got b)
  then
    let hs := map (fun h => if existsb (fun k => Z.eqb (fst k) c && String.eqb (snd k) (h_src h)) (keymap s) then del_rec h c else h) (handlers s) in
    {| dcolls := (dcolls s ++ [c])%list; dparts := dparts s; handlers := hs; clocks := clocks s; heap := heap s;
       cbars := zremove (cbars s) c; pbars := pbars s; pbar_handlers := pbar_handlers s; keymap := keymap s; out := out s;
       events := (events s ++ [EvDropColl c (b_ts b)])%list; alive := alive s; mg := mg s; wsh := wsh s |}
  else s.
Lemma fire_cbars_fold s : fire_cbars s = fold_left fire_one (cbars s) s.
Proof. reflexivity. Qed.

Lemma cnt_app_dc c s c' ts (s' : st) : events s' = (events s ++ [EvDropColl c' ts])%list ->
  cnt c s' = (cnt c s + (if Z.eqb c' c then 1 else 0))%nat.
Proof. intros E. unfold cnt. rewrite E, filter_app, app_length. cbn [filter is_dc]. destruct (Z.eqb c' c); reflexivity. Qed.

Lemma fire_one_DI s c b : DI s -> In c (keys s) -> DI (fire_one s (c, b)) /\ (forall c', c' <> c -> In c' (keys s) -> In c' (keys (fire_one s (c, b)))).
Proof.
  intros [N I] Hin. unfold fire_one. destruct (negb (b_done b) && Nat.leb (b_dest b) (b_got b)); [|split; [split; assumption|auto]].
  set (s' := {| dcolls := (dcolls s ++ [c])%list; dparts := dparts s; handlers := _; clocks := clocks s; heap := heap s; cbars := zremove (cbars s) c;
                pbars := pbars s; pbar_handlers := pbar_handlers s; keymap := keymap s; out := out s; events := (events s ++ [EvDropColl c (b_ts b)])%list;
                alive := alive s; mg := mg s; wsh := wsh s |}).
  assert (K : keys s' = filter (fun x => negb (Z.eqb c x)) (keys s)) by (unfold keys; cbn [cbars s']; apply zremove_keys).
  split.
  - split; [rewrite K; apply NoDup_filter; exact N|]. intros c0. destruct (I c0) as [A [B C]].
    rewrite (cnt_app_dc c0 s c (b_ts b) s' eq_refl). rewrite K. cbn [dcolls s']. rewrite zmem_app.
    destruct (Z.eqb_spec c c0) as [<-|Hne].
    + destruct (I c) as [A' _]. rewrite (A' Hin). split; [|split; [lia|]].
      * intros H. apply filter_In in H. destruct H as [_ H]. rewrite Z.eqb_refl in H. discriminate.
      * intros _. unfold zmem at 2. cbn. rewrite Z.eqb_refl. apply orb_true_r.
    + rewrite Nat.add_0_r. split; [|split; [exact B|]].
      * intros H. apply filter_In in H. apply A, H.
      * intros H. rewrite (C H). reflexivity.
  - intros c' Hne H. rewrite K. apply filter_In. split; [exact H|]. destruct (Z.eqb_spec c c'); [congruence|reflexivity].
Qed.

Lemma fire_fold_DI : forall l s, DI s -> NoDup (map fst l) -> (forall c, In c (map fst l) -> In c (keys s)) -> DI (fold_left fire_one l s).
Proof.
  induction l as [|[c b] r IH]; intros s D N H; cbn [fold_left]; [exact D|].
  cbn [map fst] in N, H. inversion N as [|? ? Hnin N']; subst.
  destruct (fire_one_DI s c b D (H c (or_introl eq_refl))) as [D' K].
  apply IH; [exact D'|exact N'|]. intros c' Hc'. apply K; [intros ->; contradiction|]. apply H. right. exact Hc'.
Qed.

Lemma fire_cbars_DI s : DI s -> DI (fire_cbars s).
Proof. intros D. rewrite fire_cbars_fold. apply fire_fold_DI; [exact D|apply D|auto]. Qed.

Lemma fire_pbars_T3 s : T3 s (fire_pbars s).
Proof.
  unfold fire_pbars. generalize (pbars s) at 1. intros l. revert s. induction l as [|[[c p] b] r IH]; intros s; cbn [fold_left]; [apply T3_refl|].
  eapply T3_trans; [|apply IH]. destruct (_ && _); [|apply T3_refl]. unfold T3, keys. cbn [cbars events dcolls]. rewrite dcev_app. cbn. rewrite app_nil_r. repeat split.
Qed.

(* ---------- every label preserves the invariant ---------- *)
Lemma NoDup_app_snoc {A} (l : list A) x : NoDup l -> ~ In x l -> NoDup (l ++ [x]).
Proof.
  induction 1 as [|y l H N IH]; intros Hx; cbn; [constructor; [intros []|constructor]|].
  constructor; [|apply IH; intros H'; apply Hx; right; exact H'].
  intros H'. apply in_app_or in H'. destruct H' as [H'|[<-|[]]]; [contradiction|]. apply Hx. left. reflexivity.
Qed.
Lemma emit_T3 s ch label b e msgs need : T3 s (emit s ch label b e msgs need).
Proof. unfold emit. destruct label as [[lc ln] lsp]. repeat dm; repeat split. Qed.

Lemma add_shard_T3 s c ref sh : T3 s (add_shard s c ref sh).
Proof.
  unfold add_shard. destruct (hlookup s _); [repeat split|]. destruct (Manager.has_handler _ _); [repeat split|].
  destruct (alookup _ _); repeat split.
Qed.
Lemma fold_T3 {A} (f : st -> A -> st) : (forall s x, T3 s (f s x)) -> forall l s, T3 s (fold_left f l s).
Proof. intros H l. induction l as [|x l IH]; intros s; cbn [fold_left]; [apply T3_refl|]. eapply T3_trans; [apply H|apply IH]. Qed.
Lemma settle_T3 s : T3 s (settle s).
Proof.
  unfold settle. eapply T3_trans; [|unfold materialise; apply fold_T3]; [repeat split|].
  intros s0 k. destruct (alookup _ _); [|apply T3_refl]. destruct (Manager.find_handler _ _) as [mh|]; [|apply T3_refl].
  eapply T3_trans; [|eapply T3_trans; [apply (fold_T3 (fun s w => set_clock s (Manager.h_tgt mh) (collect (clock_of s (Manager.h_tgt mh)) (ws_seek w)))); intros sx wx; repeat split|repeat split]].
  repeat split.
Qed.
Lemma fold_add_shard_T3 c ref : forall shards s, T3 s (fold_left (fun s sh => add_shard s c ref sh) shards s).
Proof. induction shards as [|sh r IH]; intros s; cbn [fold_left]; [apply T3_refl|]. eapply T3_trans; [apply add_shard_T3|apply IH]. Qed.

Lemma forget_T3 l b x : T3 x (forget_fired l b x).
Proof.
  pose proof (forget_fired_frame l b x) as F. unfold same_but_heap in F. unfold T3, keys.
  repeat match goal with H : _ /\ _ |- _ => destruct H end. repeat split; congruence.
Qed.

Lemma step_DI retries s l : DI s -> DI (step retries s l).
Proof.
  intros D. unfold step. apply (DI_T3 _ _ (forget_T3 _ _ _)). apply (DI_T3 _ _ (fire_pbars_T3 _)). apply fire_cbars_DI.
  destruct l as [c|c pid pname th|c cname spch p answers|cs|c spchs|ns nt].
  - destruct (zmem (ci_id c) (dcolls s)) eqn:Hd; [exact D|]. destruct (zlookup (cbars s) (ci_id c)) eqn:Hz; [exact D|].
    destruct (pairing c) as [shards|]; [|exact D].
    eapply DI_T3; [eapply T3_trans; [apply fold_add_shard_T3|apply settle_T3]|]. destruct D as [N I].
    assert (Hnin : ~ In (ci_id c) (keys s)).
    { intros H. apply (zlookup_in (cbars s)) in H. destruct H as [v H]. congruence. }
    split.
    + unfold keys. cbn [cbars]. rewrite (zupsert_keys_none _ _ _ Hz). apply NoDup_app_snoc; assumption.
    + intros c0. destruct (I c0) as [A [B C]]. unfold keys, cnt. cbn [cbars events dcolls]. rewrite (zupsert_keys_none _ _ _ Hz).
      split; [|split; assumption]. intros H. apply in_app_or in H. destruct H as [H|[<-|[]]]; [apply A, H|].
      fold (cnt (ci_id c) s) in *. destruct (cnt (ci_id c) s) as [|[|n]] eqn:E; [reflexivity| |lia]. specialize (C eq_refl). congruence.
  - eapply DI_T3; [|exact D]. repeat dm; try apply T3_refl; unfold T3, keys; cbn [cbars events dcolls upd_state]; try rewrite dcev_app; cbn; try rewrite app_nil_r; repeat split.
  - destruct (hlookup s spch) as [h|]; [|exact D]. eapply DI_T3; [|exact D].
    set (s0 := set_clock s (h_tgt h) _).
    assert (T0 : T3 s s0) by repeat split.
    match goal with |- context [all_msgs retries ?a0 ?l] => pose proof (all_msgs_T3 retries l a0) as Fr; destruct (all_msgs retries a0 l) as [s1|a] end.
    + cbn [a_st] in Fr. eapply T3_trans; [exact T0|]. eapply T3_trans; [exact Fr|]. repeat split.
    + cbn [a_st] in Fr. eapply T3_trans; [exact T0|]. eapply T3_trans; [exact Fr|].
      destruct (a_fwd a).
      * match goal with |- context [find ?f ?l] => destruct (find f l) end.
        -- eapply T3_trans; [|apply emit_T3]. repeat split.
        -- unfold T3, keys. cbn [cbars events dcolls]. rewrite dcev_app. cbn. rewrite app_nil_r. repeat split.
      * eapply T3_trans; [|apply emit_T3]. repeat split.
  - eapply DI_same; [| |  |exact D]; [reflexivity|reflexivity|]. intros c H. cbn [dcolls]. rewrite zmem_app, H. reflexivity.
  - destruct D as [N I]. split.
    + unfold keys. cbn [cbars]. rewrite zremove_keys. apply NoDup_filter. exact N.
    + intros c0. destruct (I c0) as [A [B C]]. unfold keys, cnt. cbn [cbars events dcolls]. rewrite zremove_keys.
      split; [|split; assumption]. intros H. apply filter_In in H. apply A, H.
  - destruct (handlers s); [|exact D]. destruct (wsh s); [|exact D]. destruct (Manager.g_hs (mg s)); [|exact D].
    eapply DI_T3; [|exact D]. repeat split.
Qed.

Lemma DI_init : DI init.
Proof. split; [constructor|]. intros c. unfold cnt, keys. cbn. split; [intros []|]. split; [lia|discriminate]. Qed.

Lemma run_DI retries : forall ls s, DI s -> DI (fold_left (step retries) ls s).
Proof. induction ls as [|l r IH]; intros s D; cbn [fold_left]; [exact D|]. apply IH, step_DI, D. Qed.

(* a request is issued by a barrier that has counted every shard, and by nothing else *)
Lemma fire_one_counted s c b : events (fire_one s (c, b)) <> events s ->
  b_done b = false /\ (b_dest b <= b_got b)%nat /\ events (fire_one s (c, b)) = (events s ++ [EvDropColl c (b_ts b)])%list.
Proof.
  unfold fire_one. destruct (b_done b); cbn [negb andb]; [congruence|]. destruct (Nat.leb_spec (b_dest b) (b_got b)); [|congruence].
  intros _. split; [reflexivity|]. split; [assumption|reflexivity].
Qed.

(* once a collection is marked dropped it stays so *)
Lemma fire_one_dcolls s cb c : zmem c (dcolls s) = true -> zmem c (dcolls (fire_one s cb)) = true.
Proof. destruct cb as [c' b]. unfold fire_one. destruct (_ && _); [|auto]. cbn [dcolls]. rewrite zmem_app. intros ->. reflexivity. Qed.
Lemma fire_cbars_dcolls s c : zmem c (dcolls s) = true -> zmem c (dcolls (fire_cbars s)) = true.
Proof.
  rewrite fire_cbars_fold. generalize (cbars s). intros l. revert s. induction l as [|cb r IH]; intros s H; cbn [fold_left]; [exact H|].
  apply IH, fire_one_dcolls, H.
Qed.

Lemma step_dcolls retries s l c : zmem c (dcolls s) = true -> zmem c (dcolls (step retries s l)) = true.
Proof.
  intros H. unfold step.
  match goal with |- zmem c (dcolls (forget_fired ?l ?b ?y)) = true => destruct (forget_T3 l b y) as [_ [_ ->]] end.
  match goal with |- zmem c (dcolls (fire_pbars (fire_cbars ?x))) = true => destruct (fire_pbars_T3 (fire_cbars x)) as [_ [_ ->]] end.
  apply fire_cbars_dcolls.
  destruct l as [c0|c0 pid pname th|c0 cname spch p answers|cs|c0 spchs|ns nt].
  - destruct (zmem (ci_id c0) (dcolls s)); [exact H|]. destruct (zlookup _ _); [exact H|]. destruct (pairing c0); [|exact H].
    match goal with |- context [settle ?x] => destruct (settle_T3 x) as [_ [_ ->]] end.
    match goal with |- context [fold_left ?f ?l ?s1] => destruct (fold_add_shard_T3 c0 (fresh_ref (heap s)) l s1) as [_ [_ ->]] end. exact H.
  - match goal with |- zmem c (dcolls ?s') = true => assert (T : T3 s s') end.
    { repeat dm; try apply T3_refl; unfold T3, keys; cbn [cbars events dcolls upd_state]; try rewrite dcev_app; cbn; try rewrite app_nil_r; repeat split. }
    destruct T as [_ [_ ->]]. exact H.
  - destruct (hlookup s spch) as [h|]; [|exact H].
    match goal with |- zmem c (dcolls ?s') = true => assert (T : T3 s s') end; [|destruct T as [_ [_ ->]]; exact H].
    set (s0 := set_clock s (h_tgt h) _).
    assert (T0 : T3 s s0) by repeat split.
    match goal with |- context [all_msgs retries ?a0 ?l] => pose proof (all_msgs_T3 retries l a0) as Fr; destruct (all_msgs retries a0 l) as [s1|a] end.
    + cbn [a_st] in Fr. eapply T3_trans; [exact T0|]. eapply T3_trans; [exact Fr|]. repeat split.
    + cbn [a_st] in Fr. eapply T3_trans; [exact T0|]. eapply T3_trans; [exact Fr|].
      destruct (a_fwd a).
      * match goal with |- context [find ?f ?l] => destruct (find f l) end.
        -- eapply T3_trans; [|apply emit_T3]. repeat split.
        -- unfold T3, keys. cbn [cbars events dcolls]. rewrite dcev_app. cbn. rewrite app_nil_r. repeat split.
      * eapply T3_trans; [|apply emit_T3]. repeat split.
  - cbn [dcolls]. rewrite zmem_app, H. reflexivity.
  - exact H.
  - destruct (handlers s); [|exact H]. destruct (wsh s); [|exact H]. destruct (Manager.g_hs (mg s)); exact H.
Qed.

(* nothing is emitted for a collection that is marked dropped *)
Lemma one_msg_dropped retries a m :
  zmem (m_coll m) (dcolls (a_st a)) = true -> (a_first a = None \/ a_first a = Some (m_coll m)) ->
  match one_msg retries a m with COk a' => a_out a' = a_out a /\ a_st a' = a_st a | CErr _ => False end.
Proof.
  intros H F. unfold one_msg. destruct (m_kind m); try (split; reflexivity).
  all: replace (match a_first a with Some c => c | None => m_coll m end) with (m_coll m) by (destruct F as [-> | ->]; reflexivity).
  all: rewrite Z.eqb_refl; cbn [negb a_st]; rewrite H; split; reflexivity.
Qed.
