(* C04 - cases of the once-only barrier signal (see C04.Once) *)
From Coq Require Import List NArith.
From Verif Require Import Base.Util C04.Once.
Import ListNotations.
Definition mismatches (l : list (N * ocase)) : list N := failing_ids oagrees l.
Definition checkfails (l : list (N * ocase)) : list N := failing_ids check_once l.
Definition knownclass (l : list (N * ocase)) : list (N * N) := [].
