From Coq Require Import List Arith Bool Lia.
Import ListNotations.
From Verif Require Import C04.StopMid.

(* the collection is marked exactly when the one request has been handed over, and a marked collection is not read *)
Definition Inv (s : st) : Prop :=
  (marked s = true /\ reqs s = 1 /\ reading s = false) \/ (marked s = false /\ reqs s = 0).

Lemma fire_inv s : marked s = false /\ reqs s = 0 -> Inv (fire s).
Proof. intros [_ H]. left. cbn. rewrite H. auto. Qed.

Lemma stop_inv s : Inv s -> Inv (stop s).
Proof. intros [[A [B C]]|[A B]]; [left | right]; cbn; auto. Qed.

Lemma step_inv shards s l : Inv s -> Inv (step cfg_now shards s l).
Proof.
  intros Hs. destruct l as [| | |sent]; cbn [step].
  - destruct (marked s || reading s) eqn:E; [exact Hs|]. apply orb_false_iff in E. destruct E as [Em _].
    destruct Hs as [[Hm _]|[_ Hr]]; [congruence|]. right. cbn. auto.
  - now apply stop_inv.
  - destruct (reading s) eqn:Er; cbn [negb]; [|exact Hs].
    destruct Hs as [[_ [_ C]]|H0]; [congruence|].
    destruct (Nat.eqb (S (seen s)) shards); [now apply fire_inv|]. right. cbn. exact H0.
  - destruct (reading s) eqn:Er; cbn [negb]; [|now apply stop_inv].
    destruct Hs as [[_ [_ C]]|H0]; [congruence|].
    destruct (Nat.eqb (S (seen s)) shards); [|apply stop_inv; now right].
    destruct sent; [now apply fire_inv|]. right. cbn. split; [reflexivity | apply H0].
Qed.

Theorem stopmid_every_history shards ls : Inv (run cfg_now shards init ls).
Proof.
  assert (H : forall s, Inv s -> Inv (run cfg_now shards s ls)).
  { induction ls as [|l r IH]; cbn [run]; intros s Hs; auto using step_inv. }
  apply H. right. cbn. auto.
Qed.

Corollary at_most_one_request shards ls : reqs (run cfg_now shards init ls) <= 1.
Proof. destruct (stopmid_every_history shards ls) as [[_ [H _]]|[_ H]]; lia. Qed.

(* reading [n] more shards *)
Lemma reads_complete shards : forall n s,
  reading s = true -> marked s = false -> reqs s = 0 -> seen s + n = shards -> 1 <= n ->
  reqs (run cfg_now shards s (repeat LRead n)) = 1.
Proof.
  induction n as [|n IH]; intros s Hr Hm Hq Hs Hn; [lia|].
  cbn [repeat run step]. rewrite Hr. cbn [negb].
  destruct (Nat.eqb (S (seen s)) shards) eqn:E.
  - apply Nat.eqb_eq in E. assert (n = 0) by lia. subst n. cbn. now rewrite Hq.
  - apply Nat.eqb_neq in E. apply IH; cbn; auto; lia.
Qed.

(* whatever happened before - also a stop right before the hand-over -: once the collection is started again and every
   shard has read the drop message, exactly one request has been handed over in total *)
Theorem one_request_after_restart shards ls :
  1 <= shards ->
  reqs (run cfg_now shards init (ls ++ LStop :: LStart :: repeat LRead shards)) = 1.
Proof.
  intros Hs.
  assert (Hrun : forall a s b, run cfg_now shards s (a ++ b) = run cfg_now shards (run cfg_now shards s a) b).
  { induction a as [|x a IH]; cbn; auto. }
  rewrite Hrun. set (s := run cfg_now shards init ls).
  assert (Hi : Inv s) by apply stopmid_every_history.
  cbn [run step stop marked reading].
  destruct Hi as [[A [B C]]|[A B]].
  - rewrite A. cbn [orb].
    assert (Hk : forall n t, reading t = false -> run cfg_now shards t (repeat LRead n) = t).
    { induction n as [|n IH]; cbn [repeat run step]; intros t Ht; auto. rewrite Ht. cbn. now apply IH. }
    rewrite Hk by reflexivity. exact B.
  - rewrite A. cbn [orb]. apply reads_complete; cbn; auto.
Qed.

(* with the mark set before the select the statement is false: the stop wins, the collection is marked, no request ever *)
Theorem early_mark_refuted : exists ls, reqs (run cfg_early 1 init (ls ++ LStop :: LStart :: repeat LRead 1)) <> 1.
Proof. exists [LStart; LReadStop false]. cbn. discriminate. Qed.

Example stopmid_somewhere : trace cfg_now 2 init [LStart; LRead; LReadStop false; LStart; LRead; LRead; LStart; LRead] = [0; 0; 0; 0; 0; 1; 1; 1].
Proof. reflexivity. Qed.
