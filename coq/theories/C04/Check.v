(* C04 — checker over the implementation's output: a drop is replayed once, after every shard, nothing afterwards *)
From Coq Require Import List String NArith ZArith Bool.
From Verif Require Import Base.Util Reader.Model Reader.Script.
Import ListNotations.
Local Open Scope string_scope.

(* has stream (c, spch) been fed a message satisfying f at a label index <= i ? *)
Definition fed_by (ls : list label) (c : Z) (spch : string) (i : nat) (f : smsg -> bool) : bool :=
  existsb (fun jm => Nat.leb (fst jm) i && f (snd jm)) (fed ls c spch).

Definition shards_of (ls : list label) (c : Z) : list string :=
  match coll_by_id ls c with Some ci => map snd (ci_src ci) | None => [] end.

Definition event_ok (c : case) (k : nat) (e : event) (at_ : nat) : bool :=
  let ls := c_labels c in
  match e with
  | EvDropColl cid _ =>
      (* every shard has read its drop message; no second request *)
      (* every shard has read its drop message, or the catalog listed the collection as dropped when it was started on a task
         resumed from positions (then every shard handler generates the message itself) *)
      (forallb (fun spch => fed_by ls cid spch at_ (fun m => mkind_eqb (m_kind m) KDropColl)) (shards_of ls cid)
       || existsb (fun il => Nat.leb (fst il) at_ && match snd il with StartColl ci => Z.eqb (ci_id ci) cid && ci_dropped ci | _ => false end)
                  (combine (seq 0 (List.length ls)) ls))
      && negb (match shards_of ls cid with [] => true | _ => false end)
      && Nat.eqb (List.length (filter (fun e' => match e' with EvDropColl c' _ => Z.eqb c' cid | _ => false end) (c_events c))) 1
      (* nothing for the collection afterwards *)
      && forallb (fun pa => Nat.leb (snd pa) at_
                            || negb (existsb (fun m => is_data (e_kind m)
                                                       && match coll_by_id ls cid with Some ci => Z.eqb (e_coll m) (ci_tid ci) | None => false end)
                                             (ep_msgs (fst pa))))
                 (combine (c_out c) (c_out_at c))
  | EvDropPart cid pid _ =>
      (* every shard has read the partition's drop message, or the catalog listed the partition as dropped when it was registered
         (then every shard handler generates the message itself) *)
      (forallb (fun spch => fed_by ls cid spch at_ (fun m => mkind_eqb (m_kind m) KDropPart && Z.eqb (m_part m) pid)) (shards_of ls cid)
       || existsb (fun il => Nat.leb (fst il) at_ && match snd il with AddPart c' p' _ _ true => Z.eqb c' cid && Z.eqb p' pid | _ => false end)
                  (combine (seq 0 (List.length ls)) ls))
      && negb (match shards_of ls cid with [] => true | _ => false end)
      && Nat.eqb (List.length (filter (fun e' => match e' with EvDropPart c' p' _ => Z.eqb c' cid && Z.eqb p' pid | _ => false end) (c_events c))) 1
      (* nothing for the partition afterwards: no message fed for it after the event is emitted *)
      && forallb (fun pa => Nat.leb (snd pa) at_
                            || negb (existsb (fun m => is_data (e_kind m)
                                                       && existsb (fun spch => existsb (fun jm => N.eqb (m_id (snd jm)) (e_id m) && Z.eqb (m_part (snd jm)) pid
                                                                                                  && negb (mkind_eqb (m_kind (snd jm)) KDropColl))
                                                                                       (fed ls cid spch)) (shards_of ls cid))
                                             (ep_msgs (fst pa))))
                 (combine (c_out c) (c_out_at c))
  | _ => true
  end.

(* a request that must come: the collection was started - possibly started again after a stop - (downstream knows the
   partition), the partition was registered after that last start, the collection was not stopped afterwards and never announced dropped or dropped, and after the registration every shard
   has been fed the partition's drop message: then there is exactly one drop-partition request *)
Definition idx_labels (ls : list label) : list (nat * label) := combine (seq 0 (List.length ls)) ls.
Definition last_start (ls : list label) (cid : Z) : option (nat * collinfo) :=
  fold_left (fun acc il => match snd il with StartColl ci => if Z.eqb (ci_id ci) cid then Some (fst il, ci) else acc | _ => acc end) (idx_labels ls) None.
Definition must_drop_part (ls : list label) (cid pid : Z) (pname : string) : bool :=
  match last_start ls cid with
  | None => false
  | Some (i0, ci) =>
      negb (ci_dropped ci)
      && (match alookup (ci_parts ci) pname with Some _ => true | None => false end)
      && negb (String.eqb pname "")
      (* nothing ends the replication of the collection after its last start; the collection itself is never dropped *)
      && forallb (fun il => match snd il with
                            | StopColl c' _ => negb (Z.eqb c' cid) || Nat.ltb (fst il) i0
                            | MarkDropped cs => negb (zmem cid cs)
                            | Feed c' _ _ p _ => negb (Z.eqb c' cid) || negb (existsb (fun m => mkind_eqb (m_kind m) KDropColl) (p_msgs p))
                            | _ => true end) (idx_labels ls)
      (* registered after the start, before every drop message of the partition *)
      && existsb (fun il => match snd il with
                            | AddPart c' p' _ _ _ =>
                                Z.eqb c' cid && Z.eqb p' pid && Nat.ltb i0 (fst il)
                                && forallb (fun jl => match snd jl with
                                                      | Feed c'' _ _ p _ => negb (Z.eqb c'' cid) || negb (existsb (fun m => mkind_eqb (m_kind m) KDropPart && Z.eqb (m_part m) pid) (p_msgs p))
                                                                            || Nat.ltb (fst il) (fst jl)
                                                      | _ => true end) (idx_labels ls)
                            | _ => false end) (idx_labels ls)
      (* every shard has read the drop message *)
      && forallb (fun sp => existsb (fun jl => match snd jl with
                                               | Feed c'' _ spch p _ => Z.eqb c'' cid && String.eqb spch (snd sp)
                                                                        && existsb (fun m => mkind_eqb (m_kind m) KDropPart && Z.eqb (m_part m) pid && String.eqb (m_pname m) pname) (p_msgs p)
                                               | _ => false end) (idx_labels ls)) (ci_src ci)
      && negb (match ci_src ci with [] => true | _ => false end)
  end.
Definition drop_candidates (ls : list label) : list (Z * Z * string) :=
  flat_map (fun l => match l with AddPart c p n _ _ => [(c, p, n)] | _ => [] end) ls.
Definition requests_come (c : case) : bool :=
  forallb (fun cpn => let '(cid, pid, pname) := cpn in
                      negb (must_drop_part (c_labels c) cid pid pname)
                      || Nat.eqb (List.length (filter (fun e => match e with EvDropPart c' p' _ => Z.eqb c' cid && Z.eqb p' pid | _ => false end) (c_events c))) 1)
          (drop_candidates (c_labels c)).

Definition check_C04 (c : case) : bool :=
  Nat.eqb (List.length (c_events c)) (List.length (c_ev_at c)) && Nat.eqb (List.length (c_out c)) (List.length (c_out_at c))
  && requests_come c
  && forallb (fun kea => event_ok c (fst (fst kea)) (snd (fst kea)) (snd kea))
             (combine (combine (seq 0 (List.length (c_events c))) (c_events c)) (c_ev_at c)).

Definition mismatches (l : list (N * case)) : list N := failing_ids agrees l.
Definition checkfails (l : list (N * case)) : list N := failing_ids check_C04 l.
Definition knownclass (l : list (N * case)) : list (N * N) := [].
