(* C04 — checker over the implementation's output: a drop is replayed once, after every shard, nothing afterwards *)
From Coq Require Import List String NArith ZArith Bool.
From Verif Require Import Base.Util Reader.Model Reader.Script.
Import ListNotations.
Local Open Scope string_scope.

(* has stream (c, spch) been fed a message satisfying f at a label index <= i ? *)
Definition fed_by (ls : list label) (c : Z) (spch : string) (i : nat) (f : smsg -> bool) : bool :=
  existsb (fun jm => Nat.leb (fst jm) i && f (snd jm)) (fed ls c spch).

Definition shards_of (ls : list label) (c : Z) : list string :=
  match coll_by_id ls c with Some ci => map snd (ci_src ci) | None => [] end.

Definition event_ok (c : case) (k : nat) (e : event) (at_ : nat) : bool :=
  let ls := c_labels c in
  match e with
  | EvDropColl cid _ =>
      (* every shard has read its drop message; no second request *)
      forallb (fun spch => fed_by ls cid spch at_ (fun m => mkind_eqb (m_kind m) KDropColl)) (shards_of ls cid)
      && negb (match shards_of ls cid with [] => true | _ => false end)
      && Nat.eqb (List.length (filter (fun e' => match e' with EvDropColl c' _ => Z.eqb c' cid | _ => false end) (c_events c))) 1
      (* nothing for the collection afterwards *)
      && forallb (fun pa => Nat.leb (snd pa) at_
                            || negb (existsb (fun m => is_data (e_kind m)
                                                       && match coll_by_id ls cid with Some ci => Z.eqb (e_coll m) (ci_tid ci) | None => false end)
                                             (ep_msgs (fst pa))))
                 (combine (c_out c) (c_out_at c))
  | EvDropPart cid pid _ =>
      forallb (fun spch => fed_by ls cid spch at_ (fun m => mkind_eqb (m_kind m) KDropPart && Z.eqb (m_part m) pid)) (shards_of ls cid)
      && negb (match shards_of ls cid with [] => true | _ => false end)
      && Nat.eqb (List.length (filter (fun e' => match e' with EvDropPart c' p' _ => Z.eqb c' cid && Z.eqb p' pid | _ => false end) (c_events c))) 1
      (* nothing for the partition afterwards: no message fed for it after the event is emitted *)
      && forallb (fun pa => Nat.leb (snd pa) at_
                            || negb (existsb (fun m => is_data (e_kind m)
                                                       && existsb (fun spch => existsb (fun jm => N.eqb (m_id (snd jm)) (e_id m) && Z.eqb (m_part (snd jm)) pid
                                                                                                  && negb (mkind_eqb (m_kind (snd jm)) KDropColl))
                                                                                       (fed ls cid spch)) (shards_of ls cid))
                                             (ep_msgs (fst pa))))
                 (combine (c_out c) (c_out_at c))
  | _ => true
  end.

Definition check_C04 (c : case) : bool :=
  Nat.eqb (List.length (c_events c)) (List.length (c_ev_at c)) && Nat.eqb (List.length (c_out c)) (List.length (c_out_at c))
  && forallb (fun kea => event_ok c (fst (fst kea)) (snd (fst kea)) (snd kea))
             (combine (combine (seq 0 (List.length (c_events c))) (c_events c)) (c_ev_at c)).

Definition mismatches (l : list (N * case)) : list N := failing_ids agrees l.
Definition checkfails (l : list (N * case)) : list N := failing_ids check_C04 l.
Definition knownclass (l : list (N * case)) : list (N * N) := [].
