(* the checker of C04.SMCheck accepts every trace of the model *)
From Coq Require Import List Arith Bool Lia.
Import ListNotations.
From Verif Require Import C04.StopMid C04.StopMidProofs C04.SMCheck.

Lemma inv_le1 s : Inv s -> reqs s <= 1.
Proof. intros [[_ [H _]]|[_ H]]; lia. Qed.

Lemma step_mono shards s l : Inv s -> reqs s <= reqs (step cfg_now shards s l).
Proof.
  intros Hs. destruct l as [| | |sent]; cbn [step].
  - destruct (marked s || reading s); cbn; lia.
  - cbn. lia.
  - destruct (negb (reading s)); [lia|]. destruct (Nat.eqb (S (seen s)) shards); cbn; lia.
  - destruct (negb (reading s)); [cbn; lia|]. destruct (Nat.eqb (S (seen s)) shards); [|cbn; lia].
    destruct sent; cbn; lia.
Qed.

Lemma trace_mono shards ls : forall s, Inv s -> mono (reqs s) (trace cfg_now shards s ls) = true.
Proof.
  induction ls as [|l r IH]; intros s Hs; [reflexivity|]. cbn [trace mono].
  assert (Hs' := step_inv shards s l Hs).
  rewrite IH by exact Hs'.
  assert (H1 := step_mono shards s l Hs). assert (H2 := inv_le1 _ Hs').
  apply Nat.leb_le in H1. apply Nat.leb_le in H2. now rewrite H1, H2.
Qed.

Lemma trace_length g shards ls : forall s, List.length (trace g shards s ls) = List.length ls.
Proof. induction ls as [|l r IH]; cbn; intros s; auto. Qed.

Lemma trace_last g shards ls : forall s d, ls <> [] -> last (trace g shards s ls) d = reqs (run g shards s ls).
Proof.
  induction ls as [|l r IH]; intros s d Hne; [congruence|]. cbn [trace run].
  destruct r as [|l' r'].
  - reflexivity.
  - change (last (reqs (step g shards s l) :: trace g shards (step g shards s l) (l' :: r')) d)
      with (last (trace g shards (step g shards s l) (l' :: r')) d).
    apply IH. discriminate.
Qed.

Lemma label_eqb_eq a b : label_eqb a b = true -> a = b.
Proof. destruct a as [| | |x], b as [| | |y]; cbn; try discriminate; auto. intros H. apply eqb_prop in H. now subst. Qed.
Lemma labels_eqb_eq a : forall b, labels_eqb a b = true -> a = b.
Proof.
  induction a as [|x a IH]; intros [|y b]; cbn; try discriminate; auto.
  intros H. apply andb_true_iff in H. destruct H as [H1 H2]. f_equal; [now apply label_eqb_eq | now apply IH].
Qed.

Theorem model_traces_accepted k :
  1 <= sm_shards k -> sm_reqs k = trace cfg_now (sm_shards k) init (sm_ops k) -> check_C04s k = true.
Proof.
  intros Hsh Heq. unfold check_C04s. rewrite Heq, trace_length, Nat.eqb_refl. cbn [andb].
  assert (Hi : Inv init) by (right; cbn; auto).
  change 0 with (reqs init) at 1. rewrite trace_mono by exact Hi. cbn [andb].
  destruct (ends_closed (sm_shards k) (sm_ops k)) eqn:E; [|reflexivity]. cbn [negb orb].
  unfold ends_closed in E. apply andb_true_iff in E. destruct E as [E1 E2].
  apply labels_eqb_eq in E2. apply Nat.leb_le in E1.
  assert (Hops : sm_ops k = firstn (List.length (sm_ops k) - List.length (closing (sm_shards k))) (sm_ops k) ++ closing (sm_shards k)).
  { set (n := List.length (sm_ops k) - List.length (closing (sm_shards k))) in *. rewrite <- E2. symmetry. apply firstn_skipn. }
  rewrite trace_last.
  2:{ rewrite Hops. destruct (firstn _ _); discriminate. }
  rewrite Hops. unfold closing. rewrite one_request_after_restart by exact Hsh. reflexivity.
Qed.
