(* C15 — executable model of EtcdOp.GetAllDroppedObj (core/reader/etcd_op.go:759-902) and of util.Get*InfoKeys,
   the cases written by the harness, and the checker of the property *)
From Coq Require Import List String NArith ZArith Bool Ascii.
From Verif Require Import Base.Util.
Import ListNotations.
Local Open Scope string_scope.

Inductive ostate := SCreating | SCreated | SDropping | SDropped | SOther.
Definition is_live (s : ostate) : bool := match s with SCreating | SCreated => true | _ => false end.
Definition is_gone (s : ostate) : bool := match s with SDropping | SDropped => true | _ => false end.

(* the catalog as the three range reads return it (etcd key order); tombstoned collection / partition records are skipped by
   the listing itself and do not appear; a tombstoned database appears with no name *)
Record dbrec := { d_id : Z; d_name : option string }.
Record crec := { c_keydb : Z;             (* database id parsed from the key, 0 when the key is malformed *)
                 c_id : Z; c_name : string; c_state : ostate; c_create : N }.
Record prec := { p_coll : Z; p_id : Z; p_name : string; p_state : ostate; p_create : N }.
Inductive tans := TFound (db : string) | TNotFound.
Record catalog := { now_ms : N; dbs : list dbrec; colls : list crec; parts : list prec;
                    (* None: the downstream is not Milvus (targetMilvus = nil); Some l: scripted answers of GetDatabaseName keyed by
                       (collection name, source database name), anything else answers the source database name *)
                    target : option (list (string * string * tans)) }.

Definition tome : string := "_tome".
Definition two64 : N := 18446744073709551616.
Definition pred64 (x : N) : N := (x + two64 - 1) mod two64.      (* uint64 x - 1 *)
Definition tt_of (c : catalog) : N := (now_ms c * 262144) mod two64.   (* ComposeTSByTime(t, 0) = ms << 18 *)

(* typeutil.ConcurrentMap contents after getDatabases and internalGetAllCollection: last write wins *)
Fixpoint zlast {A} (l : list (Z * A)) (k : Z) : option A :=
  match l with [] => None | (k', v) :: r => match zlast r k with Some x => Some x | None => if Z.eqb k k' then Some v else None end end.
Definition db_names (c : catalog) : list (Z * string) := map (fun d => (d_id d, match d_name d with Some n => n | None => tome end)) (dbs c).
Definition coll_dbid (c : catalog) : list (Z * Z) := flat_map (fun r => if Z.eqb (c_keydb r) 0 then [] else [(c_id r, c_keydb r)]) (colls c).
Definition coll_names (c : catalog) : list (Z * string) := map (fun r => (c_id r, c_name r)) (colls c).

(* getDBNameForCollection *)
Definition db_name_for (c : catalog) (cid : Z) : string :=
  match zlast (coll_dbid c) cid with
  | None => ""                      (* LoadWithDefault(id, -1): no database -1 *)
  | Some dbid => match zlast (db_names c) dbid with Some n => n | None => "" end
  end.

Definition ask (c : catalog) (cname origin : string) : option tans :=
  match target c with
  | None => None
  | Some l => match find (fun x => String.eqb (fst (fst x)) cname && String.eqb (snd (fst x)) origin) l with
              | Some x => Some (snd x) | None => Some (TFound origin) end
  end.

(* util.Get*InfoKeys, drop key *)
Definition dflt (db : string) : string := if String.eqb db "" then "default" else db.
Definition db_key (db : string) : string := dflt db ++ "_d".
Definition coll_key (cname db : string) : string := dflt db ++ "_" ++ cname ++ "_d".
Definition part_key (pname cname db : string) : string := dflt db ++ "_" ++ cname ++ "_" ++ pname ++ "_d".

Definition smap := list (string * N).
Record acc := { a_db : smap; a_coll : smap; a_part : smap; a_ccoll : smap; a_cpart : smap; a_dbname : string (* the variable dbName *) }.

Definition coll_step (c : catalog) (a : acc) (r : crec) : acc :=
  let tt := tt_of c in
  let origin := db_name_for c (c_id r) in
  if String.eqb origin "" then a
  else
    let res := match ask c (c_name r) origin with
               | None => Some (origin, a_db a)
               | Some TNotFound => None
               | Some (TFound db) => Some (db, if String.eqb origin db then a_db a else aupsert (a_db a) (db_key db) (pred64 tt))
               end in
    match res with
    | None => a      (* note: dbName keeps the value the failed call returned; the fake returns "" with the error and so does the model *)
    | Some (db, dbm) =>
        let k := coll_key (c_name r) db in
        {| a_db := dbm;
           a_coll := if is_gone (c_state r) then aupsert (a_coll a) k (pred64 tt) else a_coll a;
           a_part := a_part a;
           a_ccoll := if is_live (c_state r) then aupsert (a_ccoll a) k (c_create r) else a_ccoll a;
           a_cpart := a_cpart a; a_dbname := db |}
    end.

(* [fixed] = the partition loop takes the source database name when the downstream is not Milvus (the repair of C15-kafka-stale-db);
   with [fixed = false] it keeps whatever the collection loop left in dbName, as the code before the repair did *)
Definition part_step (fixed : bool) (c : catalog) (a : acc) (p : prec) : acc :=
  let tt := tt_of c in
  match zlast (coll_names c) (p_coll p) with
  | None => a
  | Some cname =>
      if String.eqb cname "" then a
      else
        let origin := db_name_for c (p_coll p) in
        if String.eqb origin "" then a
        else
          let res := match ask c cname origin with
                     | None => Some (if fixed then origin else a_dbname a)
                     | Some TNotFound => None
                     | Some (TFound db) => Some db
                     end in
          match res with
          | None => {| a_db := a_db a; a_coll := a_coll a; a_part := a_part a; a_ccoll := a_ccoll a; a_cpart := a_cpart a; a_dbname := "" |}
          | Some db =>
              let k := part_key (p_name p) cname db in
              {| a_db := a_db a; a_coll := a_coll a;
                 a_part := if is_gone (p_state p) then aupsert (a_part a) k (pred64 tt) else a_part a;
                 a_ccoll := a_ccoll a;
                 a_cpart := if is_live (p_state p) then aupsert (a_cpart a) k (p_create p) else a_cpart a;
                 a_dbname := db |}
          end
  end.

Definition settle (dropped created : smap) : smap :=
  map (fun kv => match alookup created (fst kv) with Some c => (fst kv, pred64 c) | None => kv end) dropped.

Record result := { r_db : smap; r_coll : smap; r_part : smap }.
Definition snapshot (fixed : bool) (c : catalog) : result :=
  let a0 := {| a_db := []; a_coll := []; a_part := []; a_ccoll := []; a_cpart := []; a_dbname := "" |} in
  let a1 := fold_left (coll_step c) (colls c) a0 in
  let a2 := fold_left (part_step fixed c) (parts c) a1 in
  {| r_db := a_db a2; r_coll := settle (a_coll a2) (a_ccoll a2); r_part := settle (a_part a2) (a_cpart a2) |}.

(* ---------- cases ---------- *)
Record case := { k_cat : catalog; k_db : smap; k_coll : smap; k_part : smap }.

Definition smap_eqb (a b : smap) : bool :=
  Nat.eqb (List.length a) (List.length b)
  && forallb (fun kv => match alookup b (fst kv) with Some v => N.eqb v (snd kv) | None => false end) a
  && forallb (fun kv => match alookup a (fst kv) with Some v => N.eqb v (snd kv) | None => false end) b.

Definition agrees (k : case) : bool :=
  let r := snapshot true (k_cat k) in
  smap_eqb (r_db r) (k_db k) && smap_eqb (r_coll r) (k_coll k) && smap_eqb (r_part r) (k_part k).
Definition agrees_unfixed (k : case) : bool :=
  let r := snapshot false (k_cat k) in
  smap_eqb (r_db r) (k_db k) && smap_eqb (r_coll r) (k_coll k) && smap_eqb (r_part r) (k_part k).

(* ---------- the property, read off the catalog with structured names (no key strings) ---------- *)
(* incarnations of collections that resolve to a downstream-visible database: (db, name, state, create) *)
Definition resolve (c : catalog) (cname origin : string) : option string :=
  if String.eqb origin "" then None
  else match ask c cname origin with None => Some origin | Some TNotFound => None | Some (TFound db) => Some db end.
Definition cincs (c : catalog) : list (string * string * ostate * N) :=
  flat_map (fun r => match resolve c (c_name r) (db_name_for c (c_id r)) with
                     | Some db => [(dflt db, c_name r, c_state r, c_create r)] | None => [] end) (colls c).
Definition pincs (c : catalog) : list (string * string * string * ostate * N) :=
  flat_map (fun p => match zlast (coll_names c) (p_coll p) with
                     | None => []
                     | Some cname => if String.eqb cname "" then []
                                     else match resolve c cname (db_name_for c (p_coll p)) with
                                          | Some db => [(dflt db, cname, p_name p, p_state p, p_create p)] | None => [] end
                     end) (parts c).

Definition name_ok (s : string) : bool := negb (existsb (fun a => Ascii.eqb a "_"%char) (list_ascii_of_string s)) && negb (String.eqb s "").

(* expected horizon of an object name given its incarnations: Some t if a dropped incarnation exists *)
Definition horizon {K} (eqb : K -> K -> bool) (incs : list (K * ostate * N)) (tt : N) (k : K) : option N :=
  if existsb (fun i => eqb (fst (fst i)) k && is_gone (snd (fst i))) incs
  then Some (match filter (fun i => eqb (fst (fst i)) k && is_live (snd (fst i))) incs with
             | [] => pred64 tt
             | l => pred64 (snd (last l (k, SOther, 0%N))) end)
  else None.

Definition ckey_eqb (a b : string * string) : bool := String.eqb (fst a) (fst b) && String.eqb (snd a) (snd b).
Definition pkey_eqb (a b : string * string * string) : bool := ckey_eqb (fst a) (fst b) && String.eqb (snd a) (snd b).

(* the checker: for every name that occurs in the catalog, the observed table has exactly the expected entry; and it has no
   entry under a key that no name of the catalog produces.  Names are compared structurally; the key of a name is computed by
   the model's key functions.  In a catalog in which two different names have the same '_'-joined key (known finding
   C15-key-ambiguity) the checker classifies instead of judging *)
Definition ckey_str (k : string * string) : string := fst k ++ "_" ++ snd k ++ "_d".
Definition pkey_str (k : string * string * string) : string := fst (fst k) ++ "_" ++ snd (fst k) ++ "_" ++ snd k ++ "_d".
Definition cnames (c : catalog) : list (string * string) := map (fun i => fst (fst i)) (cincs c).
Definition pnames (c : catalog) : list (string * string * string) := map (fun i => fst (fst i)) (pincs c).
Definition names_plain (c : catalog) : bool :=
  forallb (fun a => forallb (fun b => negb (String.eqb (ckey_str a) (ckey_str b)) || ckey_eqb a b) (cnames c)) (cnames c)
  && forallb (fun a => forallb (fun b => negb (String.eqb (pkey_str a) (pkey_str b)) || pkey_eqb a b) (pnames c)) (pnames c).

Definition check_coll (c : catalog) (obs : smap) : bool :=
  let incs := map (fun i => ((fst (fst (fst i)), snd (fst (fst i))), snd (fst i), snd i)) (cincs c) in
  forallb (fun i => let k := fst (fst i) in
                    option_eqb N.eqb (alookup obs (fst k ++ "_" ++ snd k ++ "_d")) (horizon ckey_eqb incs (tt_of c) k)) incs
  && forallb (fun kv => existsb (fun i => String.eqb (fst kv) (fst (fst (fst i)) ++ "_" ++ snd (fst (fst i)) ++ "_d")) incs) obs.
Definition check_part (c : catalog) (obs : smap) : bool :=
  let incs := map (fun i => ((fst (fst (fst (fst i))), snd (fst (fst (fst i))), snd (fst (fst i))), snd (fst i), snd i)) (pincs c) in
  forallb (fun i => let k := fst (fst i) in
                    option_eqb N.eqb (alookup obs (fst (fst k) ++ "_" ++ snd (fst k) ++ "_" ++ snd k ++ "_d")) (horizon pkey_eqb incs (tt_of c) k)) incs
  && forallb (fun kv => existsb (fun i => let k := fst (fst i) in String.eqb (fst kv) (fst (fst k) ++ "_" ++ snd (fst k) ++ "_" ++ snd k ++ "_d")) incs) obs.

Definition check_C15 (k : case) : bool := check_coll (k_cat k) (k_coll k) && check_part (k_cat k) (k_part k).

Definition mismatches (l : list (N * case)) : list N := failing_ids agrees l.
Definition checkfails (l : list (N * case)) : list N := failing_ids check_C15 l.
(* class 1: two different names of the catalog share a key and the table differs from the per-name expectation *)
Definition knownclass (l : list (N * case)) : list (N * N) :=
  flat_map (fun ic => if negb (names_plain (k_cat (snd ic))) && negb (check_C15 (snd ic)) then [(fst ic, 1%N)] else []) l.
