(* C15 — proofs: the table computed by the model of GetAllDroppedObj is, key by key, what the property says *)
From Coq Require Import List String NArith ZArith Bool Arith Lia.
From Verif Require Import Base.Util C15.Model.
Import ListNotations.
Local Open Scope string_scope.

(* ---------- association lists ---------- *)
Lemma alookup_aupsert {A} (l : list (string * A)) k v k' :
  alookup (aupsert l k v) k' = if String.eqb k' k then Some v else alookup l k'.
Proof.
  induction l as [|[k0 v0] r IH]; cbn [aupsert alookup]; [destruct (String.eqb k' k); reflexivity|].
  destruct (String.eqb_spec k k0) as [->|Hne]; cbn [alookup].
  - destruct (String.eqb k' k0); reflexivity.
  - destruct (String.eqb_spec k' k0) as [->|Hne2]; [destruct (String.eqb_spec k0 k); [congruence|reflexivity]|exact IH].
Qed.

Lemma alookup_map_val {A B} (f : string -> A -> B) (l : list (string * A)) k :
  alookup (map (fun kv => (fst kv, f (fst kv) (snd kv))) l) k = match alookup l k with Some v => Some (f k v) | None => None end.
Proof.
  induction l as [|[k0 v0] r IH]; cbn [map alookup fst snd]; [reflexivity|].
  destruct (String.eqb_spec k k0) as [->|Hne]; [reflexivity|exact IH].
Qed.

(* ---------- one incarnation applied to the (dropped, created) pair of maps ---------- *)
Definition inc := (string * ostate * N)%type.
Definition upd (tt : N) (m : smap * smap) (i : inc) : smap * smap :=
  ((if is_gone (snd (fst i)) then aupsert (fst m) (fst (fst i)) (pred64 tt) else fst m),
   (if is_live (snd (fst i)) then aupsert (snd m) (fst (fst i)) (snd i) else snd m)).

Definition gone_at (k : string) (i : inc) : bool := String.eqb (fst (fst i)) k && is_gone (snd (fst i)).
Definition live_at (k : string) (i : inc) : bool := String.eqb (fst (fst i)) k && is_live (snd (fst i)).

Lemma fold_upd_spec tt k : forall incs m,
  let m' := fold_left (upd tt) incs m in
  alookup (fst m') k = (if existsb (gone_at k) incs then Some (pred64 tt) else alookup (fst m) k)
  /\ alookup (snd m') k = match filter (live_at k) incs with
                          | [] => alookup (snd m) k
                          | l => Some (snd (last l (k, SOther, 0%N))) end.
Proof.
  induction incs as [|i r IH]; intros m; cbn [fold_left existsb filter]; [split; reflexivity|].
  destruct (IH (upd tt m i)) as [A B]. cbv zeta. rewrite A, B. clear A B IH. unfold upd, gone_at, live_at. cbn [fst snd].
  destruct i as [[ki si] ci]. cbn [fst snd]. split.
  - destruct (existsb _ r); [rewrite orb_true_r; reflexivity|]. rewrite orb_false_r.
    destruct (is_gone si); [|rewrite andb_false_r; reflexivity]. rewrite alookup_aupsert, andb_true_r.
    rewrite String.eqb_sym. reflexivity.
  - destruct (is_live si).
    + rewrite andb_true_r. rewrite alookup_aupsert. rewrite (String.eqb_sym k ki). destruct (String.eqb ki k).
      * destruct (filter _ r) as [|x l]; reflexivity.
      * reflexivity.
    + rewrite andb_false_r. reflexivity.
Qed.

(* ---------- the two loops as folds of [upd] over the incarnations that resolve ---------- *)
Definition ckey (i : string * string * ostate * N) : inc := (ckey_str (fst (fst i)), snd (fst i), snd i).
Definition pkey (i : string * string * string * ostate * N) : inc := (pkey_str (fst (fst i)), snd (fst i), snd i).

Lemma coll_key_str cname db : coll_key cname db = ckey_str (dflt db, cname).
Proof. reflexivity. Qed.
Lemma part_key_str pname cname db : part_key pname cname db = pkey_str (dflt db, cname, pname).
Proof. reflexivity. Qed.

Definition cview (c : catalog) (r : crec) : list (string * string * ostate * N) :=
  match resolve c (c_name r) (db_name_for c (c_id r)) with
  | Some db => [(dflt db, c_name r, c_state r, c_create r)] | None => [] end.

Lemma coll_step_maps c a r :
  (a_coll (coll_step c a r), a_ccoll (coll_step c a r)) = fold_left (upd (tt_of c)) (map ckey (cview c r)) (a_coll a, a_ccoll a)
  /\ a_part (coll_step c a r) = a_part a /\ a_cpart (coll_step c a r) = a_cpart a.
Proof.
  unfold coll_step, cview, resolve. destruct (String.eqb (db_name_for c (c_id r)) ""); [repeat split|].
  destruct (ask c (c_name r) (db_name_for c (c_id r))) as [[db|]|]; cbn [map fold_left]; repeat split.
Qed.

Lemma coll_loop_maps c : forall l a,
  let a' := fold_left (coll_step c) l a in
  (a_coll a', a_ccoll a') = fold_left (upd (tt_of c)) (map ckey (flat_map (cview c) l)) (a_coll a, a_ccoll a)
  /\ a_part a' = a_part a /\ a_cpart a' = a_cpart a.
Proof.
  induction l as [|r l IH]; intros a; cbn [fold_left flat_map map]; [repeat split|].
  destruct (IH (coll_step c a r)) as [A [B C]]. destruct (coll_step_maps c a r) as [D [E F]].
  cbv zeta. rewrite A, map_app, fold_left_app, <- D. split; [reflexivity|]. split; congruence.
Qed.

Definition pview (c : catalog) (p : prec) : list (string * string * string * ostate * N) :=
  match zlast (coll_names c) (p_coll p) with
  | None => []
  | Some cname => if String.eqb cname "" then []
                  else match resolve c cname (db_name_for c (p_coll p)) with
                       | Some db => [(dflt db, cname, p_name p, p_state p, p_create p)] | None => [] end
  end.

Lemma part_step_maps c a p :
  (a_part (part_step true c a p), a_cpart (part_step true c a p)) = fold_left (upd (tt_of c)) (map pkey (pview c p)) (a_part a, a_cpart a)
  /\ a_coll (part_step true c a p) = a_coll a /\ a_ccoll (part_step true c a p) = a_ccoll a /\ a_db (part_step true c a p) = a_db a.
Proof.
  unfold part_step, pview, resolve. destruct (zlast (coll_names c) (p_coll p)) as [cname|]; [|repeat split].
  destruct (String.eqb cname ""); [repeat split|]. destruct (String.eqb (db_name_for c (p_coll p)) ""); [repeat split|].
  destruct (ask c cname (db_name_for c (p_coll p))) as [[db|]|]; cbn [map fold_left]; repeat split.
Qed.

Lemma part_loop_maps c : forall l a,
  let a' := fold_left (part_step true c) l a in
  (a_part a', a_cpart a') = fold_left (upd (tt_of c)) (map pkey (flat_map (pview c) l)) (a_part a, a_cpart a)
  /\ a_coll a' = a_coll a /\ a_ccoll a' = a_ccoll a /\ a_db a' = a_db a.
Proof.
  induction l as [|r l IH]; intros a; cbn [fold_left flat_map map]; [repeat split|].
  destruct (IH (part_step true c a r)) as [A [B [C D]]]. destruct (part_step_maps c a r) as [E [F [G H]]].
  cbv zeta. rewrite A, map_app, fold_left_app, <- E. split; [reflexivity|]. repeat split; congruence.
Qed.

Lemma cincs_view c : cincs c = flat_map (cview c) (colls c).
Proof. reflexivity. Qed.
Lemma pincs_view c : pincs c = flat_map (pview c) (parts c).
Proof. reflexivity. Qed.

(* ---------- the table, key by key ---------- *)
Definition expected (incs : list inc) (tt : N) (k : string) : option N :=
  if existsb (gone_at k) incs
  then Some (match filter (live_at k) incs with [] => pred64 tt | l => pred64 (snd (last l (k, SOther, 0%N))) end)
  else None.

Lemma settle_spec dropped created k :
  alookup (settle dropped created) k = match alookup dropped k with
                                       | None => None
                                       | Some v => Some (match alookup created k with Some c => pred64 c | None => v end) end.
Proof.
  unfold settle. induction dropped as [|[k0 v0] r IH]; cbn [map alookup fst snd]; [reflexivity|].
  destruct (alookup created k0) eqn:C; cbn [alookup fst].
  - destruct (String.eqb_spec k k0) as [->|Hne]; [rewrite C; reflexivity|exact IH].
  - destruct (String.eqb_spec k k0) as [->|Hne]; [rewrite C; reflexivity|exact IH].
Qed.

Theorem coll_table c k : alookup (r_coll (snapshot true c)) k = expected (map ckey (cincs c)) (tt_of c) k.
Proof.
  unfold snapshot. cbn [r_coll].
  set (a0 := {| a_db := []; a_coll := []; a_part := []; a_ccoll := []; a_cpart := []; a_dbname := "" |}).
  destruct (coll_loop_maps c (colls c) a0) as [A _]. destruct (part_loop_maps c (parts c) (fold_left (coll_step c) (colls c) a0)) as [_ [B [C _]]].
  cbv zeta in *. rewrite settle_spec, B, C.
  destruct (fold_upd_spec (tt_of c) k (map ckey (flat_map (cview c) (colls c))) (a_coll a0, a_ccoll a0)) as [D E].
  cbv zeta in D, E. rewrite <- A in D, E. cbn [fst snd] in D, E. rewrite D, E. cbn [a_coll a_ccoll a0 alookup].
  unfold expected. rewrite cincs_view. destruct (existsb _ _); [|reflexivity]. destruct (filter _ _); reflexivity.
Qed.

Theorem part_table c k : alookup (r_part (snapshot true c)) k = expected (map pkey (pincs c)) (tt_of c) k.
Proof.
  unfold snapshot. cbn [r_part].
  set (a0 := {| a_db := []; a_coll := []; a_part := []; a_ccoll := []; a_cpart := []; a_dbname := "" |}).
  destruct (coll_loop_maps c (colls c) a0) as [_ [A1 A2]]. destruct (part_loop_maps c (parts c) (fold_left (coll_step c) (colls c) a0)) as [B _].
  cbv zeta in *. rewrite settle_spec.
  destruct (fold_upd_spec (tt_of c) k (map pkey (flat_map (pview c) (parts c)))
              (a_part (fold_left (coll_step c) (colls c) a0), a_cpart (fold_left (coll_step c) (colls c) a0))) as [D E].
  cbv zeta in D, E. rewrite <- B in D, E. cbn [fst snd] in D, E. rewrite D, E, A1, A2. cbn [a_part a_cpart a0 alookup].
  unfold expected. rewrite pincs_view. destruct (existsb _ _); [|reflexivity]. destruct (filter _ _); reflexivity.
Qed.

(* ---------- the horizons ---------- *)
Lemma pred64_lt x : (0 < x < two64)%N -> (pred64 x < x)%N /\ (pred64 x = x - 1)%N.
Proof.
  intros H. unfold pred64. assert (E : (x + two64 - 1 = (x - 1) + 1 * two64)%N) by lia. rewrite E, N.mod_add by (unfold two64; lia).
  rewrite N.mod_small by lia. lia.
Qed.

(* ---------- from keys back to names: when no two names of the catalog share a key ---------- *)
Section Names.
  Context {K : Type} (keyf : K -> string) (keqb : K -> K -> bool).
  Hypothesis keqb_spec : forall a b, keqb a b = true <-> a = b.
  Definition kinc (i : K * ostate * N) : inc := (keyf (fst (fst i)), snd (fst i), snd i).

  Lemma named_expected (incs : list (K * ostate * N)) tt k :
    (forall i, In i incs -> keyf (fst (fst i)) = keyf k -> fst (fst i) = k) ->
    expected (map kinc incs) tt (keyf k) = horizon keqb incs tt k.
  Proof.
    intros Inj. unfold expected, horizon.
    assert (E1 : forall f, (forall i, In i incs -> f (kinc i) = (fun i => keqb (fst (fst i)) k && f (keyf k, snd (fst i), snd i)) i
                                                   /\ (String.eqb (keyf (fst (fst i))) (keyf k) = keqb (fst (fst i)) k)) -> True) by trivial.
    assert (Hk : forall i, In i incs -> String.eqb (keyf (fst (fst i))) (keyf k) = keqb (fst (fst i)) k).
    { intros i Hi. destruct (String.eqb_spec (keyf (fst (fst i))) (keyf k)) as [E|N].
      - symmetry. apply keqb_spec. apply Inj; assumption.
      - destruct (keqb (fst (fst i)) k) eqn:Q; [|reflexivity]. apply keqb_spec in Q. subst. congruence. }
    assert (G : existsb (gone_at (keyf k)) (map kinc incs) = existsb (fun i => keqb (fst (fst i)) k && is_gone (snd (fst i))) incs).
    { clear E1. induction incs as [|i r IH]; cbn [map existsb]; [reflexivity|]. rewrite IH.
      - unfold gone_at at 1. cbn [kinc fst snd]. rewrite (Hk i (or_introl eq_refl)). reflexivity.
      - intros i' Hi'. apply Inj. right. exact Hi'.
      - intros i' Hi'. apply Hk. right. exact Hi'. }
    assert (L : filter (live_at (keyf k)) (map kinc incs) = map kinc (filter (fun i => keqb (fst (fst i)) k && is_live (snd (fst i))) incs)).
    { clear E1 G. induction incs as [|i r IH]; cbn [map filter]; [reflexivity|]. rewrite IH.
      - unfold live_at at 1. cbn [kinc fst snd]. rewrite (Hk i (or_introl eq_refl)). destruct (_ && _); reflexivity.
      - intros i' Hi'. apply Inj. right. exact Hi'.
      - intros i' Hi'. apply Hk. right. exact Hi'. }
    rewrite G, L. destruct (existsb _ incs); [|reflexivity]. f_equal.
    destruct (filter (fun i => keqb (fst (fst i)) k && is_live (snd (fst i))) incs) as [|x l] eqn:F; [reflexivity|].
    cbn [map]. f_equal.
    change (kinc x :: map kinc l) with (map kinc (x :: l)).
    assert (Hl : forall (l0 : list (K * ostate * N)) d d', l0 <> [] -> snd (last (map kinc l0) d) = snd (last l0 d')).
    { induction l0 as [|y [|z r] IH0]; intros d d' Hn; [congruence|reflexivity|]. change (map kinc (y :: z :: r)) with (kinc y :: map kinc (z :: r)).
      change (last (kinc y :: map kinc (z :: r)) d) with (last (map kinc (z :: r)) d). change (last (y :: z :: r) d') with (last (z :: r) d'). apply IH0. discriminate. }
    apply Hl. discriminate.
  Qed.
End Names.

Lemma ckey_eqb_spec a b : ckey_eqb a b = true <-> a = b.
Proof.
  destruct a as [a1 a2], b as [b1 b2]. unfold ckey_eqb. cbn [fst snd]. rewrite andb_true_iff, !String.eqb_eq. split; [intros [-> ->]; reflexivity|intros H; injection H as -> ->; split; reflexivity].
Qed.
Lemma pkey_eqb_spec a b : pkey_eqb a b = true <-> a = b.
Proof.
  destruct a as [a1 a2], b as [b1 b2]. unfold pkey_eqb. cbn [fst snd]. rewrite andb_true_iff, ckey_eqb_spec, String.eqb_eq.
  split; [intros [-> ->]; reflexivity|intros H; injection H as -> ->; split; reflexivity].
Qed.

Definition cincs3 (c : catalog) : list (string * string * ostate * N) := cincs c.

Theorem coll_by_name c (k : string * string) :
  (forall i, In i (cincs c) -> ckey_str (fst (fst i)) = ckey_str k -> fst (fst i) = k) ->
  alookup (r_coll (snapshot true c)) (ckey_str k) = horizon ckey_eqb (cincs c) (tt_of c) k.
Proof.
  intros Inj. rewrite coll_table. rewrite <- (named_expected ckey_str ckey_eqb ckey_eqb_spec (cincs c) (tt_of c) k Inj). reflexivity.
Qed.

Theorem part_by_name c (k : string * string * string) :
  (forall i, In i (pincs c) -> pkey_str (fst (fst i)) = pkey_str k -> fst (fst i) = k) ->
  alookup (r_part (snapshot true c)) (pkey_str k) = horizon pkey_eqb (pincs c) (tt_of c) k.
Proof.
  intros Inj. rewrite part_table. rewrite <- (named_expected pkey_str pkey_eqb pkey_eqb_spec (pincs c) (tt_of c) k Inj). reflexivity.
Qed.

(* ---------- the database table ---------- *)
Definition moved_db (c : catalog) (r : crec) : option string :=
  let origin := db_name_for c (c_id r) in
  if String.eqb origin "" then None
  else match ask c (c_name r) origin with
       | Some (TFound db) => if String.eqb origin db then None else Some db
       | _ => None end.

Lemma coll_step_db c a r :
  a_db (coll_step c a r) = match moved_db c r with Some db => aupsert (a_db a) (db_key db) (pred64 (tt_of c)) | None => a_db a end.
Proof.
  unfold coll_step, moved_db. destruct (String.eqb (db_name_for c (c_id r)) ""); [reflexivity|].
  destruct (ask c (c_name r) (db_name_for c (c_id r))) as [[db|]|]; cbn [a_db]; try reflexivity.
  destruct (String.eqb (db_name_for c (c_id r)) db); reflexivity.
Qed.

Lemma db_loop c k : forall l a,
  alookup (a_db (fold_left (coll_step c) l a)) k
  = if existsb (fun r => match moved_db c r with Some db => String.eqb (db_key db) k | None => false end) l
    then Some (pred64 (tt_of c)) else alookup (a_db a) k.
Proof.
  induction l as [|r l IH]; intros a; cbn [fold_left existsb]; [reflexivity|]. rewrite IH, coll_step_db.
  destruct (existsb _ l); [rewrite orb_true_r; reflexivity|]. rewrite orb_false_r.
  destruct (moved_db c r) as [db|]; [|reflexivity]. rewrite alookup_aupsert, String.eqb_sym. reflexivity.
Qed.

Theorem db_table c k :
  alookup (r_db (snapshot true c)) k
  = if existsb (fun r => match moved_db c r with Some db => String.eqb (db_key db) k | None => false end) (colls c)
    then Some (pred64 (tt_of c)) else None.
Proof.
  unfold snapshot. cbn [r_db].
  set (a0 := {| a_db := []; a_coll := []; a_part := []; a_ccoll := []; a_cpart := []; a_dbname := "" |}).
  destruct (part_loop_maps c (parts c) (fold_left (coll_step c) (colls c) a0)) as [_ [_ [_ D]]]. cbv zeta in D. rewrite D.
  rewrite db_loop. reflexivity.
Qed.
