(* C15 — property theorems only (model: C15/Model.v, proofs: C15/Proofs.v) *)
From Coq Require Import List String NArith ZArith Bool.
From Verif Require Import Base.Util C15.Model C15.Proofs.
Import ListNotations.
Local Open Scope string_scope.

(* For every catalog (any databases, live, dropped or tombstoned; any collection and partition records in any state, repeated
   names across incarnations and databases, records of unknown databases or collections; any downstream answers, or a
   downstream that is not Milvus) and every key: the collection table has an entry under the key exactly if some incarnation
   with that key is dropping / dropped, and the entry is the creation time of the last-listed live incarnation with that key
   minus one if there is one, the source's current time minus one otherwise.  Same for partitions. *)
Theorem C15_collections_by_key : forall c k, alookup (r_coll (snapshot true c)) k = expected (map ckey (cincs c)) (tt_of c) k.
Proof. exact coll_table. Qed.
Print Assumptions C15_collections_by_key.

Theorem C15_partitions_by_key : forall c k, alookup (r_part (snapshot true c)) k = expected (map pkey (pincs c)) (tt_of c) k.
Proof. exact part_table. Qed.
Print Assumptions C15_partitions_by_key.

(* ... and by name, for every catalog in which no other name shares the key of the name asked for: names with only live
   incarnations have no entry, names with a dropped incarnation have exactly the expected horizon *)
Theorem C15_collections_by_name : forall c (k : string * string),
  (forall i, In i (cincs c) -> ckey_str (fst (fst i)) = ckey_str k -> fst (fst i) = k) ->
  alookup (r_coll (snapshot true c)) (ckey_str k) = horizon ckey_eqb (cincs c) (tt_of c) k.
Proof. exact coll_by_name. Qed.
Print Assumptions C15_collections_by_name.

Theorem C15_partitions_by_name : forall c (k : string * string * string),
  (forall i, In i (pincs c) -> pkey_str (fst (fst i)) = pkey_str k -> fst (fst i) = k) ->
  alookup (r_part (snapshot true c)) (pkey_str k) = horizon pkey_eqb (pincs c) (tt_of c) k.
Proof. exact part_by_name. Qed.
Print Assumptions C15_partitions_by_name.

(* the database table: an entry, at now - 1, exactly for the downstream names of databases that the downstream still has
   under another name than the source reports (the source database is gone or renamed) *)
Theorem C15_databases : forall c k,
  alookup (r_db (snapshot true c)) k
  = if existsb (fun r => match moved_db c r with Some db => String.eqb (db_key db) k | None => false end) (colls c)
    then Some (pred64 (tt_of c)) else None.
Proof. exact db_table. Qed.
Print Assumptions C15_databases.

(* the horizons are strictly before the creation time / just below now (uint64 arithmetic, no wrap for times in (0, 2^64)) *)
Theorem C15_strictly_before : forall x, (0 < x < two64)%N -> (pred64 x < x)%N /\ (pred64 x = x - 1)%N.
Proof. exact pred64_lt. Qed.
Print Assumptions C15_strictly_before.

(* the '_'-joined keys are not injective on names: a catalog in which a live-only collection has an entry (known finding
   C15-key-ambiguity; the by-name theorems exclude such catalogs by their hypothesis) *)
Definition amb_catalog : catalog :=
  {| now_ms := 1700000000000; dbs := [{| d_id := 1; d_name := Some "a_b" |}; {| d_id := 2; d_name := Some "a" |}];
     colls := [{| c_keydb := 1; c_id := 10; c_name := "c"; c_state := SDropped; c_create := 100 |};
               {| c_keydb := 2; c_id := 12; c_name := "b_c"; c_state := SCreated; c_create := 300 |}];
     parts := []; target := Some [] |}.
Theorem C15_ambiguous_keys_refuted :
  horizon ckey_eqb (cincs amb_catalog) (tt_of amb_catalog) ("a", "b_c") = None
  /\ alookup (r_coll (snapshot true amb_catalog)) (ckey_str ("a", "b_c")) = Some 299%N.
Proof. vm_compute. split; reflexivity. Qed.
Print Assumptions C15_ambiguous_keys_refuted.

(* the code before the repair 12eff71 (fixed = false): a dropped partition of default.a filed under db2 *)
Definition kafka_catalog : catalog :=
  {| now_ms := 1700000000000; dbs := [{| d_id := 1; d_name := Some "default" |}; {| d_id := 2; d_name := Some "db2" |}];
     colls := [{| c_keydb := 1; c_id := 10; c_name := "a"; c_state := SCreated; c_create := 100 |};
               {| c_keydb := 2; c_id := 12; c_name := "b"; c_state := SCreated; c_create := 300 |}];
     parts := [{| p_coll := 10; p_id := 112; p_name := "p2"; p_state := SDropped; p_create := 220 |}]; target := None |}.
Theorem C15_unrepaired_refuted :
  map fst (r_part (snapshot false kafka_catalog)) = ["db2_a_p2_d"] /\ map fst (r_part (snapshot true kafka_catalog)) = ["default_a_p2_d"].
Proof. vm_compute. split; reflexivity. Qed.
Print Assumptions C15_unrepaired_refuted.

Example C15_nonvacuous :
  let c := {| now_ms := 1700000000000; dbs := [{| d_id := 1; d_name := Some "default" |}];
              colls := [{| c_keydb := 1; c_id := 10; c_name := "a"; c_state := SDropped; c_create := 100 |};
                        {| c_keydb := 1; c_id := 11; c_name := "a"; c_state := SCreated; c_create := 200 |};
                        {| c_keydb := 1; c_id := 12; c_name := "b"; c_state := SCreated; c_create := 300 |};
                        {| c_keydb := 1; c_id := 13; c_name := "g"; c_state := SDropping; c_create := 310 |}];
              parts := []; target := Some [] |} in
  r_coll (snapshot true c) = [("default_a_d", 199%N); ("default_g_d", 445644799999999999%N)]
  /\ (forall i, In i (cincs c) -> ckey_str (fst (fst i)) = ckey_str ("default", "b") -> fst (fst i) = ("default", "b"))
  /\ horizon ckey_eqb (cincs c) (tt_of c) ("default", "b") = None.
Proof.
  cbv zeta. split; [vm_compute; reflexivity|]. split; [|vm_compute; reflexivity].
  intros i Hi. vm_compute in Hi. destruct Hi as [<-|[<-|[<-|[<-|[]]]]]; vm_compute; intros H; congruence.
Qed.
