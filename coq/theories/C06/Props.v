(* C06 — property theorems only (model: Server/Data.v) *)
From Coq Require Import List String NArith ZArith Bool.
From Verif Require Import Base.Util Server.Data Server.DataProofs C06.Check.
Import ListNotations.
Local Open Scope string_scope.

(* a refused downstream write, at any position n of any batch in any state: the flush reports the error, no
   checkpoint moves, exactly the packs before the refused one are acknowledged, the owner of the refused pack is
   paused, every other task keeps its state, and the refusal is recorded *)
Theorem C06_refused_write : forall streams s ch b n,
  n >= 1 -> n <= List.length b ->
  let r := flush streams s ch b (Some n) false in
  snd r = true /\ store (fst r) = store s
  /\ exists k i, nth_error b (n - 1) = Some (k, i)
       /\ wfails (fst r) = (wfails s ++ [(k, i)])%list
       /\ (forall t, task_at streams k = Some t -> is_running (fst r) t = false)
       /\ (forall t, task_at streams k <> Some t -> is_running (fst r) t = is_running s t)
       /\ acks (fst r) = (acks s ++ map (fun ki => (ch, fst ki, snd ki)) (firstn (n - 1) b))%list.
Proof. exact flush_wfail. Qed.
Print Assumptions C06_refused_write.

(* whatever fails in a batch, the checkpoints stay where they were: the failing message is before the cursor of
   the next incarnation *)
Theorem C06_failing_message_not_skipped : forall streams s ch b wfail pfail,
  snd (flush streams s ch b wfail pfail) = true -> store (fst (flush streams s ch b wfail pfail)) = store s.
Proof. exact flush_error_store. Qed.
Print Assumptions C06_failing_message_not_skipped.

(* an error event pauses the task it names and nobody else; one that names no known task pauses nobody *)
Theorem C06_error_event : forall maxc streams s t t',
  evloop s = true -> t' <> t ->
  let s' := step maxc streams s (EvError t) in
  (alookup (running s) t <> None -> is_running s' t = false)
  /\ (any_running (match alookup (running s) t with Some _ => set_running s t false | None => s end) = true ->
      is_running s' t' = is_running s t').
Proof. exact error_event_spec. Qed.
Print Assumptions C06_error_event.

Example C06_nonvacuous :
  let streams := [{| s_task := "a"; s_coll := 101; s_name := "c1"; s_pch := "p"; s_ch := "q"; s_len := 6 |};
                  {| s_task := "b"; s_coll := 102; s_name := "c2"; s_pch := "p"; s_ch := "q"; s_len := 6 |}] in
  let ls := [Feed 0 false None false; Feed 1 false None false; Feed 0 false None false; Feed 1 false (Some 1) false] in
  let s := run 2 streams ls in
  running s = [("a", false); ("b", true)] /\ wfails s = [(0, 1)] /\ List.length (acks s) = 2
  /\ check_C06 {| c_max := 2; c_streams := streams; c_labels := ls; c_obs := run_obs 2 streams (init streams) ls |} = true.
Proof. vm_compute. repeat split. Qed.

(* the reader half of the property is checked on traces of the channel handlers (harness h_reader -mode c06) *)
Require Verif.C06.RCheck.

(* ---- start failures: the collection reader's start / quit protocol and the server goroutine that turns a reader error
   into a pause (model: C06/Start.v, cases of harness h_c06s checked by C06.SCheck) ---- *)
Require Verif.C06.Start Verif.C06.StartProofs Verif.C06.SCheck Verif.C06.SCheckProofs.

(* for every history of creates, resumes, pauses, collections created while a task runs and pauses while a start is in
   flight - with any start failing and any of the schedules the labels name: a paused task reads nothing (no collection is
   started and not stopped), and a running task shows no reason *)
Theorem C06_start_every_history : forall ls t k,
  Start.get (Start.run Start.cfg_now [] ls) t = Some k ->
  (Start.t_running k = false -> Start.t_active k = []) /\ (Start.t_running k = true -> Start.t_reason k = false).
Proof. exact StartProofs.start_every_history. Qed.
Print Assumptions C06_start_every_history.

(* a start that fails anywhere in the initial load of a create or a resume - wherever the rest of the load is when the pause
   goes through the reader - leaves the task paused with a reason and nothing being read *)
Theorem C06_failing_load_pauses : forall s t create colls late,
  StartProofs.loads s t create -> existsb snd colls = true ->
  Start.get (fst (Start.step Start.cfg_now s (Start.LLoad t create colls late))) t = Some (Start.paused true []).
Proof. exact StartProofs.failing_load_pauses. Qed.
Print Assumptions C06_failing_load_pauses.

(* the same for a collection created while the task runs *)
Theorem C06_failing_watch_pauses : forall s t x k,
  Start.get s t = Some k -> Start.t_running k = true ->
  Start.get (fst (Start.step Start.cfg_now s (Start.LWatch t x true))) t = Some (Start.paused true []).
Proof. exact StartProofs.failing_watch_pauses. Qed.
Print Assumptions C06_failing_watch_pauses.

(* no other task changes state, whatever the label does to its own *)
Theorem C06_start_frame : forall c s l t', t' <> Start.task_of l -> Start.get (fst (Start.step c s l)) t' = Start.get s t'.
Proof. exact StartProofs.step_frame. Qed.
Print Assumptions C06_start_frame.

(* the checker evaluated on the implementation's observations accepts every trace of this model *)
Theorem C06_start_checker_accepts_model : forall k,
  (forall l, In l (SCheck.sc_ops k) -> In (Start.task_of l) (SCheck.sc_tasks k)) ->
  SCheck.sc_obs k = Start.trace Start.cfg_now [] (SCheck.sc_tasks k) (SCheck.sc_ops k) -> SCheck.check_C06s k = true.
Proof. exact SCheckProofs.agreeing_case_accepted. Qed.
Print Assumptions C06_start_checker_accepts_model.

(* before the repair C06-start-after-quit the statement was false: a collection whose start completed after the pause
   was read on by the paused task *)
Theorem C06_start_after_quit_v1_refuted : exists ls, ~ StartProofs.Inv (Start.run Start.cfg_v1 [] ls).
Proof. exact StartProofs.start_after_quit_v1_refuted. Qed.
Print Assumptions C06_start_after_quit_v1_refuted.
