(* C06, reader half — a pack that cannot be handled stops at an error event that names its task; nothing of it is emitted.
   Cases come from harness h_reader (-mode c06), the model is the reader model of C01-C04 *)
From Coq Require Import List String NArith ZArith Bool.
From Verif Require Import Base.Util Reader.Model Reader.Script C02.Check.
Import ListNotations.
Local Open Scope string_scope.

(* every error event names its task (the server pauses the task it names and nobody else, C06_error_event) *)
Definition errors_named (c : case) : bool :=
  forallb (fun e => match e with EvErr named => named | _ => true end) (c_events c).

(* what is emitted is resolved: an import carries as many partition ids as one of the maps the downstream reported, an insert /
   delete / drop-partition the downstream id of its partition name (the re-addressing check of C02) *)
Definition resolved (c : case) : bool := forallb (fun p => forallb (msg_ok c p) (ep_msgs p)) (c_out c).

Definition check_C06r (c : case) : bool := errors_named c && resolved c.

Definition mismatches (l : list (N * case)) : list N := failing_ids agrees l.
Definition checkfails (l : list (N * case)) : list N := failing_ids check_C06r l.
Definition knownclass (l : list (N * case)) : list (N * N) := [].
