(* the checker of C06.SCheck accepts every trace of the model: an observation that agrees with the model is never rejected,
   so a rejection always points at the implementation *)
From Coq Require Import List Arith Bool Lia.
Import ListNotations.
From Verif Require Import C06.Start C06.StartProofs C06.SCheck.

Lemma nats_eqb_refl l : nats_eqb l l = true.
Proof. induction l as [|x l IH]; cbn; auto. now rewrite Nat.eqb_refl, IH. Qed.
Lemma view_eqb_refl v : view_eqb v v = true.
Proof. destruct v as [[[r e] l]|]; cbn; auto. now rewrite !eqb_reflx, nats_eqb_refl. Qed.

Lemma view_ok_of s t : Inv s -> view_ok (view_of s t) = true.
Proof.
  intros Hs. unfold view_of. destruct (get s t) as [k|] eqn:Hg; cbn; auto.
  destruct (Hs _ _ Hg) as [Hp Hr]. destruct (t_running k).
  - now rewrite Hr.
  - now rewrite Hp.
Qed.

Lemma view_at_map s ts t : In t ts -> view_at ts (map (view_of s) ts) t = view_of s t.
Proof.
  induction ts as [|t' ts IH]; cbn; intros Hin; [tauto|].
  destruct (Nat.eqb t t') eqn:E.
  - apply Nat.eqb_eq in E. now subst.
  - destruct Hin as [->|Hin]; [now rewrite Nat.eqb_refl in E | auto].
Qed.

Lemma others_same_frame s s' t ts :
  (forall t', t' <> t -> get s' t' = get s t') -> others_same ts t (map (view_of s) ts) (map (view_of s') ts) = true.
Proof.
  intros Hf. induction ts as [|t' ts IH]; cbn; auto.
  rewrite IH, andb_true_r. destruct (Nat.eqb t t') eqn:E; cbn; auto.
  apply Nat.eqb_neq in E. unfold view_of. rewrite Hf by congruence. apply view_eqb_refl.
Qed.

Lemma own_ok_model s l :
  own_ok l (snd (step cfg_now s l)) (view_of s (task_of l)) (view_of (fst (step cfg_now s l)) (task_of l)) = true.
Proof.
  destruct l as [t create colls late | t x fail | t x | t]; cbn [own_ok task_of]; auto.
  - destruct (existsb snd colls) eqn:Hf; [|now rewrite orb_true_r].
    destruct (after_fail_some _ Hf) as [r Hr].
    assert (Hl : load cfg_now colls late = paused true []) by (unfold load; now rewrite Hr).
    unfold view_of. destruct create; cbn [step]; destruct (get s t) as [k|] eqn:Hg; cbn [fst snd]; rewrite ?Hg; auto.
    + now rewrite orb_true_r.
    + rewrite get_set_same, Hl. reflexivity.
    + destruct (t_running k) eqn:Hk; cbn [fst snd].
      * rewrite Hg. cbn [was_running]. now rewrite orb_true_r.
      * rewrite get_set_same, Hl. reflexivity.
  - destruct fail; auto. unfold view_of. cbn [step]. destruct (get s t) as [k|] eqn:Hg; cbn; auto.
    destruct (t_running k) eqn:Hk; cbn; auto. now rewrite get_set_same.
Qed.

Theorem model_traces_accepted ts : forall ls s,
  Inv s -> (forall l, In l ls -> In (task_of l) ts) ->
  check_steps ts (map (view_of s) ts) ls (trace cfg_now s ts ls) = true.
Proof.
  induction ls as [|l r IH]; intros s Hs Hin; cbn [trace check_steps]; auto.
  destruct (step cfg_now s l) as [s' cd] eqn:Hst. cbn [check_steps].
  assert (Hs' : Inv s') by (replace s' with (fst (step cfg_now s l)) by (now rewrite Hst); now apply step_inv).
  assert (Ht : In (task_of l) ts) by (apply Hin; now left).
  rewrite !view_at_map by exact Ht.
  assert (Hown := own_ok_model s l). rewrite Hst in Hown. cbn [fst snd] in Hown. rewrite Hown.
  rewrite (others_same_frame s s' (task_of l) ts).
  2:{ intros t' Hne. replace s' with (fst (step cfg_now s l)) by (now rewrite Hst). now apply step_frame. }
  rewrite IH; auto.
  2:{ intros l' Hl'. apply Hin. now right. }
  rewrite !andb_true_r. apply forallb_forall. intros v Hv. apply in_map_iff in Hv. destruct Hv as [t [<- _]].
  now apply view_ok_of.
Qed.

Corollary agreeing_case_accepted k :
  (forall l, In l (sc_ops k) -> In (task_of l) (sc_tasks k)) ->
  sc_obs k = trace cfg_now [] (sc_tasks k) (sc_ops k) -> check_C06s k = true.
Proof.
  intros Hin Heq. unfold check_C06s. rewrite Heq.
  replace (map (fun _ => None) (sc_tasks k)) with (map (view_of []) (sc_tasks k)) by (apply map_ext; reflexivity).
  apply model_traces_accepted; auto. intros t x Hg. discriminate.
Qed.
