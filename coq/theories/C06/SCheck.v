(* C06, start failures - cases of `h_c05 ... ` no: of `h_c06s`: the real MetaCDC with the real CollectionReader over lib/sfake
   (a channel manager that records start / stop of a collection and can hold a start, a catalog with a subscription table).
   After every label: the reply code and, per task, what get/list and the store show (running, has a reason) and the
   collections the channel manager still reads for it (started and not stopped, ascending). *)
From Coq Require Import List Arith NArith Bool.
From Verif Require Import Base.Util.
From Verif Require Export C06.Start.
Import ListNotations.

Record scase := { sc_tasks : list nat; sc_ops : list label; sc_obs : list (nat * list view) }.

Fixpoint nats_eqb (a b : list nat) : bool :=
  match a, b with
  | [], [] => true
  | x :: a', y :: b' => Nat.eqb x y && nats_eqb a' b'
  | _, _ => false
  end.
Definition view_eqb (a b : view) : bool :=
  match a, b with
  | None, None => true
  | Some (r1, e1, l1), Some (r2, e2, l2) => Bool.eqb r1 r2 && Bool.eqb e1 e2 && nats_eqb l1 l2
  | _, _ => false
  end.
Fixpoint views_eqb (a b : list view) : bool :=
  match a, b with
  | [], [] => true
  | x :: a', y :: b' => view_eqb x y && views_eqb a' b'
  | _, _ => false
  end.
Fixpoint obs_eqb (a b : list (nat * list view)) : bool :=
  match a, b with
  | [], [] => true
  | (c1, v1) :: a', (c2, v2) :: b' => Nat.eqb c1 c2 && views_eqb v1 v2 && obs_eqb a' b'
  | _, _ => false
  end.

Definition sagrees (k : scase) : bool := obs_eqb (trace cfg_now [] (sc_tasks k) (sc_ops k)) (sc_obs k).

(* the statement on the implementation's own observations *)
Definition view_ok (v : view) : bool :=
  match v with
  | None => true
  | Some (true, reason, _) => negb reason
  | Some (false, _, act) => match act with [] => true | _ => false end
  end.
Definition is_paused_with_reason (v : view) : bool :=
  match v with Some (false, true, []) => true | _ => false end.
Definition was_running (v : view) : bool := match v with Some (true, _, _) => true | _ => false end.

Fixpoint view_at (ts : list nat) (vs : list view) (t : nat) : view :=
  match ts, vs with
  | t' :: ts', v :: vs' => if Nat.eqb t t' then v else view_at ts' vs' t
  | _, _ => None
  end.

(* the label's own task: what must have happened to it *)
Definition own_ok (l : label) (code : nat) (before after : view) : bool :=
  match l with
  | LLoad _ create colls _ =>
      (* the load is carried out for a new task (create) or a paused one (resume) *)
      negb (Nat.eqb code 0) || negb (existsb snd colls) || is_paused_with_reason after
      || (if create then match before with Some _ => true | None => false end else was_running before)
  | LWatch _ _ true => negb (was_running before) || is_paused_with_reason after
  | _ => true
  end.

Fixpoint others_same (ts : list nat) (t : nat) (before after : list view) : bool :=
  match ts, before, after with
  | [], [], [] => true
  | t' :: ts', b :: bs, a :: as' => (Nat.eqb t t' || view_eqb b a) && others_same ts' t bs as'
  | _, _, _ => false
  end.

Fixpoint check_steps (ts : list nat) (prev : list view) (ops : list label) (obs : list (nat * list view)) : bool :=
  match ops, obs with
  | [], [] => true
  | l :: ops', (code, vs) :: obs' =>
      forallb view_ok vs && own_ok l code (view_at ts prev (task_of l)) (view_at ts vs (task_of l))
      && others_same ts (task_of l) prev vs && check_steps ts vs ops' obs'
  | _, _ => false
  end.

Definition check_C06s (k : scase) : bool := check_steps (sc_tasks k) (map (fun _ => None) (sc_tasks k)) (sc_ops k) (sc_obs k).

Definition mismatches (l : list (N * scase)) : list N := failing_ids sagrees l.
Definition checkfails (l : list (N * scase)) : list N := failing_ids check_C06s l.
Definition knownclass (l : list (N * scase)) : list (N * N) := [].
