(* C06, start failures: the collection reader's start / quit protocol (core/reader/collection_reader.go StartRead, the watch
   callback, QuitRead, sendError) together with the server goroutine that turns a reader error into a pause
   (server/cdc_impl.go startInternal, pauseTaskWithReason).

   One label is one API call or one catalog event together with everything it triggers, run to quiescence; where the
   outcome depends on the schedule the label says which schedule was taken (late = the rest of the load is still inside
   StartReadCollection when the pause's QuitRead goes through the reader's collection table). *)
From Coq Require Import List Arith Bool Lia.
Import ListNotations.

Record cfg := { stop_late : bool }.      (* a start that completes after QuitRead stops what it has started *)
Definition cfg_now := {| stop_late := true |}.
Definition cfg_v1 := {| stop_late := false |}.   (* before the repair C06-start-after-quit *)

Record task := { t_running : bool; t_reason : bool; t_active : list nat }.   (* t_active: collections started and not stopped *)
Definition st := list (nat * task).

Inductive label :=
| LLoad (t : nat) (create : bool) (colls : list (nat * bool)) (late : bool)  (* Create / Resume: the initial load; (collection, its start fails) in catalog order *)
| LWatch (t : nat) (c : nat) (fail : bool)      (* a collection created while the task runs *)
| LWatchPause (t : nat) (c : nat)               (* the same while the user pauses the task: the start completes after the pause *)
| LPause (t : nat).                          (* the user pauses the task (the reason says so) *)

Fixpoint get (s : st) (t : nat) : option task :=
  match s with
  | [] => None
  | (t', k) :: r => if Nat.eqb t t' then Some k else get r t
  end.
Fixpoint set (s : st) (t : nat) (k : task) : st :=
  match s with
  | [] => [(t, k)]
  | (t', k') :: r => if Nat.eqb t t' then (t, k) :: r else (t', k') :: set r t k
  end.

(* the collections behind the first failing one *)
Fixpoint after_fail (colls : list (nat * bool)) : option (list (nat * bool)) :=
  match colls with
  | [] => None
  | (_, true) :: r => Some r
  | (_, false) :: r => after_fail r
  end.

Definition paused (reason : bool) (left : list nat) : task := {| t_running := false; t_reason := reason; t_active := left |}.

Definition load (c : cfg) (colls : list (nat * bool)) (late : bool) : task :=
  match after_fail colls with
  | None => {| t_running := true; t_reason := false; t_active := map fst colls |}
  | Some rest => paused true (if stop_late c then [] else if late then map fst rest else [])
  end.

Definition task_of (l : label) : nat :=
  match l with LLoad t _ _ _ => t | LWatch t _ _ => t | LWatchPause t _ => t | LPause t => t end.

(* result code: 0 accepted, 1 refused *)
Definition step (c : cfg) (s : st) (l : label) : st * nat :=
  match l with
  | LLoad t true colls late =>
      match get s t with None => (set s t (load c colls late), 0) | Some _ => (s, 0) end   (* a create naming an existing task answers with that task *)
  | LLoad t false colls late =>
      match get s t with
      | Some k => if t_running k then (s, 1) else (set s t (load c colls late), 0)
      | None => (s, 1)
      end
  | LWatch t x fail =>
      match get s t with
      | Some k => if t_running k
                  then (set s t (if fail then paused true [] else {| t_running := true; t_reason := false; t_active := t_active k ++ [x] |}), 0)
                  else (s, 0)
      | None => (s, 0)
      end
  | LWatchPause t x =>
      match get s t with
      | Some k => if t_running k then (set s t (paused true (if stop_late c then [] else [x])), 0) else (s, 1)
      | None => (s, 1)
      end
  | LPause t =>
      match get s t with
      | Some k => if t_running k then (set s t (paused true []), 0) else (s, 1)
      | None => (s, 1)
      end
  end.

Fixpoint run (c : cfg) (s : st) (ls : list label) : st :=
  match ls with [] => s | l :: r => run c (fst (step c s l)) r end.

(* what a user (get/list) and the channel manager show of one task *)
Definition view := option (bool * bool * list nat).
Definition view_of (s : st) (t : nat) : view :=
  match get s t with Some k => Some (t_running k, t_reason k, t_active k) | None => None end.

Fixpoint trace (c : cfg) (s : st) (ts : list nat) (ls : list label) : list (nat * list view) :=
  match ls with
  | [] => []
  | l :: r => let '(s', cd) := step c s l in (cd, map (view_of s') ts) :: trace c s' ts r
  end.
