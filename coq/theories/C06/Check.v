(* C06 — checker over the implementation's observations: a failure pauses exactly the owning task, the failing
   message is not skipped, nobody else changes state *)
From Coq Require Import List String NArith ZArith Bool.
From Verif Require Import Base.Util Server.Data.
Import ListNotations.
Local Open Scope string_scope.

Definition task_of (streams : list stream) (k : nat) : string := match nth_error streams k with Some sm => s_task sm | None => "" end.
Definition run_of (o : obs) (t : string) : option bool := alookup (o_running o) t.

Definition new_wfails (prev o : obs) := skipn (List.length (o_wfails prev)) (o_wfails o).
Definition new_pfails (prev o : obs) := skipn (List.length (o_pfails prev)) (o_pfails o).

Definition ckpt_of (o : obs) (k : nat) : nat :=
  match find (fun e => Nat.eqb (fst e) k) (o_store o) with Some e => N.to_nat (fst (fst (snd e))) | None => 0 end.
Definition acked (o : obs) (k i : nat) : bool :=
  existsb (fun a => Nat.eqb (snd (fst a)) k && Nat.eqb (snd a) i) (o_acks o).

(* tasks that this label may legitimately stop or start *)
Definition may_change (streams : list stream) (prev o : obs) (l : label) (t : string) : bool :=
  existsb (fun f => String.eqb (task_of streams (fst f)) t) (new_wfails prev o)
  || existsb (fun k => String.eqb (task_of streams k) t) (new_pfails prev o)
  || match l with
     | EvDrop k _ => String.eqb (task_of streams k) t
     | EvError t' => String.eqb t' t
     | ApiPause t' | ApiResume t' => String.eqb t' t
     | Crash => true
     | Feed _ _ _ _ => false
     end.

Definition check_point (streams : list stream) (prev o : obs) (l : label) : bool :=
  (* the task whose write or checkpoint write was refused is paused *)
  forallb (fun f => match run_of o (task_of streams (fst f)) with Some false => true | _ => false end) (new_wfails prev o)
  && forallb (fun k => match run_of o (task_of streams k) with Some false => true | _ => false end) (new_pfails prev o)
  (* an error event naming a task, a refused drop: that task is paused *)
  && match l with
     | EvError t => if prev.(o_evloop) then match run_of prev t with Some _ => match run_of o t with Some false => true | _ => false end | None => true end else true
     | EvDrop k true => if prev.(o_evloop) then match run_of prev (task_of streams k) with
                                                | Some true => match run_of o (task_of streams k) with Some false => true | _ => false end
                                                | _ => true end else true
     | _ => true
     end
  (* "its checkpoint stays": a drop the downstream refuses marks no checkpoint of the collection as dropped *)
  && match l with
     | EvDrop k true =>
         forallb (fun e => negb (snd (snd e))
                           || negb (match nth_error streams k, nth_error streams (fst e) with
                                    | Some a, Some b => String.eqb (s_task a) (s_task b) && Z.eqb (s_coll a) (s_coll b)
                                    | _, _ => false end)
                           || existsb (fun e' => Nat.eqb (fst e') (fst e) && snd (snd e')) (o_store prev)) (o_store o)
     | _ => true
     end
  (* nobody else changes state *)
  && forallb (fun tb => match run_of prev (fst tb) with
                        | Some b => Bool.eqb b (snd tb) || may_change streams prev o l (fst tb)
                        | None => true end) (o_running o)
  (* the refused message is not skipped: it is not acknowledged by this label and the checkpoint stays before it *)
  && forallb (fun f => Nat.leb (ckpt_of o (fst f)) (snd f) && negb (acked o (fst f) (snd f) && negb (acked prev (fst f) (snd f))))
       (new_wfails prev o).

(* a refused message stays before the checkpoint until it has been acknowledged *)
Definition never_skipped (o : obs) : bool :=
  forallb (fun f => Nat.leb (ckpt_of o (fst f)) (snd f) || acked o (fst f) (snd f)) (o_wfails o).

Definition empty_obs (c : case) : obs :=
  {| o_acks := []; o_store := []; o_running := map (fun sm => (s_task sm, true)) (c_streams c); o_alive := []; o_evloop := true;
     o_wfails := []; o_pfails := []; o_seeks := [] |}.

Fixpoint check_all (streams : list stream) (prev : obs) (ls : list label) (os : list obs) : bool :=
  match ls, os with
  | [], [] => true
  | l :: lr, o :: r => check_point streams prev o l && never_skipped o && check_all streams o lr r
  | _, _ => false
  end.
Definition check_C06 (c : case) : bool := check_all (c_streams c) (empty_obs c) (c_labels c) (c_obs c).

Definition mismatches (l : list (N * case)) : list N := failing_ids agrees l.
Definition checkfails (l : list (N * case)) : list N := failing_ids check_C06 l.
Definition knownclass (l : list (N * case)) : list (N * N) := [].
