From Coq Require Import List Arith Bool Lia.
Import ListNotations.
From Verif Require Import C06.Start.

Lemma get_set_same s t k : get (set s t k) t = Some k.
Proof.
  induction s as [|[t' k'] r IH]; cbn [set get].
  - now rewrite Nat.eqb_refl.
  - destruct (Nat.eqb t t') eqn:E; cbn [get]; rewrite ?Nat.eqb_refl, ?E; auto.
Qed.

Lemma get_set_other s t k t' : t' <> t -> get (set s t k) t' = get s t'.
Proof.
  intros Hne. induction s as [|[t0 k0] r IH]; cbn [set get].
  - destruct (Nat.eqb t' t) eqn:E; [apply Nat.eqb_eq in E; congruence | reflexivity].
  - destruct (Nat.eqb t t0) eqn:E; cbn [get].
    + apply Nat.eqb_eq in E; subst t0.
      destruct (Nat.eqb t' t) eqn:E2; [apply Nat.eqb_eq in E2; congruence | reflexivity].
    + destruct (Nat.eqb t' t0); auto.
Qed.

(* a paused task reads nothing; a running task shows no reason *)
Definition TInv (k : task) : Prop :=
  (t_running k = false -> t_active k = []) /\ (t_running k = true -> t_reason k = false).
Definition Inv (s : st) : Prop := forall t k, get s t = Some k -> TInv k.

Lemma load_inv colls late : TInv (load cfg_now colls late).
Proof.
  unfold load, TInv. destruct (after_fail colls); cbn; split; intros; auto; discriminate.
Qed.

Lemma set_inv s t k : Inv s -> TInv k -> Inv (set s t k).
Proof.
  intros Hs Hk t' k' Hg. destruct (Nat.eq_dec t' t) as [->|Hne].
  - rewrite get_set_same in Hg. now inversion Hg; subst.
  - rewrite get_set_other in Hg by exact Hne. eauto.
Qed.

Lemma step_inv s l : Inv s -> Inv (fst (step cfg_now s l)).
Proof.
  intros Hs. destruct l as [t [|] colls late | t x fail | t x | t]; cbn [step].
  - destruct (get s t); cbn [fst]; auto. apply set_inv; auto using load_inv.
  - destruct (get s t) as [k|]; cbn [fst]; auto. destruct (t_running k); cbn [fst]; auto.
    apply set_inv; auto using load_inv.
  - destruct (get s t) as [k|]; cbn [fst]; auto. destruct (t_running k) eqn:Hr; cbn [fst]; auto.
    apply set_inv; auto. destruct fail; unfold TInv; cbn; split; intros; auto; discriminate.
  - destruct (get s t) as [k|]; cbn [fst]; auto. destruct (t_running k); cbn [fst]; auto.
    apply set_inv; auto. unfold TInv; cbn; split; intros; auto; discriminate.
  - destruct (get s t) as [k|]; cbn [fst]; auto. destruct (t_running k); cbn [fst]; auto.
    apply set_inv; auto. unfold TInv; cbn; split; intros; auto; discriminate.
Qed.

Lemma run_inv ls : forall s, Inv s -> Inv (run cfg_now s ls).
Proof.
  induction ls as [|l r IH]; cbn [run]; intros s Hs; auto using step_inv.
Qed.

Theorem start_every_history ls : Inv (run cfg_now [] ls).
Proof. apply run_inv. intros t k Hg. discriminate. Qed.

Lemma after_fail_some colls : existsb snd colls = true -> exists r, after_fail colls = Some r.
Proof.
  induction colls as [|[x [|]] r IH]; cbn; intros H; try discriminate; eauto.
Qed.

(* the load of a label is carried out: a create of a new task, a resume of a paused one *)
Definition loads (s : st) (t : nat) (create : bool) : Prop :=
  if create then get s t = None else exists k, get s t = Some k /\ t_running k = false.

(* a start that fails anywhere in an initial load - whatever the schedule - leaves the task paused with a reason and nothing being read *)
Theorem failing_load_pauses s t create colls late :
  loads s t create -> existsb snd colls = true ->
  get (fst (step cfg_now s (LLoad t create colls late))) t = Some (paused true []).
Proof.
  intros Hc Hf. destruct (after_fail_some _ Hf) as [r Hr].
  assert (Hl : load cfg_now colls late = paused true []) by (unfold load; now rewrite Hr).
  destruct create; cbn [step loads] in *.
  - rewrite Hc. cbn [fst]. now rewrite get_set_same, Hl.
  - destruct Hc as [k [Hg Hk]]. rewrite Hg, Hk. cbn [fst]. now rewrite get_set_same, Hl.
Qed.

Theorem failing_watch_pauses s t x k :
  get s t = Some k -> t_running k = true ->
  get (fst (step cfg_now s (LWatch t x true))) t = Some (paused true []).
Proof.
  intros Hg Hr. cbn [step]. rewrite Hg, Hr. cbn [fst]. now rewrite get_set_same.
Qed.

Theorem pause_during_start_leaves_nothing s t x k :
  get s t = Some k -> t_running k = true ->
  get (fst (step cfg_now s (LWatchPause t x))) t = Some (paused true []).
Proof.
  intros Hg Hr. cbn [step]. rewrite Hg, Hr. cbn [fst]. now rewrite get_set_same.
Qed.

(* nobody else changes *)
Theorem step_frame c s l t' : t' <> task_of l -> get (fst (step c s l)) t' = get s t'.
Proof.
  intros Hne. destruct l as [t [|] colls late | t x fail | t x | t]; cbn [step task_of] in *;
    destruct (get s t) as [k|]; cbn [fst]; auto using get_set_other;
    destruct (t_running k); cbn [fst]; auto using get_set_other.
Qed.

(* a clean load reads exactly the task's collections *)
Theorem clean_load_reads_all s t colls late :
  get s t = None -> existsb snd colls = false ->
  get (fst (step cfg_now s (LLoad t true colls late))) t = Some {| t_running := true; t_reason := false; t_active := map fst colls |}.
Proof.
  intros Hg Hf. cbn [step]. rewrite Hg. cbn [fst]. rewrite get_set_same. unfold load.
  assert (after_fail colls = None) as ->; auto.
  induction colls as [|[x [|]] r IH]; cbn in *; auto; discriminate.
Qed.

(* before the repair: the collections whose start completes after the pause keep being read by a paused task *)
Theorem start_after_quit_v1_refuted :
  exists ls, ~ Inv (run cfg_v1 [] ls).
Proof.
  exists [LLoad 1 true [(1, true); (2, false)] true].
  intros H. specialize (H 1 _ eq_refl). destruct H as [H _]. cbn in H. specialize (H eq_refl). discriminate.
Qed.

Example inv_somewhere :
  view_of (run cfg_now [] [LLoad 1 true [(1, false); (2, false)] false; LLoad 2 true [(8, false)] false; LWatch 1 3 true; LLoad 1 false [(1, false); (2, false); (3, false)] true]) 1
  = Some (true, false, [1; 2; 3]).
Proof. reflexivity. Qed.
