(* C16, manager path - cases written by `h_reader -mode c16m`: (source, downstream) channel pairs are offered to the real
   channel manager through StartReadCollection (and, in scripted cases, forwardMsg is called while a waiting handler is
   held between its receive and the lock, hook H9); the manager's channel mapping is read through hook H8 after every
   event and at quiescence.
   mismatches: the observed assignments are not reachable in the model (C16.Manager) under any schedule of the internal
               steps (forwardChannel / waitChannel goroutines);
   checkfails: the property's statement on the observed assignments themselves. *)
From Coq Require Import List String NArith ZArith Bool Arith.
From Verif Require Import Base.Util C16.Model C16.Manager.
Import ListNotations.
Local Open Scope string_scope.

Record mcase := { mc_src : nat; mc_tgt : nat; mc_events : list event; mc_grids : list (list (string * string)) }.

Definition ceil_div (a b : nat) : nat := match b with O => O | _ => (a + b - 1) / b end.
Definition avg (c : mcase) : nat := if Nat.leb (mc_tgt c) (mc_src c) then ceil_div (mc_src c) (mc_tgt c) else ceil_div (mc_tgt c) (mc_src c).

Definition count_by {A} (f : A -> bool) (l : list A) : nat := List.length (filter f l).

(* one observed assignment: the channels of the larger side are the keys; a key has one value; a value serves at most avg keys;
   with equal counts the assignment is one-to-one *)
Definition grid_ok (c : mcase) (g : list (string * string)) : bool :=
  let src_keys := Nat.leb (mc_tgt c) (mc_src c) in
  let key (p : string * string) := if src_keys then fst p else snd p in
  let val (p : string * string) := if src_keys then snd p else fst p in
  forallb (fun p => Nat.eqb (count_by (fun q => String.eqb (key q) (key p)) g) 1) g
  && forallb (fun p => Nat.leb (count_by (fun q => String.eqb (val q) (val p)) g) (avg c)) g.

(* an assignment never changes once made *)
Fixpoint stable (gs : list (list (string * string))) : bool :=
  match gs with
  | g :: ((h :: _) as r) => forallb (fun p => existsb (fun q => String.eqb (fst p) (fst q) && String.eqb (snd p) (snd q)) h) g && stable r
  | _ => true
  end.

Definition check_C16m (c : mcase) : bool := forallb (grid_ok c) (mc_grids c) && stable (mc_grids c).

(* every event starts at most one goroutine chain of three internal steps *)
Definition fuel_of (c : mcase) : nat := 4 * List.length (mc_events c) + 8.
Definition agrees_m (c : mcase) : bool :=
  accept cfg_now (fuel_of c) [init (N.of_nat (mc_src c)) (N.of_nat (mc_tgt c))] (mc_events c) (mc_grids c).

Definition mismatches (l : list (N * mcase)) : list N := failing_ids agrees_m l.
Definition checkfails (l : list (N * mcase)) : list N := failing_ids check_C16m l.
Definition knownclass (l : list (N * mcase)) : list (N * N) := [].
