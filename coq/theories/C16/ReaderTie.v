(* C16 inside the reader model: the channel assignment that the reader model (Reader.Model, used by C01-C04) carries in its state
   is driven only by the manager protocol of C16.Manager - offers, goroutine steps run to quiescence, the initial counts - so the
   C16 invariant holds in every reachable state of the reader model, for every history *)
From Coq Require Import List String NArith ZArith Bool Arith Lia.
From Verif Require Import Base.Util Reader.Model Reader.Proofs C16.ManagerProofs.
From Verif Require Import Reader.Forget.
From Verif Require C16.Model C16.Manager C16.Proofs.
Import ListNotations.

Definition MgOK (s : st) : Prop := MInv (mg s) /\ same_avg_one (Manager.g_cm (mg s)).

(* ---- the manager side: the internal steps and their run to quiescence keep the invariant ---- *)
Lemma cfg_now_guard : Manager.guard_waiter Manager.cfg_now = true. Proof. reflexivity. Qed.
Lemma cfg_now_skey : Manager.skey_by_name Manager.cfg_now = false. Proof. reflexivity. Qed.

Lemma taus_keep g g' : In g' (Manager.taus Manager.cfg_now g) -> MInv g -> same_avg_one (Manager.g_cm g) -> MInv g' /\ same_avg_one (Manager.g_cm g').
Proof.
  intros Hin I S1. unfold Manager.taus in Hin.
  assert (Done : forall g1, MInv g1 /\ ext g g1 -> MInv g1 /\ same_avg_one (Manager.g_cm g1)).
  { intros g1 [I1 (A & M & _)]. split; [exact I1|]. unfold same_avg_one in *. rewrite A, M. exact S1. }
  apply in_app_or in Hin. destruct Hin as [Hin|Hin]; [|apply in_app_or in Hin; destruct Hin as [Hin|Hin]].
  - apply in_flat_map in Hin. destruct Hin as [i [_ Hx]]. destruct (Manager.fwdlock_step g i) as [x|] eqn:E; [|destruct Hx].
    destruct Hx as [<-|[]]. apply Done. apply (fwdlock_keeps g i); assumption.
  - apply in_flat_map in Hin. destruct Hin as [i [_ Hx]]. apply in_flat_map in Hx. destruct Hx as [j [_ Hx]].
    destruct (Manager.recv_step g i j) as [x|] eqn:E; [|destruct Hx]. destruct Hx as [<-|[]]. apply Done. apply (recv_keeps g i j); assumption.
  - apply in_flat_map in Hin. destruct Hin as [j [_ Hx]]. destruct (Manager.waitlock_step Manager.cfg_now g j) as [x|] eqn:E; [|destruct Hx].
    destruct Hx as [<-|[]]. apply Done. apply (waitlock_keeps Manager.cfg_now cfg_now_guard g j); assumption.
Qed.

Lemma settle_mg_keep fuel : forall g, MInv g -> same_avg_one (Manager.g_cm g) -> MInv (settle_mg fuel g) /\ same_avg_one (Manager.g_cm (settle_mg fuel g)).
Proof.
  induction fuel as [|f IH]; intros g I S1; cbn [settle_mg]; [split; assumption|].
  destruct (Manager.taus Manager.cfg_now g) as [|g' r] eqn:E; [split; assumption|].
  destruct (taus_keep g g' ltac:(rewrite E; left; reflexivity) I S1) as [I' S']. apply IH; assumption.
Qed.

Lemma offer_keep g s t : MInv g -> same_avg_one (Manager.g_cm g) ->
  MInv (Manager.offer_step Manager.cfg_now g s t) /\ same_avg_one (Manager.g_cm (Manager.offer_step Manager.cfg_now g s t)).
Proof.
  intros I S1. destruct (offer_keeps Manager.cfg_now cfg_now_skey g s t I S1) as [I1 (A & M & _)].
  split; [exact I1|]. unfold same_avg_one in *. rewrite A, M. exact S1.
Qed.

(* ---- the reader side: which steps touch the manager component ---- *)
Lemma fold_mg {A} (f : st -> A -> st) : (forall s x, mg (f s x) = mg s) -> forall l s, mg (fold_left f l s) = mg s.
Proof. intros H l. induction l as [|x l IH]; intros s; cbn [fold_left]; [reflexivity|]. rewrite IH. apply H. Qed.

Lemma fire_mg0 s : mg (fire_pbars (fire_cbars s)) = mg s.
Proof.
  unfold fire_pbars, fire_cbars.
  rewrite (fold_mg (fun s pb => let '((c, p), b) := pb in if negb (b_done b) && Nat.leb (b_dest b) (b_got b) then _ else s)); [|intros s0 [[c p] b]; destruct (_ && _); reflexivity].
  apply fold_mg. intros s0 [c b]. destruct (_ && _); reflexivity.
Qed.

Lemma fire_mg l b s : mg (forget_fired l b (fire_pbars (fire_cbars s))) = mg s.
Proof.
  pose proof (forget_fired_frame l b (fire_pbars (fire_cbars s))) as F. unfold same_but_heap in F.
  rewrite <- (fire_mg0 s). apply F.
Qed.

Lemma start_handler_mg s a b c z : mg (start_handler s a b c z) = mg s. Proof. reflexivity. Qed.

Lemma add_shard_MgOK s c ref sh : MgOK s -> MgOK (add_shard s c ref sh).
Proof.
  intros [I S1]. destruct (offer_keep (mg s) (sh_spch sh) (sh_tpch sh) I S1) as [I1 S2].
  unfold add_shard, MgOK. destruct (hlookup s _); [cbn [mg]; split; assumption|].
  destruct (Manager.has_handler _ _); [cbn [mg with_mg]; split; assumption|].
  destruct (alookup _ _); [rewrite start_handler_mg; cbn [mg]; split; assumption|cbn [mg with_mg]; split; assumption].
Qed.

Lemma materialise_mg s : mg (materialise s) = mg s.
Proof.
  unfold materialise. apply fold_mg. intros s0 k. destruct (alookup _ _); [|reflexivity]. destruct (Manager.find_handler _ _) as [mh|]; [|reflexivity].
  cbn [mg with_mg].
  rewrite (fold_mg (fun s w => set_clock s (Manager.h_tgt mh) (collect (clock_of s (Manager.h_tgt mh)) (ws_seek w)))); [reflexivity|intros; reflexivity].
Qed.

Lemma settle_MgOK s : MgOK s -> MgOK (settle s).
Proof.
  intros [I S1]. unfold settle, MgOK. rewrite materialise_mg. cbn [mg with_mg]. apply settle_mg_keep; assumption.
Qed.

Lemma fold_add_shard_MgOK c ref : forall shards s, MgOK s -> MgOK (fold_left (fun s sh => add_shard s c ref sh) shards s).
Proof. induction shards as [|sh r IH]; intros s H; cbn [fold_left]; [exact H|]. apply IH, add_shard_MgOK, H. Qed.

(* the content phase never touches the manager component *)
Lemma part_lookup_mg retries a c r pid name res a' r' : part_lookup retries a c r pid name = (res, a', r') -> mg (a_st a') = mg (a_st a).
Proof.
  unfold part_lookup. destruct (alookup _ name); [intros H; injection H as _ <- _; reflexivity|].
  destruct (refresh retries (a_ans a) name _) as [[res0 rest] newmap]. destruct newmap; intros H; injection H as _ <- _; reflexivity.
Qed.
Lemma import_lookup_mg retries a c r count res a' r' : import_lookup retries a c r count = (res, a', r') -> mg (a_st a') = mg (a_st a).
Proof.
  unfold import_lookup. destruct (Nat.eqb _ count); [intros H; injection H as _ <- _; reflexivity|].
  destruct (refresh_count retries (a_ans a) count _) as [[ok rest] newmap]. destruct newmap; intros H; injection H as _ <- _; reflexivity.
Qed.
Ltac mg_tac :=
  repeat match goal with
         | |- context [append ?a ?r ?e] => rewrite (append_frame a r e)
         | H : part_lookup _ _ _ _ _ _ = _ |- _ => apply part_lookup_mg in H
         | H : import_lookup _ _ _ _ _ = _ |- _ => apply import_lookup_mg in H
         end; cbn [a_st mg upd_state] in *; try congruence; try reflexivity.
Lemma one_msg_mg retries a m :
  match one_msg retries a m with COk a' => mg (a_st a') = mg (a_st a) | CErr s => mg s = mg (a_st a) end.
Proof. unfold one_msg. repeat dm; mg_tac. Qed.
Lemma all_msgs_mg retries : forall l a,
  match all_msgs retries a l with COk a' => mg (a_st a') = mg (a_st a) | CErr s => mg s = mg (a_st a) end.
Proof.
  induction l as [|m r IH]; intros a; cbn [all_msgs]; [reflexivity|].
  pose proof (one_msg_mg retries a m) as F. destruct (one_msg retries a m) as [s|a1]; [exact F|].
  specialize (IH a1). destruct (all_msgs retries a1 r); congruence.
Qed.
Lemma emit_mg s ch label b e msgs need : mg (emit s ch label b e msgs need) = mg s.
Proof. unfold emit. destruct label as [[lc ln] lsp]. repeat dm; reflexivity. Qed.

Lemma step_MgOK retries s l : MgOK s -> MgOK (step retries s l).
Proof.
  intros H. unfold step, MgOK. rewrite fire_mg. destruct l as [c|c pid pname th pd|c cname spch p answers|cs|c spchs|ns nt].
  - destruct (zmem _ _); [exact H|]. destruct (zlookup _ _); [exact H|]. destruct (pairing c) as [shards|]; [|exact H].
    apply settle_MgOK, fold_add_shard_MgOK. exact H.
  - assert (E : forall s', mg s' = mg s -> MInv (mg s') /\ same_avg_one (Manager.g_cm (mg s'))) by (intros s' ->; exact H).
    apply E. repeat dm; reflexivity.
  - destruct (hlookup s spch) as [h|]; [|exact H].
    assert (E : forall s', mg s' = mg s -> MInv (mg s') /\ same_avg_one (Manager.g_cm (mg s'))) by (intros s' ->; exact H). apply E.
    match goal with |- context [all_msgs retries ?a0 ?l] => pose proof (all_msgs_mg retries l a0) as Fr; destruct (all_msgs retries a0 l) as [s1|a] end.
    + cbn [mg a_st] in *. exact Fr.
    + cbn [a_st] in Fr. destruct (a_fwd a).
      * match goal with |- context [find ?f ?l] => destruct (find f l) end; [rewrite emit_mg|]; cbn [mg set_clock]; exact Fr.
      * rewrite emit_mg. cbn [mg]. exact Fr.
  - exact H.
  - exact H.
  - destruct (handlers s); [|exact H]. destruct (wsh s); [|exact H]. destruct (Manager.g_hs (mg s)); [|exact H].
    cbn [mg with_mg]. split; [apply init_inv|apply new_same_avg].
Qed.

Lemma init_MgOK : MgOK init.
Proof. split; [apply init_inv|apply new_same_avg]. Qed.

(* every history of the reader model *)
Lemma reader_mapping_every_history retries ls :
  let g := mg (run retries ls) in
  C16.Proofs.functional (Manager.g_cm g) /\ C16.Proofs.quota_ok (Manager.g_cm g)
  /\ (forall k, In k (map Manager.w_key (Manager.g_ws g)) -> ~ In k (map fst (C16.Model.tbl (Manager.g_cm g)))).
Proof.
  cbn zeta. assert (H : MgOK (run retries ls)).
  { unfold run. generalize init_MgOK. generalize init. induction ls as [|l r IH]; intros s0 H0; cbn [fold_left]; [exact H0|]. apply IH, step_MgOK, H0. }
  destruct H as [I _]. repeat split; [exact (mi_fun _ I)|exact (mi_quota _ I)|exact (mi_wk_disj _ I)].
Qed.
