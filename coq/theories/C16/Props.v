(* C16 — property theorems only. Each is closed by [exact] of a lemma of Proofs.v. *)
From Coq Require Import List String NArith.
From Verif Require Import Base.Util C16.Model C16.Proofs.
From Verif Require C16.Manager C16.ManagerProofs C16.MCheck Reader.Model C16.ReaderTie.
From Verif Require gen.Gen_average.
Import ListNotations.
Local Open Scope N_scope.

(* For all channel counts and all offer sequences (any prefix ofs1, any continuation ofs2):
   every key has one value, no value serves more than avg keys, avg is fixed, and an
   assignment present after ofs1 is still the same after ofs1 ++ ofs2. *)
Theorem C16_balanced_total_stable : forall s t ofs1 ofs2,
  let c1 := run s t ofs1 in let c2 := run s t (ofs1 ++ ofs2) in
  functional c2 /\ quota_ok c2 /\ avg c2 = avg (new s t)
  /\ (forall k v, alookup (tbl c1) k = Some v -> alookup (tbl c2) k = Some v).
Proof. exact balanced_total_stable. Qed.
Print Assumptions C16_balanced_total_stable.

(* avg is ceil(larger/smaller); 1 when the counts are equal *)
Theorem C16_quota_is_ceiling : forall s t, 0 < s -> 0 < t ->
  let a := avg (new s t) in
  N.max s t <= a * N.min s t /\ (a - 1) * N.min s t < N.max s t /\ (s = t -> a = 1).
Proof. exact quota_value. Qed.
Print Assumptions C16_quota_is_ceiling.

Theorem C16_equal_counts_one_to_one : forall n ofs v, count_val (tbl (run n n ofs)) v <= 1.
Proof. exact equal_counts_injective. Qed.
Print Assumptions C16_equal_counts_one_to_one.

(* the code's [average], as translated from /repo on this run, is the model's *)
Theorem C16_average_is_source : forall s t, Gen_average.average s t = Model.average s t.
Proof. exact average_gen_eq. Qed.
Print Assumptions C16_average_is_source.

(* ---- the manager path: startReadChannel / forwardChannel / waitChannel / forwardMsg (C16.Manager) ----
   For all channel counts and EVERY schedule of offers and goroutine steps (a forwardChannel goroutine takes the lock, a rendezvous
   on the forward channel, forwardMsg's non-blocking send, a waiting handler takes the lock; labels that are not enabled are
   skipped, so every label list is a schedule), at every instant (any prefix ls1, any continuation ls2): every key has one value,
   no value serves more than avg keys, an assignment once made stays, every assigned key has its handler and a waiting handler's
   key is not assigned.  (That a waiting handler is eventually served is a liveness statement about the Go scheduler and is not
   claimed.) *)
Theorem C16_manager_every_schedule : forall s t ls1 ls2,
  let g1 := Manager.run Manager.cfg_now s t ls1 in let g2 := Manager.run Manager.cfg_now s t (ls1 ++ ls2) in
  functional (Manager.g_cm g2) /\ quota_ok (Manager.g_cm g2) /\ avg (Manager.g_cm g2) = avg (new s t)
  /\ (forall k v, alookup (tbl (Manager.g_cm g1)) k = Some v -> alookup (tbl (Manager.g_cm g2)) k = Some v)
  /\ (forall k, In k (map fst (tbl (Manager.g_cm g2))) -> In k (map Manager.h_key (Manager.g_hs g2)))
  /\ (forall k, In k (map Manager.w_key (Manager.g_ws g2)) -> ~ In k (map fst (tbl (Manager.g_cm g2)))).
Proof. exact ManagerProofs.manager_now. Qed.
Print Assumptions C16_manager_every_schedule.

(* the reader model of C01-C04 carries the manager's state and drives it only through this protocol (offers at StartReadCollection,
   goroutine steps run to quiescence): in every reachable state of the reader model, for every history of collections started,
   partitions added, packs fed, stops and drops, the channel assignment is one value per key, within quota, and a waiting handler's
   key is unassigned *)
Theorem C16_reader_mapping_every_history : forall retries ls,
  let g := Verif.Reader.Model.mg (Verif.Reader.Model.run retries ls) in
  functional (Manager.g_cm g) /\ quota_ok (Manager.g_cm g)
  /\ (forall k, In k (map Manager.w_key (Manager.g_ws g)) -> ~ In k (map fst (tbl (Manager.g_cm g)))).
Proof. exact Verif.C16.ReaderTie.reader_mapping_every_history. Qed.
Print Assumptions C16_reader_mapping_every_history.

(* the three earlier variants of the code do not have the property: the schedules were found by the check and replayed against
   the real code before the repairs 58caa9f, 5bb7150 and d23be7c *)
Theorem C16_manager_promise_ignored_refuted :
  ManagerProofs.over_quota (Manager.run ManagerProofs.cfg_v1 3 6 ManagerProofs.sched_v1) "s0" = true.
Proof. exact ManagerProofs.v1_refuted. Qed.
Print Assumptions C16_manager_promise_ignored_refuted.
Theorem C16_manager_key_side_by_name_refuted :
  alookup (tbl (Manager.g_cm (Manager.run ManagerProofs.cfg_v2 2 4 ManagerProofs.sched_v2a))) "d0" = Some "d0"%string
  /\ alookup (tbl (Manager.g_cm (Manager.run ManagerProofs.cfg_v2 2 4 (ManagerProofs.sched_v2a ++ ManagerProofs.sched_v2b)))) "d0" = Some "d1"%string
  /\ ManagerProofs.over_quota (Manager.run ManagerProofs.cfg_v2 2 4 (ManagerProofs.sched_v2a ++ ManagerProofs.sched_v2b)) "d1" = true.
Proof. exact ManagerProofs.v2_refuted. Qed.
Print Assumptions C16_manager_key_side_by_name_refuted.
Theorem C16_manager_unguarded_waiter_refuted :
  ManagerProofs.over_quota (Manager.run ManagerProofs.cfg_v3 3 3 ManagerProofs.sched_v3) "t1" = true.
Proof. exact ManagerProofs.v3_refuted. Qed.
Print Assumptions C16_manager_unguarded_waiter_refuted.

(* non-vacuity of the manager theorem: a schedule in which a handler waits, is promised a channel and takes it *)
Example C16_manager_nonvacuous :
  let g := Manager.run Manager.cfg_now 3 3 ManagerProofs.sched_v3 in
  tbl (Manager.g_cm g) = [("s0", "t0"); ("s1", "t1")]%string /\ List.length (Manager.g_ws g) = 1%nat.
Proof. vm_compute. split; reflexivity. Qed.

(* non-vacuity: a run that fills a channel and then refuses a further key *)
Example C16_nonvacuous :
  let c := run 4 2 [("s1","t1");("s2","t1");("s3","t1");("s3","t2")]%string in
  check_key_exist c "s3" "t2" = true /\ check_key_exist c "s3" "t1" = false
  /\ count_val (tbl c) "t1"%string = 2.
Proof. vm_compute. repeat split. Qed.
