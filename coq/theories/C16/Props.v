(* C16 — property theorems only. Each is closed by [exact] of a lemma of Proofs.v. *)
From Coq Require Import List String NArith.
From Verif Require Import Base.Util C16.Model C16.Proofs.
From Verif Require gen.Gen_average.
Import ListNotations.
Local Open Scope N_scope.

(* For all channel counts and all offer sequences (any prefix ofs1, any continuation ofs2):
   every key has one value, no value serves more than avg keys, avg is fixed, and an
   assignment present after ofs1 is still the same after ofs1 ++ ofs2. *)
Theorem C16_balanced_total_stable : forall s t ofs1 ofs2,
  let c1 := run s t ofs1 in let c2 := run s t (ofs1 ++ ofs2) in
  functional c2 /\ quota_ok c2 /\ avg c2 = avg (new s t)
  /\ (forall k v, alookup (tbl c1) k = Some v -> alookup (tbl c2) k = Some v).
Proof. exact balanced_total_stable. Qed.
Print Assumptions C16_balanced_total_stable.

(* avg is ceil(larger/smaller); 1 when the counts are equal *)
Theorem C16_quota_is_ceiling : forall s t, 0 < s -> 0 < t ->
  let a := avg (new s t) in
  N.max s t <= a * N.min s t /\ (a - 1) * N.min s t < N.max s t /\ (s = t -> a = 1).
Proof. exact quota_value. Qed.
Print Assumptions C16_quota_is_ceiling.

Theorem C16_equal_counts_one_to_one : forall n ofs v, count_val (tbl (run n n ofs)) v <= 1.
Proof. exact equal_counts_injective. Qed.
Print Assumptions C16_equal_counts_one_to_one.

(* the code's [average], as translated from /repo on this run, is the model's *)
Theorem C16_average_is_source : forall s t, Gen_average.average s t = Model.average s t.
Proof. exact average_gen_eq. Qed.
Print Assumptions C16_average_is_source.

(* non-vacuity: a run that fills a channel and then refuses a further key *)
Example C16_nonvacuous :
  let c := run 4 2 [("s1","t1");("s2","t1");("s3","t1");("s3","t2")]%string in
  check_key_exist c "s3" "t2" = true /\ check_key_exist c "s3" "t1" = false
  /\ count_val (tbl c) "t1"%string = 2.
Proof. vm_compute. repeat split. Qed.
