(* C16 — executable model of core/util/channel_mapping.go (ChannelMapping) and of the
   manager's assignment discipline in replicateChannelManager.startReadChannel.
   No proofs in this file: it must keep running when a proof breaks. *)
From Coq Require Import List String NArith Bool.
From Verif Require Import Base.Util.
Import ListNotations.
Local Open Scope N_scope.

Inductive mode := Same | SrcKey | TgtKey.

Record cm := { avg : N; md : mode; tbl : list (string * string) }.

(* util.average, hand model (the generated twin is gen/Gen_average.v) *)
Definition average (s t : N) : N :=
  if s =? t then 1
  else if t <? s then (if s mod t =? 0 then s / t else s / t + 1)
  else (if t mod s =? 0 then t / s else t / s + 1).

(* NewChannelMapping *)
Definition new (s t : N) : cm :=
  let '(s, t) := if (s =? 0) || (t =? 0) then (0, 0) else (s, t) in
  {| avg := average s t;
     md := if s =? t then Same else if t <? s then SrcKey else TgtKey;
     tbl := [] |}.

(* GetMapKey / GetMapValue *)
Definition key (c : cm) (s t : string) := match md c with TgtKey => t | _ => s end.
Definition value (c : cm) (s t : string) := match md c with TgtKey => s | _ => t end.

Definition count_val (l : list (string * string)) (v : string) : N :=
  N.of_nat (List.length (filter (fun e => String.eqb (snd e) v) l)).

(* CheckKeyNotExist *)
Definition check_key_not_exist (c : cm) (s t : string) : bool :=
  match md c with
  | Same => negb (existsb (fun e => String.eqb (snd e) t) (tbl c))
  | _ => count_val (tbl c) (value c s t) <? avg c
  end.

(* AddKeyValue *)
Definition add (c : cm) (s t : string) : cm :=
  {| avg := avg c; md := md c; tbl := aupsert (tbl c) (key c s t) (value c s t) |}.

(* CheckKeyExist *)
Definition check_key_exist (c : cm) (s t : string) : bool :=
  match alookup (tbl c) (key c s t) with
  | Some v => negb (String.eqb v ""%string) && String.eqb v (value c s t)
  | None => false
  end.

(* startReadChannel's discipline: a (source, target) pair is assigned only when no handler
   exists for the key and the quota check passes; otherwise the mapping is left alone (the
   handler waits for a forwarded channel). *)
Definition offer (c : cm) (st : string * string) : cm :=
  let '(s, t) := st in
  match alookup (tbl c) (key c s t) with
  | Some _ => c
  | None => if check_key_not_exist c s t then add c s t else c
  end.

Inductive op := OOffer (s t : string) | OAdd (s t : string).

Definition step (c : cm) (o : op) : cm :=
  match o with
  | OOffer s t => offer c (s, t)
  | OAdd s t => add c s t
  end.

Definition run (s t : N) (ofs : list (string * string)) : cm := fold_left offer ofs (new s t).

(* ---- observation: after every op the harness asks CheckKeyExist / CheckKeyNotExist for the
   whole (source x target) name grid ---- *)
Definition grid := list (list (bool * bool)).

Definition observe (c : cm) (srcs tgts : list string) : grid :=
  map (fun s => map (fun t => (check_key_exist c s t, check_key_not_exist c s t)) tgts) srcs.

Fixpoint run_obs (c : cm) (srcs tgts : list string) (ops : list op) : list grid :=
  match ops with
  | [] => []
  | o :: r => let c' := step c o in observe c' srcs tgts :: run_obs c' srcs tgts r
  end.

Record case := { c_s : N; c_t : N; c_srcs : list string; c_tgts : list string;
                 c_ops : list op; c_obs : list grid }.

Definition bb_eqb (a b : bool * bool) := Bool.eqb (fst a) (fst b) && Bool.eqb (snd a) (snd b).
Definition grid_eqb : grid -> grid -> bool := list_eqb (list_eqb bb_eqb).

Definition agrees (c : case) : bool :=
  list_eqb grid_eqb (run_obs (new (c_s c) (c_t c)) (c_srcs c) (c_tgts c) (c_ops c)) (c_obs c).

(* ---- the property, as a checker over *observed* grids (used on implementation traces) ---- *)
Definition exist_grid (g : grid) : list (list bool) := map (map fst) g.

Definition count_true (l : list bool) : N := N.of_nat (List.length (filter (fun b => b) l)).

Definition column {A} (d : A) (j : nat) (g : list (list A)) : list A := map (fun r => nth j r d) g.

Fixpoint transpose_aux (n : nat) (j : nat) (g : list (list bool)) : list (list bool) :=
  match n with
  | O => []
  | S n' => column false j g :: transpose_aux n' (S j) g
  end.
Definition transpose (ncols : nat) (g : list (list bool)) := transpose_aux ncols 0 g.

(* rows = keys, columns = values *)
Definition oriented (m : mode) (ncols : nat) (g : list (list bool)) : list (list bool) :=
  match m with TgtKey => transpose ncols g | _ => g end.

Definition grid_ok (a : N) (nvals : nat) (g : list (list bool)) : bool :=
  forallb (fun r => count_true r <=? 1) g
  && forallb (fun col => count_true col <=? a) (transpose nvals g).

Definition mono_row (r1 r2 : list bool) : bool :=
  list_eqb (fun x y => implb x y) r1 r2.
Definition grid_mono (g1 g2 : list (list bool)) : bool := list_eqb mono_row g1 g2.

Fixpoint all_mono (gs : list (list (list bool))) : bool :=
  match gs with
  | g1 :: ((g2 :: _) as r) => grid_mono g1 g2 && all_mono r
  | _ => true
  end.

Definition only_offers (ops : list op) : bool :=
  forallb (fun o => match o with OOffer _ _ => true | _ => false end) ops.

(* check_C16: on a history made of offers only, every observed assignment relation is
   functional (a key has at most one value), within quota, and monotone. *)
Definition check_C16 (c : case) : bool :=
  if only_offers (c_ops c) then
    let c0 := new (c_s c) (c_t c) in
    let nk := match md c0 with TgtKey => List.length (c_srcs c) | _ => List.length (c_tgts c) end in
    let gs := map (fun g => oriented (md c0) (List.length (c_tgts c)) (exist_grid g)) (c_obs c) in
    forallb (grid_ok (avg c0) nk) gs && all_mono gs
  else true.

Definition mismatches (l : list (N * case)) : list N := failing_ids agrees l.
Definition checkfails (l : list (N * case)) : list N := failing_ids check_C16 l.
Definition knownclass (l : list (N * case)) : list (N * N) := [].
