(* C16, manager path - executable model of the channel manager's assignment protocol in
   core/reader/replicate_channel_manager.go: startReadChannel (direct assignment or a waiting handler),
   forwardChannel (a goroutine that reserves a place and then blocks on the send), waitChannel (a goroutine that
   receives a forwarded channel, takes the manager lock and assigns it) and forwardMsg (a non-blocking send of a
   channel nobody serves yet).  Every goroutine step that the Go scheduler orders is a label: the theorems quantify
   over all label lists.  No proofs in this file. *)
From Coq Require Import List String NArith Bool Arith.
From Verif Require Import Base.Util C16.Model.
Import ListNotations.
Local Open Scope N_scope.

(* the code as it is, and the three earlier variants that the check replayed against the real code
   (kept so that their refutations stay machine-checked; the current code is [cfg_now]) *)
Record cfg := {
  guard_waiter : bool;          (* waitChannel re-checks the quota under the lock before AddKeyValue *)
  direct_counts_promise : bool; (* startReadChannel treats a promised place (channelForwardMap) as taken *)
  waiter_counts_again : bool;   (* waitChannel increments channelForwardMap a second time *)
  skey_by_name : bool           (* handler.sourceKey := (mapping key == source channel name) instead of UsingSourceKey() *)
}.
Definition cfg_now := {| guard_waiter := true; direct_counts_promise := true; waiter_counts_again := false; skey_by_name := false |}.

Record handler := { h_key : string; h_src : string; h_tgt : string; h_skey : bool }.
Record waiter := { w_key : string; w_recv : option string }.

Record mgr := {
  g_cm : cm;                       (* r.channelMapping *)
  g_fwd : list (string * N);       (* r.channelForwardMap *)
  g_hs : list handler;             (* r.channelHandlerMap (assigned and waiting handlers) *)
  g_ws : list waiter;              (* waitChannel goroutines; w_recv = Some x between the receive and the lock *)
  g_fgo : list string;             (* forwardChannel goroutines that have not taken the lock yet *)
  g_pend : list string             (* forwardChannel goroutines blocked on the send *)
}.

Definition init (s t : N) : mgr := {| g_cm := new s t; g_fwd := []; g_hs := []; g_ws := []; g_fgo := []; g_pend := [] |}.

Definition using_source_key (c : cm) : bool := match md c with TgtKey => false | _ => true end.
Definition fwd_of (g : mgr) (v : string) : N := match alookup (g_fwd g) v with Some n => n | None => 0 end.
Definition fwd_incr (g : mgr) (v : string) : list (string * N) := aupsert (g_fwd g) v (fwd_of g v + 1).
Definition has_handler (g : mgr) (k : string) : bool := existsb (fun h => String.eqb (h_key h) k) (g_hs g).
Definition find_handler (g : mgr) (k : string) : option handler := find (fun h => String.eqb (h_key h) k) (g_hs g).
(* the side of a handler that forwardMsg compares with the wanted channel *)
Definition valside (c : cm) (h : handler) : string := if using_source_key c then h_tgt h else h_src h.

Fixpoint remove_nth {A} (n : nat) (l : list A) : list A :=
  match n, l with
  | _, [] => []
  | O, _ :: r => r
  | S n', x :: r => x :: remove_nth n' r
  end.
Fixpoint set_nth {A} (n : nat) (y : A) (l : list A) : list A :=
  match n, l with
  | _, [] => []
  | O, _ :: r => y :: r
  | S n', x :: r => x :: set_nth n' y r
  end.

Inductive lbl :=
| LOffer (s t : string)        (* startReadChannel(source pchannel, target pchannel), whole function under channelLock *)
| LFwdLock (i : nat)           (* the i-th fresh forwardChannel goroutine takes the lock: reserve or give up *)
| LRecv (i j : nat)            (* rendezvous on forwardReplicateChannel: blocked sender i, idle waiter j *)
| LMsgFwd (x : string) (j : nat) (* forwardMsg(x): nobody serves x, the non-blocking send reaches idle waiter j *)
| LWaitLock (j : nat).         (* waiter j, holding a received channel, takes the lock *)

Definition offer_step (f : cfg) (g : mgr) (s t : string) : mgr :=
  let c := g_cm g in
  let k := key c s t in let v := value c s t in
  if has_handler g k then
    if check_key_exist c s t then g
    else {| g_cm := c; g_fwd := g_fwd g; g_hs := g_hs g; g_ws := g_ws g; g_fgo := g_fgo g ++ [v]; g_pend := g_pend g |}
  else
    let h := {| h_key := k; h_src := s; h_tgt := t; h_skey := if skey_by_name f then String.eqb k s else using_source_key c |} in
    let diff := check_key_not_exist c s t && (if direct_counts_promise f then fwd_of g v <? avg c else true) in
    if diff then {| g_cm := add c s t; g_fwd := fwd_incr g v; g_hs := g_hs g ++ [h]; g_ws := g_ws g; g_fgo := g_fgo g; g_pend := g_pend g |}
    else {| g_cm := c; g_fwd := g_fwd g; g_hs := g_hs g ++ [h]; g_ws := g_ws g ++ [{| w_key := k; w_recv := None |}]; g_fgo := g_fgo g; g_pend := g_pend g |}.

Definition fwdlock_step (g : mgr) (i : nat) : option mgr :=
  match nth_error (g_fgo g) i with
  | None => None
  | Some x =>
    if fwd_of g x <? avg (g_cm g)
    then Some {| g_cm := g_cm g; g_fwd := fwd_incr g x; g_hs := g_hs g; g_ws := g_ws g; g_fgo := remove_nth i (g_fgo g); g_pend := g_pend g ++ [x] |}
    else Some {| g_cm := g_cm g; g_fwd := g_fwd g; g_hs := g_hs g; g_ws := g_ws g; g_fgo := remove_nth i (g_fgo g); g_pend := g_pend g |}
  end.

Definition give (g : mgr) (j : nat) (x : string) (pend' : list string) : option mgr :=
  match nth_error (g_ws g) j with
  | Some {| w_key := k; w_recv := None |} =>
    Some {| g_cm := g_cm g; g_fwd := g_fwd g; g_hs := g_hs g; g_ws := set_nth j {| w_key := k; w_recv := Some x |} (g_ws g); g_fgo := g_fgo g; g_pend := pend' |}
  | _ => None
  end.

Definition recv_step (g : mgr) (i j : nat) : option mgr :=
  match nth_error (g_pend g) i with
  | None => None
  | Some x => give g j x (remove_nth i (g_pend g))
  end.

Definition msgfwd_step (g : mgr) (x : string) (j : nat) : option mgr :=
  if existsb (fun h => String.eqb (valside (g_cm g) h) x) (g_hs g) then None else give g j x (g_pend g).

Definition waitlock_step (f : cfg) (g : mgr) (j : nat) : option mgr :=
  match nth_error (g_ws g) j with
  | Some {| w_key := k; w_recv := Some x |} =>
    match find_handler g k with
    | None => None
    | Some h =>
      let c := g_cm g in
      let s' := if h_skey h then h_src h else x in
      let t' := if h_skey h then x else h_tgt h in
      let back := Some {| g_cm := c; g_fwd := g_fwd g; g_hs := g_hs g; g_ws := set_nth j {| w_key := k; w_recv := None |} (g_ws g); g_fgo := g_fgo g; g_pend := g_pend g |} in
      if check_key_exist c s' t' then back
      else if guard_waiter f && negb (check_key_not_exist c s' t') then back
      else
        let h' := {| h_key := k; h_src := s'; h_tgt := t'; h_skey := h_skey h |} in
        Some {| g_cm := add c s' t';
                g_fwd := if waiter_counts_again f then fwd_incr g x else g_fwd g;
                g_hs := map (fun h0 => if String.eqb (h_key h0) k then h' else h0) (g_hs g);
                g_ws := remove_nth j (g_ws g); g_fgo := g_fgo g; g_pend := g_pend g |}
    end
  | _ => None
  end.

Definition step (f : cfg) (g : mgr) (l : lbl) : option mgr :=
  match l with
  | LOffer s t => Some (offer_step f g s t)
  | LFwdLock i => fwdlock_step g i
  | LRecv i j => recv_step g i j
  | LMsgFwd x j => msgfwd_step g x j
  | LWaitLock j => waitlock_step f g j
  end.

(* a label that is not enabled leaves the state alone: every label list is a schedule *)
Definition step' (f : cfg) (g : mgr) (l : lbl) : mgr := match step f g l with Some g' => g' | None => g end.
Definition run (f : cfg) (s t : N) (ls : list lbl) : mgr := fold_left (step' f) ls (init s t).

(* ------------------------------------------------------------------ acceptance of observed assignments
   The harness offers pairs to the real manager (and, in scripted cases, calls forwardMsg), and reads the assignment
   after each event; which goroutine ran in between is not observed.  [accept] follows the set of model states that
   are reachable under some schedule of the internal steps and agree with every observation so far. *)
Inductive event := EOffer (s t : string) | EMsgFwd (x : string).

Definition idx {A} (l : list A) : list nat := seq 0 (List.length l).

Definition taus (f : cfg) (g : mgr) : list mgr :=
  let opt (o : option mgr) := match o with Some x => [x] | None => [] end in
  flat_map (fun i => opt (fwdlock_step g i)) (idx (g_fgo g))
  ++ flat_map (fun i => flat_map (fun j => opt (recv_step g i j)) (idx (g_ws g))) (idx (g_pend g))
  ++ flat_map (fun j => opt (waitlock_step f g j)) (idx (g_ws g)).

Definition sn_eqb (a b : string * N) := String.eqb (fst a) (fst b) && N.eqb (snd a) (snd b).
Definition ss_eqb (a b : string * string) := String.eqb (fst a) (fst b) && String.eqb (snd a) (snd b).
Definition handler_eqb (a b : handler) :=
  String.eqb (h_key a) (h_key b) && String.eqb (h_src a) (h_src b) && String.eqb (h_tgt a) (h_tgt b) && Bool.eqb (h_skey a) (h_skey b).
Definition waiter_eqb (a b : waiter) := String.eqb (w_key a) (w_key b) && option_eqb String.eqb (w_recv a) (w_recv b).
Definition mgr_eqb (a b : mgr) : bool :=
  list_eqb ss_eqb (tbl (g_cm a)) (tbl (g_cm b)) && list_eqb sn_eqb (g_fwd a) (g_fwd b) && list_eqb handler_eqb (g_hs a) (g_hs b)
  && list_eqb waiter_eqb (g_ws a) (g_ws b) && list_eqb String.eqb (g_fgo a) (g_fgo b) && list_eqb String.eqb (g_pend a) (g_pend b).

(* the order inside the goroutine lists, the handler list and the maps is not observable (steps pick any element): states are
   compared, and kept, in a canonical order, so that the k! orders in which k goroutines may have been started are one state *)
Fixpoint ins_by {A} (key : A -> string) (x : A) (l : list A) : list A :=
  match l with [] => [x] | y :: r => if String.leb (key x) (key y) then x :: y :: r else y :: ins_by key x r end.
Definition sort_by {A} (key : A -> string) (l : list A) : list A := fold_right (ins_by key) [] l.
Definition canon (g : mgr) : mgr :=
  {| g_cm := {| avg := avg (g_cm g); md := md (g_cm g); tbl := sort_by fst (tbl (g_cm g)) |};
     g_fwd := sort_by fst (g_fwd g); g_hs := sort_by h_key (g_hs g); g_ws := sort_by w_key (g_ws g);
     g_fgo := sort_by (fun x => x) (g_fgo g); g_pend := sort_by (fun x => x) (g_pend g) |}.

Fixpoint add_new (seen : list mgr) (l : list mgr) : list mgr * list mgr :=  (* (seen', the new ones) *)
  match l with
  | [] => (seen, [])
  | g0 :: r => let g := canon g0 in
               if existsb (mgr_eqb g) seen then add_new seen r
               else let '(s', n') := add_new (g :: seen) r in (s', g :: n')
  end.

Fixpoint closure_aux (f : cfg) (fuel : nat) (seen frontier : list mgr) : list mgr :=
  match fuel with
  | O => seen
  | S fuel' =>
    match frontier with
    | [] => seen
    | _ => let '(seen', fresh) := add_new seen (flat_map (taus f) frontier) in closure_aux f fuel' seen' fresh
    end
  end.
Definition closure (f : cfg) (fuel : nat) (S : list mgr) : list mgr :=
  let '(seen, fresh) := add_new [] S in closure_aux f fuel seen fresh.

(* the assignment as (source, target) pairs *)
Definition pairs_of (g : mgr) : list (string * string) :=
  map (fun e => match md (g_cm g) with TgtKey => (snd e, fst e) | _ => e end) (tbl (g_cm g)).
Definition subset_ss (a b : list (string * string)) : bool := forallb (fun p => existsb (ss_eqb p) b) a.
Definition same_pairs (a b : list (string * string)) : bool := subset_ss a b && subset_ss b a.

Definition apply_event (f : cfg) (e : event) (g : mgr) : list mgr :=
  match e with
  | EOffer s t => [offer_step f g s t]
  | EMsgFwd x =>  (* the send reaches one of the idle waiters, or nobody *)
    g :: flat_map (fun j => match msgfwd_step g x j with Some g' => [g'] | None => [] end) (idx (g_ws g))
  end.

Fixpoint accept (f : cfg) (fuel : nat) (S : list mgr) (evs : list event) (obs : list (list (string * string))) : bool :=
  match evs, obs with
  | [], [] => true
  | [], o :: _ => negb (match filter (fun g => same_pairs (pairs_of g) o) (closure f fuel S) with [] => true | _ => false end)
  | e :: evs', o :: obs' =>
    let S' := filter (fun g => same_pairs (pairs_of g) o) (closure f fuel (flat_map (apply_event f e) (closure f fuel S))) in
    match S' with [] => false | _ => accept f fuel S' evs' obs' end
  | _ :: _, [] => false
  end.
