(* C16 — proofs about the model in Model.v *)
From Coq Require Import List String NArith ZArith Bool Lia ZifyN ZifyBool.
From Verif Require Import Base.Util C16.Model.
From Verif Require gen.Gen_average.
Import ListNotations.
Local Open Scope N_scope.
Ltac Zify.zify_post_hook ::= Z.div_mod_to_equations.

(* tie to the source: the function translated from core/util/channel_mapping.go on this run
   is extensionally the hand model used by every theorem below *)
Lemma average_gen_eq s t : Gen_average.average s t = Model.average s t.
Proof.
  unfold Gen_average.average, Model.average.
  destruct (s =? t); [reflexivity|]. destruct (t <? s).
  - destruct (s mod t =? 0); reflexivity.
  - destruct (t mod s =? 0); reflexivity.
Qed.

(* average is ceil(larger / smaller) *)
Lemma ceil_spec big small : 0 < small -> small < big ->
  let a := if big mod small =? 0 then big / small else big / small + 1 in
  big <= a * small /\ (a - 1) * small < big.
Proof.
  intros Hs Hb. cbn zeta.
  pose proof (N.div_mod big small ltac:(lia)) as Hdm.
  pose proof (N.mod_lt big small ltac:(lia)) as Hlt.
  set (q := big / small) in *. set (r := big mod small) in *.
  assert (Hq : 1 <= q).
  { destruct (N.eq_dec q 0) as [E|]; [|lia]. rewrite E in Hdm. lia. }
  destruct (r =? 0) eqn:E.
  - apply N.eqb_eq in E. rewrite N.mul_sub_distr_r. lia.
  - apply N.eqb_neq in E. replace (q + 1 - 1) with q by lia. lia.
Qed.

Lemma average_ceil s t : 0 < s -> 0 < t ->
  let a := average s t in
  let big := N.max s t in let small := N.min s t in
  big <= a * small /\ (a - 1) * small < big.
Proof.
  intros Hs Ht. unfold average. cbn zeta.
  destruct (s =? t) eqn:E1.
  - apply N.eqb_eq in E1. subst. rewrite N.max_id, N.min_id. lia.
  - apply N.eqb_neq in E1. destruct (t <? s) eqn:E2.
    + apply N.ltb_lt in E2. rewrite N.max_l, N.min_r by lia. apply ceil_spec; lia.
    + apply N.ltb_ge in E2. rewrite N.max_r, N.min_l by lia. apply ceil_spec; lia.
Qed.

Definition quota_ok (c : cm) : Prop := forall v, count_val (tbl c) v <= avg c.
Definition functional (c : cm) : Prop := NoDup (map fst (tbl c)).

Lemma lookup_none_notin {A} (l : list (string * A)) k : alookup l k = None -> ~ In k (map fst l).
Proof.
  induction l as [|[k' v] r IH]; cbn; [tauto|]. destruct (String.eqb_spec k k'); [discriminate|].
  intros H [E|I]; [congruence|]. exact (IH H I).
Qed.

Lemma upsert_fresh {A} (l : list (string * A)) k v : alookup l k = None -> aupsert l k v = l ++ [(k, v)].
Proof.
  induction l as [|[k' v'] r IH]; cbn; [reflexivity|]. destruct (String.eqb_spec k k'); [discriminate|].
  intros H. now rewrite IH.
Qed.

Lemma count_app l1 l2 v : count_val (l1 ++ l2) v = count_val l1 v + count_val l2 v.
Proof. unfold count_val. rewrite filter_app, List.app_length. lia. Qed.

Lemma existsb_count l t : existsb (fun e => String.eqb (snd e) t) l = false -> count_val l t = 0.
Proof.
  unfold count_val. induction l as [|e r IH]; cbn; [reflexivity|].
  destruct (String.eqb (snd e) t); cbn; [discriminate|]. exact IH.
Qed.

Lemma avg_pos s t : (s = 0 /\ t = 0) \/ (0 < s /\ 0 < t) -> 1 <= average s t.
Proof.
  intros H. unfold average. destruct (s =? t) eqn:E1; [lia|].
  destruct (t <? s) eqn:E2; [destruct (s mod t =? 0) eqn:E3 | destruct (t mod s =? 0) eqn:E3]; lia.
Qed.

Lemma NoDup_snoc {A} (l : list A) x : NoDup l -> ~ In x l -> NoDup (l ++ [x]).
Proof.
  induction l as [|y r IH]; cbn; intros Hn Hx; [repeat constructor; auto|].
  inversion Hn; subst. constructor.
  - rewrite in_app_iff; cbn. intros [I|[E|[]]]; [tauto|]. apply Hx; left; congruence.
  - apply IH; auto.
Qed.

Lemma offer_inv c st : 1 <= avg c -> functional c -> quota_ok c ->
  functional (offer c st) /\ quota_ok (offer c st) /\ avg (offer c st) = avg c /\ md (offer c st) = md c
  /\ (forall k v, alookup (tbl c) k = Some v -> alookup (tbl (offer c st)) k = Some v).
Proof.
  intros Hav Hf Hq. destruct st as [s t]. unfold offer.
  destruct (alookup (tbl c) (key c s t)) eqn:Hl; [repeat split; auto|].
  destruct (check_key_not_exist c s t) eqn:Hc; [|repeat split; auto].
  unfold add; cbn. rewrite (upsert_fresh _ _ _ Hl). repeat split; auto.
  - unfold functional; cbn. rewrite map_app; cbn.
    apply NoDup_snoc; [exact Hf|]. apply lookup_none_notin; exact Hl.
  - intros v. cbn. rewrite count_app. specialize (Hq v). unfold count_val at 2; cbn.
    destruct (String.eqb_spec (value c s t) v) as [<-|]; cbn; [|lia].
    unfold check_key_not_exist in Hc. destruct (md c) eqn:Hm.
    + apply negb_true_iff in Hc. unfold value in *. rewrite Hm in *. rewrite (existsb_count _ _ Hc). lia.
    + apply N.ltb_lt in Hc. lia.
    + apply N.ltb_lt in Hc. lia.
  - intros k v Hk. clear -Hk. induction (tbl c) as [|[k' v'] r IH]; cbn in *; [discriminate|].
    destruct (String.eqb k k'); auto.
Qed.

Lemma offers_inv ofs : forall c0, 1 <= avg c0 -> functional c0 -> quota_ok c0 ->
  functional (fold_left offer ofs c0) /\ quota_ok (fold_left offer ofs c0)
  /\ avg (fold_left offer ofs c0) = avg c0 /\ md (fold_left offer ofs c0) = md c0
  /\ (forall k v, alookup (tbl c0) k = Some v -> alookup (tbl (fold_left offer ofs c0)) k = Some v).
Proof.
  induction ofs as [|o r IH]; intros c0 Ha Hf Hq; cbn; [auto|].
  destruct (offer_inv c0 o Ha Hf Hq) as (Hf' & Hq' & Ha' & Hm' & Hst).
  destruct (IH (offer c0 o)) as (F & Q & A & M & S); auto; [lia|].
  repeat split; auto; try congruence; try (intros k v Hk; apply S, Hst, Hk).
Qed.

Lemma new_inv s t : 1 <= avg (new s t) /\ functional (new s t) /\ quota_ok (new s t).
Proof.
  unfold new, functional, quota_ok, count_val.
  destruct ((s =? 0) || (t =? 0)) eqn:Ez; cbn.
  - pose proof (avg_pos 0 0). repeat split; try lia; try constructor; intros; cbn; lia.
  - pose proof (avg_pos s t). repeat split; try lia; try constructor; intros; cbn; lia.
Qed.

(* every reachable state: one value per key, quota respected, and assignments are stable *)
Lemma balanced_total_stable s t ofs1 ofs2 :
  let c1 := run s t ofs1 in let c2 := run s t (ofs1 ++ ofs2) in
  functional c2 /\ quota_ok c2 /\ avg c2 = avg (new s t)
  /\ (forall k v, alookup (tbl c1) k = Some v -> alookup (tbl c2) k = Some v).
Proof.
  cbn. unfold run. rewrite fold_left_app.
  destruct (new_inv s t) as (A0 & F0 & Q0).
  destruct (offers_inv ofs1 _ A0 F0 Q0) as (F1 & Q1 & A1 & M1 & _).
  destruct (offers_inv ofs2 (fold_left offer ofs1 (new s t))) as (F2 & Q2 & A2 & M2 & S2); auto; [lia|].
  repeat split; auto. congruence.
Qed.

(* the quota is the ceiling of larger/smaller, and 1 for equal counts *)
Lemma quota_value s t : 0 < s -> 0 < t ->
  let a := avg (new s t) in
  N.max s t <= a * N.min s t /\ (a - 1) * N.min s t < N.max s t /\ (s = t -> a = 1).
Proof.
  intros Hs Ht. unfold new.
  destruct ((s =? 0) || (t =? 0)) eqn:Ez; [lia|]. cbn.
  pose proof (average_ceil s t Hs Ht) as [H1 H2]. repeat split; auto.
  intros ->. unfold average. rewrite N.eqb_refl. reflexivity.
Qed.

(* equal counts: the assignment is one-to-one (no two keys share a value) *)
Lemma avg_new_same n : avg (new n n) = 1.
Proof.
  unfold new. destruct ((n =? 0) || (n =? 0)); cbn; unfold average; rewrite ?N.eqb_refl; reflexivity.
Qed.

Lemma equal_counts_injective n ofs v :
  count_val (tbl (run n n ofs)) v <= 1.
Proof.
  destruct (balanced_total_stable n n [] ofs) as (_ & Q & A & _). cbn in *.
  specialize (Q v). rewrite A, avg_new_same in Q. exact Q.
Qed.

(* check_key_exist reads the table *)
Lemma check_key_exist_spec c s t :
  check_key_exist c s t = true -> alookup (tbl c) (key c s t) = Some (value c s t).
Proof.
  unfold check_key_exist. destruct (alookup (tbl c) (key c s t)) as [v|]; [|discriminate].
  rewrite andb_true_iff. intros [_ H]. apply String.eqb_eq in H. congruence.
Qed.
