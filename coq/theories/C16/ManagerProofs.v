(* C16, manager path - the assignment invariant over every schedule of the manager protocol (C16.Manager) *)
From Coq Require Import List String NArith ZArith Bool Arith Lia ZifyN ZifyBool.
From Verif Require Import Base.Util C16.Model C16.Proofs C16.Manager.
Import ListNotations.
Local Open Scope N_scope.

Definition keys_of (g : mgr) : list string := map fst (tbl (g_cm g)).
Definition hkeys (g : mgr) : list string := map h_key (g_hs g).
Definition wkeys (g : mgr) : list string := map w_key (g_ws g).

Record MInv (g : mgr) : Prop := {
  mi_avg : 1 <= avg (g_cm g);
  mi_fun : functional (g_cm g);
  mi_quota : quota_ok (g_cm g);
  mi_keys_h : forall k, In k (keys_of g) -> In k (hkeys g);        (* an assigned key has a handler *)
  mi_wk_h : forall k, In k (wkeys g) -> In k (hkeys g);            (* so has a waiting one *)
  mi_wk_nodup : NoDup (wkeys g);                                   (* one waiter per key *)
  mi_wk_disj : forall k, In k (wkeys g) -> ~ In k (keys_of g);     (* a waiting key is not assigned *)
  mi_hk_nodup : NoDup (hkeys g);
  mi_h_ok : forall h, In h (g_hs g) -> key (g_cm g) (h_src h) (h_tgt h) = h_key h /\ h_skey h = using_source_key (g_cm g)
}.

(* ---- list helpers ---- *)
Lemma notin_lookup_none {A} (l : list (string * A)) k : ~ In k (map fst l) -> alookup l k = None.
Proof.
  induction l as [|[k' v] r IH]; cbn; [reflexivity|]. intros H. destruct (String.eqb_spec k k') as [->|N]; [exfalso; apply H; left; reflexivity|].
  apply IH. intros I. apply H. right. exact I.
Qed.

Lemma alookup_app_l {A} (l r : list (string * A)) k v : alookup l k = Some v -> alookup (l ++ r) k = Some v.
Proof. induction l as [|[k' v'] l IH]; cbn; [discriminate|]. destruct (String.eqb k k'); auto. Qed.

Lemma map_set_nth_same {A B} (f : A -> B) (l : list A) j x y : nth_error l j = Some x -> f y = f x -> map f (set_nth j y l) = map f l.
Proof.
  revert j. induction l as [|a l IH]; intros [|j]; cbn; try discriminate.
  - intros E Hf. injection E as ->. now rewrite Hf.
  - intros E Hf. now rewrite (IH j E Hf).
Qed.

Lemma map_remove_nth {A B} (f : A -> B) (l : list A) j : map f (remove_nth j l) = remove_nth j (map f l).
Proof. revert j. induction l as [|a l IH]; intros [|j]; cbn; try reflexivity. now rewrite IH. Qed.

Lemma in_remove_nth {A} (l : list A) j x : In x (remove_nth j l) -> In x l.
Proof. revert j. induction l as [|a l IH]; intros [|j]; cbn; auto. intros [E|I]; [left; exact E|right; exact (IH j I)]. Qed.

Lemma nodup_remove_nth {A} (l : list A) j : NoDup l -> NoDup (remove_nth j l).
Proof.
  revert j. induction l as [|a l IH]; intros [|j] H; cbn; auto; inversion H; subst; auto.
  constructor; [|apply IH; assumption]. intros I. apply in_remove_nth in I. contradiction.
Qed.

Lemma nodup_remove_nth_notin {A} (l : list A) j x : NoDup l -> nth_error l j = Some x -> ~ In x (remove_nth j l).
Proof.
  revert j. induction l as [|a l IH]; intros [|j] H E; cbn in *; try discriminate.
  - injection E as ->. inversion H; assumption.
  - inversion H; subst. intros [->|I]; [apply nth_error_In in E; contradiction|]. exact (IH j H3 E I).
Qed.

Lemma find_handler_spec g k h : find_handler g k = Some h -> In h (g_hs g) /\ h_key h = k.
Proof. unfold find_handler. intros H. apply find_some in H. destruct H as [I E]. split; [exact I|]. now apply String.eqb_eq. Qed.

Lemma has_handler_false g k : has_handler g k = false -> ~ In k (hkeys g).
Proof.
  unfold has_handler, hkeys. intros H I. apply in_map_iff in I. destruct I as [h [E I]].
  assert (X : existsb (fun h => String.eqb (h_key h) k) (g_hs g) = true) by (apply existsb_exists; exists h; split; [exact I|subst; apply String.eqb_refl]).
  congruence.
Qed.

Lemma map_replace_key (hs : list handler) k h' : h_key h' = k ->
  map h_key (map (fun h0 => if String.eqb (h_key h0) k then h' else h0) hs) = map h_key hs.
Proof.
  intros E. induction hs as [|h hs IH]; cbn; [reflexivity|]. rewrite IH. f_equal.
  destruct (String.eqb_spec (h_key h) k) as [->|N]; [exact E|reflexivity].
Qed.

(* the quota test, in every mode, says that one more key fits *)
Lemma cknx_room c s t : 1 <= avg c -> (md c = Same -> avg c = 1) -> check_key_not_exist c s t = true -> count_val (tbl c) (value c s t) < avg c.
Proof.
  intros Ha Hs H. unfold check_key_not_exist in H. destruct (md c) eqn:Hm.
  - apply negb_true_iff in H. unfold value. rewrite Hm. rewrite (existsb_count _ _ H). lia.
  - apply N.ltb_lt in H. exact H.
  - apply N.ltb_lt in H. exact H.
Qed.

(* adding a fresh key within the quota keeps the mapping functional and within quota *)
Lemma add_fresh c s t : functional c -> quota_ok c -> ~ In (key c s t) (map fst (tbl c)) -> count_val (tbl c) (value c s t) < avg c ->
  tbl (add c s t) = (tbl c ++ [(key c s t, value c s t)])%list /\ functional (add c s t) /\ quota_ok (add c s t).
Proof.
  intros Hf Hq Hn Hc. assert (L : alookup (tbl c) (key c s t) = None) by (apply notin_lookup_none; exact Hn).
  unfold add; cbn [tbl avg md]. rewrite (upsert_fresh _ _ _ L). split; [reflexivity|]. split.
  - unfold functional; cbn [tbl]. rewrite map_app; cbn. apply NoDup_snoc; [exact Hf|exact Hn].
  - intros v. cbn [tbl avg]. rewrite count_app. specialize (Hq v). unfold count_val at 2; cbn.
    destruct (String.eqb_spec (value c s t) v) as [<-|]; cbn; lia.
Qed.

Definition same_avg_one (c : cm) : Prop := md c = Same -> avg c = 1.

Lemma new_same_avg s t : same_avg_one (new s t).
Proof.
  unfold same_avg_one, new. destruct ((s =? 0) || (t =? 0)) eqn:Z0; cbn [md avg].
  - intros _. reflexivity.
  - destruct (s =? t) eqn:E; [intros _; unfold average; rewrite E; reflexivity|]. destruct (t <? s); discriminate.
Qed.

(* ---- the invariant is kept by every step of a configuration whose waiting handlers re-check the quota and know their key side ---- *)
Section Steps.
Variable f : cfg.
Hypothesis Hguard : guard_waiter f = true.
Hypothesis Hskey : skey_by_name f = false.

Definition ext (g g' : mgr) : Prop :=
  avg (g_cm g') = avg (g_cm g) /\ md (g_cm g') = md (g_cm g)
  /\ forall k v, alookup (tbl (g_cm g)) k = Some v -> alookup (tbl (g_cm g')) k = Some v.

Lemma ext_cm g g' : g_cm g' = g_cm g -> ext g g'. Proof. intros E. unfold ext. rewrite E. repeat split; auto. Qed.
Lemma ext_refl g : ext g g. Proof. apply ext_cm. reflexivity. Qed.

Lemma key_md c c' s t : md c' = md c -> key c' s t = key c s t.
Proof. intros E. unfold key. now rewrite E. Qed.
Lemma usk_md c c' : md c' = md c -> using_source_key c' = using_source_key c.
Proof. intros E. unfold using_source_key. now rewrite E. Qed.

Lemma offer_keeps g s t : MInv g -> same_avg_one (g_cm g) -> MInv (offer_step f g s t) /\ ext g (offer_step f g s t).
Proof.
  intros I S1. unfold offer_step. destruct (has_handler g (key (g_cm g) s t)) eqn:HH.
  - destruct (check_key_exist (g_cm g) s t); [split; [exact I|apply ext_cm; reflexivity]|].
    split; [|apply ext_cm; reflexivity]. destruct I. constructor; auto.
  - pose proof (has_handler_false _ _ HH) as NH. set (c := g_cm g) in *. set (k := key c s t) in *.
    assert (NK : ~ In k (keys_of g)) by (intros X; apply NH; apply (mi_keys_h g I); exact X).
    rewrite Hskey.
    destruct (check_key_not_exist c s t && (if direct_counts_promise f then fwd_of g (value c s t) <? avg c else true)) eqn:D.
    + apply andb_true_iff in D. destruct D as [D _].
      pose proof (cknx_room c s t (mi_avg g I) S1 D) as Room.
      destruct (add_fresh c s t (mi_fun g I) (mi_quota g I) NK Room) as (T & F & Q).
      split.
      * constructor; cbn [g_cm g_hs g_ws]; auto.
        -- exact (mi_avg g I).
        -- unfold keys_of, hkeys; cbn [g_cm g_hs]. rewrite T, !map_app; cbn. intros k0 Hk. apply in_app_iff in Hk. apply in_app_iff.
           destruct Hk as [Hk|[<-|[]]]; [left; apply (mi_keys_h g I); exact Hk|right; left; reflexivity].
        -- unfold hkeys; cbn [g_hs]. rewrite map_app. intros k0 Hk. apply in_app_iff. left. apply (mi_wk_h g I). exact Hk.
        -- exact (mi_wk_nodup g I).
        -- unfold keys_of; cbn [g_cm]. rewrite T, map_app; cbn. intros k0 Hk X. apply in_app_iff in X.
           destruct X as [X|[<-|[]]]; [exact (mi_wk_disj g I k0 Hk X)|]. apply NH. apply (mi_wk_h g I). exact Hk.
        -- unfold hkeys; cbn [g_hs]. rewrite map_app; cbn. apply NoDup_snoc; [exact (mi_hk_nodup g I)|exact NH].
        -- intros h Hh. apply in_app_iff in Hh. destruct Hh as [Hh|[<-|[]]].
           ++ destruct (mi_h_ok g I h Hh) as [A B]. split; [rewrite (key_md c (add c s t)) by reflexivity; exact A|rewrite (usk_md c (add c s t)) by reflexivity; exact B].
           ++ cbn [h_key h_src h_tgt h_skey]. split; reflexivity.
      * repeat split; cbn [g_cm]; try reflexivity. intros k0 v Hk. rewrite T. apply alookup_app_l. exact Hk.
    + split; [|apply ext_cm; reflexivity]. constructor; cbn [g_cm g_hs g_ws]; try (destruct I; assumption).
      * unfold hkeys; cbn [g_hs]. rewrite map_app. intros k0 Hk. apply in_app_iff. left. apply (mi_keys_h g I). exact Hk.
      * unfold hkeys, wkeys; cbn [g_hs g_ws]. rewrite !map_app; cbn. intros k0 Hk. apply in_app_iff in Hk. apply in_app_iff.
        destruct Hk as [Hk|[<-|[]]]; [left; apply (mi_wk_h g I); exact Hk|right; left; reflexivity].
      * unfold wkeys; cbn [g_ws]. rewrite map_app; cbn. apply NoDup_snoc; [exact (mi_wk_nodup g I)|]. intros X. apply NH. apply (mi_wk_h g I). exact X.
      * unfold wkeys; cbn [g_ws]. rewrite map_app; cbn. intros k0 Hk. apply in_app_iff in Hk.
        destruct Hk as [Hk|[<-|[]]]; [apply (mi_wk_disj g I); exact Hk|exact NK].
      * unfold hkeys; cbn [g_hs]. rewrite map_app; cbn. apply NoDup_snoc; [exact (mi_hk_nodup g I)|exact NH].
      * intros h Hh. apply in_app_iff in Hh. destruct Hh as [Hh|[<-|[]]]; [apply (mi_h_ok g I); exact Hh|]. cbn. split; reflexivity.
Qed.

Lemma fwdlock_keeps g i g' : MInv g -> fwdlock_step g i = Some g' -> MInv g' /\ ext g g'.
Proof.
  intros I. unfold fwdlock_step. destruct (nth_error (g_fgo g) i) as [x|]; [|discriminate].
  destruct (fwd_of g x <? avg (g_cm g)); intros E; injection E as <-; (split; [destruct I; constructor; auto|apply ext_cm; reflexivity]).
Qed.

Lemma give_keeps g j x pend' g' : MInv g -> give g j x pend' = Some g' -> MInv g' /\ ext g g'.
Proof.
  intros I. unfold give. destruct (nth_error (g_ws g) j) as [[k [r|]]|] eqn:Ej; try discriminate.
  intros E; injection E as <-. split; [|apply ext_cm; reflexivity].
  assert (W : map w_key (set_nth j {| w_key := k; w_recv := Some x |} (g_ws g)) = wkeys g) by (apply (map_set_nth_same w_key _ _ _ _ Ej); reflexivity).
  destruct I. constructor; cbn [g_cm g_hs g_ws]; auto; unfold wkeys in *; cbn [g_ws]; rewrite ?W; auto.
Qed.

Lemma recv_keeps g i j g' : MInv g -> recv_step g i j = Some g' -> MInv g' /\ ext g g'.
Proof. intros I. unfold recv_step. destruct (nth_error (g_pend g) i); [|discriminate]. apply give_keeps. exact I. Qed.

Lemma msgfwd_keeps g x j g' : MInv g -> msgfwd_step g x j = Some g' -> MInv g' /\ ext g g'.
Proof. intros I. unfold msgfwd_step. destruct (existsb _ _); [discriminate|]. apply give_keeps. exact I. Qed.

Lemma waitlock_keeps g j g' : MInv g -> same_avg_one (g_cm g) -> waitlock_step f g j = Some g' -> MInv g' /\ ext g g'.
Proof.
  intros I S1. unfold waitlock_step. destruct (nth_error (g_ws g) j) as [[k [x|]]|] eqn:Ej; try discriminate.
  destruct (find_handler g k) as [h|] eqn:Fh; [|discriminate]. destruct (find_handler_spec _ _ _ Fh) as [Hin Hk].
  set (c := g_cm g) in *. set (s' := if h_skey h then h_src h else x). set (t' := if h_skey h then x else h_tgt h).
  assert (Back : forall g0, Some {| g_cm := c; g_fwd := g_fwd g; g_hs := g_hs g; g_ws := set_nth j {| w_key := k; w_recv := None |} (g_ws g); g_fgo := g_fgo g; g_pend := g_pend g |} = Some g0 -> MInv g0 /\ ext g g0).
  { intros g0 E; injection E as <-. split; [|apply ext_cm; reflexivity].
    assert (W : map w_key (set_nth j {| w_key := k; w_recv := None |} (g_ws g)) = wkeys g) by (apply (map_set_nth_same w_key _ _ _ _ Ej); reflexivity).
    destruct I. constructor; cbn [g_cm g_hs g_ws]; auto; unfold wkeys in *; cbn [g_ws]; rewrite ?W; auto. }
  destruct (check_key_exist c s' t'); [apply Back|]. rewrite Hguard. cbn [andb].
  destruct (check_key_not_exist c s' t') eqn:CK; cbn [negb]; [|apply Back].
  intros E; injection E as <-.
  assert (Wk : In k (wkeys g)) by (unfold wkeys; apply in_map_iff; exists {| w_key := k; w_recv := Some x |}; split; [reflexivity|exact (nth_error_In _ _ Ej)]).
  destruct (mi_h_ok g I h Hin) as [HK HS].
  assert (Kk : key c s' t' = k).
  { rewrite <- Hk, <- HK. unfold s', t', key. rewrite HS. unfold using_source_key, c. destruct (md (g_cm g)); reflexivity. }
  assert (NK : ~ In (key c s' t') (map fst (tbl c))) by (rewrite Kk; exact (mi_wk_disj g I k Wk)).
  pose proof (cknx_room c s' t' (mi_avg g I) S1 CK) as Room.
  destruct (add_fresh c s' t' (mi_fun g I) (mi_quota g I) NK Room) as (T & F & Q).
  set (h' := {| h_key := k; h_src := s'; h_tgt := t'; h_skey := h_skey h |}).
  assert (HKs : map h_key (map (fun h0 => if String.eqb (h_key h0) k then h' else h0) (g_hs g)) = hkeys g) by (apply map_replace_key; reflexivity).
  assert (WR : map w_key (remove_nth j (g_ws g)) = remove_nth j (wkeys g)) by apply map_remove_nth.
  assert (Ejk : nth_error (wkeys g) j = Some k) by (unfold wkeys; rewrite nth_error_map, Ej; reflexivity).
  split.
  - constructor; cbn [g_cm g_hs g_ws]; auto.
    + exact (mi_avg g I).
    + unfold keys_of, hkeys; cbn [g_cm g_hs]. rewrite T, HKs, map_app; cbn. intros k0 X. apply in_app_iff in X.
      destruct X as [X|[<-|[]]]; [apply (mi_keys_h g I); exact X|]. rewrite Kk. apply (mi_wk_h g I). exact Wk.
    + unfold hkeys, wkeys; cbn [g_hs g_ws]. rewrite HKs, WR. intros k0 X. apply in_remove_nth in X. apply (mi_wk_h g I). exact X.
    + unfold wkeys; cbn [g_ws]. rewrite WR. apply nodup_remove_nth. exact (mi_wk_nodup g I).
    + unfold wkeys, keys_of; cbn [g_ws g_cm]. rewrite WR, T, map_app; cbn. intros k0 X Y. apply in_app_iff in Y.
      destruct Y as [Y|[<-|[]]]; [exact (mi_wk_disj g I k0 (in_remove_nth _ _ _ X) Y)|].
      rewrite Kk in X. exact (nodup_remove_nth_notin _ _ _ (mi_wk_nodup g I) Ejk X).
    + unfold hkeys; cbn [g_hs]. rewrite HKs. exact (mi_hk_nodup g I).
    + intros h0 X. apply in_map_iff in X. destruct X as [h1 [E X]]. rewrite (key_md c (add c s' t')) by reflexivity. rewrite (usk_md c (add c s' t')) by reflexivity.
      destruct (String.eqb (h_key h1) k); subst h0; [cbn [h_key h_src h_tgt h_skey]; split; [exact Kk|exact HS]|apply (mi_h_ok g I); exact X].
  - repeat split; cbn [g_cm]; try reflexivity. intros k0 v X. rewrite T. apply alookup_app_l. exact X.
Qed.

Lemma step_keeps g l : MInv g -> same_avg_one (g_cm g) -> MInv (step' f g l) /\ ext g (step' f g l).
Proof.
  intros I S1. unfold step', step. destruct l as [s t|i|i j|x j|j].
  - apply offer_keeps; assumption.
  - destruct (fwdlock_step g i) eqn:E; [apply (fwdlock_keeps g i); assumption|split; [exact I|apply ext_cm; reflexivity]].
  - destruct (recv_step g i j) eqn:E; [apply (recv_keeps g i j); assumption|split; [exact I|apply ext_cm; reflexivity]].
  - destruct (msgfwd_step g x j) eqn:E; [apply (msgfwd_keeps g x j); assumption|split; [exact I|apply ext_cm; reflexivity]].
  - destruct (waitlock_step f g j) eqn:E; [apply (waitlock_keeps g j); assumption|split; [exact I|apply ext_cm; reflexivity]].
Qed.

Lemma steps_keep ls : forall g, MInv g -> same_avg_one (g_cm g) ->
  MInv (fold_left (step' f) ls g) /\ ext g (fold_left (step' f) ls g).
Proof.
  induction ls as [|l r IH]; intros g I S1; cbn [fold_left]; [split; [exact I|apply ext_cm; reflexivity]|].
  destruct (step_keeps g l I S1) as [I1 (A1 & M1 & E1)].
  assert (S2 : same_avg_one (g_cm (step' f g l))) by (unfold same_avg_one in *; rewrite A1, M1; exact S1).
  destruct (IH _ I1 S2) as [I2 (A2 & M2 & E2)]. split; [exact I2|].
  repeat split; try congruence. intros k v X. apply E2, E1, X.
Qed.

Lemma init_inv s t : MInv (init s t).
Proof.
  destruct (new_inv s t) as (A & F & Q). constructor; cbn [init g_cm g_hs g_ws]; auto; unfold keys_of, hkeys, wkeys; cbn; try constructor; try tauto.
  unfold new. destruct ((s =? 0) || (t =? 0)); cbn; tauto.
Qed.

(* every schedule: any prefix ls1, any continuation ls2 *)
Lemma manager_every_schedule s t ls1 ls2 :
  let g1 := run f s t ls1 in let g2 := run f s t (ls1 ++ ls2) in
  functional (g_cm g2) /\ quota_ok (g_cm g2) /\ avg (g_cm g2) = avg (new s t)
  /\ (forall k v, alookup (tbl (g_cm g1)) k = Some v -> alookup (tbl (g_cm g2)) k = Some v)
  /\ (forall k, In k (map fst (tbl (g_cm g2))) -> In k (map h_key (g_hs g2)))
  /\ (forall k, In k (map w_key (g_ws g2)) -> ~ In k (map fst (tbl (g_cm g2)))).
Proof.
  cbn zeta. unfold run. rewrite fold_left_app.
  destruct (steps_keep ls1 (init s t) (init_inv s t) (new_same_avg s t)) as [I1 (A1 & M1 & E1)].
  assert (S1 : same_avg_one (g_cm (fold_left (step' f) ls1 (init s t)))) by (unfold same_avg_one; rewrite A1, M1; apply new_same_avg).
  destruct (steps_keep ls2 _ I1 S1) as [I2 (A2 & M2 & E2)].
  repeat split.
  - exact (mi_fun _ I2).
  - exact (mi_quota _ I2).
  - rewrite A2, A1. reflexivity.
  - exact E2.
  - exact (mi_keys_h _ I2).
  - exact (mi_wk_disj _ I2).
Qed.
End Steps.

Lemma manager_now s t ls1 ls2 :
  let g1 := run cfg_now s t ls1 in let g2 := run cfg_now s t (ls1 ++ ls2) in
  functional (g_cm g2) /\ quota_ok (g_cm g2) /\ avg (g_cm g2) = avg (new s t)
  /\ (forall k v, alookup (tbl (g_cm g1)) k = Some v -> alookup (tbl (g_cm g2)) k = Some v)
  /\ (forall k, In k (map fst (tbl (g_cm g2))) -> In k (map h_key (g_hs g2)))
  /\ (forall k, In k (map w_key (g_ws g2)) -> ~ In k (map fst (tbl (g_cm g2)))).
Proof. apply manager_every_schedule; reflexivity. Qed.

(* ---- the three earlier variants of the code break the property: schedules found by the check and replayed against the real code ---- *)
Local Open Scope string_scope.
Definition over_quota (g : mgr) (v : string) : bool := negb (count_val (tbl (g_cm g)) v <=? avg (g_cm g))%N.

(* before 58caa9f: a promised place was ignored by the direct assignment (3 source, 6 downstream channels, quota 2) *)
Definition cfg_v1 := {| guard_waiter := false; direct_counts_promise := false; waiter_counts_again := true; skey_by_name := true |}.
Definition sched_v1 : list lbl :=
  [LOffer "s1" "t3"; LOffer "s1" "t2"; LOffer "s0" "t5"; LOffer "s0" "t3"; LFwdLock 0; LOffer "s0" "t0"; LOffer "s1" "t4"; LRecv 0 0; LWaitLock 0].
Lemma v1_refuted : over_quota (run cfg_v1 3 6 sched_v1) "s0" = true.
Proof. vm_compute. reflexivity. Qed.

(* before 5bb7150: the key side taken from the channel names (2 source, 4 downstream channels named alike): an assignment changes *)
Definition cfg_v2 := {| guard_waiter := false; direct_counts_promise := true; waiter_counts_again := false; skey_by_name := true |}.
Definition sched_v2a : list lbl := [LOffer "d1" "d3"; LOffer "d1" "d2"; LOffer "d0" "d0"].
Definition sched_v2b : list lbl := [LOffer "d1" "d1"; LOffer "d0" "d3"; LFwdLock 0; LRecv 0 0; LWaitLock 0].
Lemma v2_refuted :
  alookup (tbl (g_cm (run cfg_v2 2 4 sched_v2a))) "d0" = Some "d0"
  /\ alookup (tbl (g_cm (run cfg_v2 2 4 (sched_v2a ++ sched_v2b)))) "d0" = Some "d1"
  /\ over_quota (run cfg_v2 2 4 (sched_v2a ++ sched_v2b)) "d1" = true.
Proof. vm_compute. repeat split. Qed.

(* without the quota test of the waiting handler: forwardMsg hands a channel that a forwardChannel goroutine has promised to
   a second waiting handler (3 and 3 channels, one-to-one expected) *)
Definition cfg_v3 := {| guard_waiter := false; direct_counts_promise := true; waiter_counts_again := false; skey_by_name := false |}.
Definition sched_v3 : list lbl :=
  [LOffer "s0" "t0"; LOffer "s1" "t0"; LOffer "s2" "t0"; LOffer "s0" "t1"; LFwdLock 0; LRecv 0 0; LMsgFwd "t1" 1; LWaitLock 0; LWaitLock 0].
Lemma v3_refuted : over_quota (run cfg_v3 3 3 sched_v3) "t1" = true.
Proof. vm_compute. reflexivity. Qed.
(* the same schedule on the code as it is: the second waiting handler keeps waiting *)
Lemma v3_now_ok : over_quota (run cfg_now 3 3 sched_v3) "t1" = false /\ List.length (g_ws (run cfg_now 3 3 sched_v3)) = 1%nat.
Proof. vm_compute. split; reflexivity. Qed.
