(* C03, resume half - cases written by `h_c05 -mode c03r` (the real MetaCDC over lib/sfake: packs acknowledged and checkpointed,
   pauses, resumes, crashes): the channel clock of a restarted stream starts at the time filter of the seek position that
   startInternal builds from the persisted checkpoint.  The checkpoint keeps only the millisecond of the last acknowledged
   pack's end time, so the floor must lie above every hybrid time of that millisecond: at least ComposeTS(Time + 1, 0). *)
From Coq Require Import List String NArith ZArith Bool.
From Verif Require Import Base.Util Server.Data.
Import ListNotations.

Definition new_seeks (prev o : obs) : list (nat * (N * Z)) := skipn (List.length (o_seeks prev)) (o_seeks o).
(* every seek handed to the reader names a stored checkpoint and its time filter is above every time of the checkpoint's millisecond *)
Definition floor_ok (prev o : obs) : bool :=
  forallb (fun sk : nat * (N * Z) => let k := fst sk in let id := fst (snd sk) in let ts := snd (snd sk) in
     existsb (fun e => Nat.eqb (fst e) k && N.eqb (fst (fst (snd e))) id && Z.leb (compose_ts (snd (fst (snd e)) + 1)) ts) (o_store prev))
    (new_seeks prev o).
Definition empty_obs : obs := {| o_acks := []; o_store := []; o_running := []; o_alive := []; o_evloop := true;
                                 o_wfails := []; o_pfails := []; o_seeks := [] |}.
Fixpoint check_all (prev : obs) (os : list obs) : bool :=
  match os with [] => true | o :: r => floor_ok prev o && check_all o r end.
Definition check_C03r (c : case) : bool := check_all empty_obs (c_obs c).

Definition mismatches (l : list (N * case)) : list N := failing_ids agrees l.
Definition checkfails (l : list (N * case)) : list N := failing_ids check_C03r l.
Definition knownclass (l : list (N * case)) : list (N * N) := [].
