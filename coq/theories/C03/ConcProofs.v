(* C03 — the channel invariant under every schedule of the pack pipeline: packs may be parked at the scheduling points "max"
   (before the channel's time is read) and "lock" (after the shift, before the channel lock) while the other handlers go on *)
From Coq Require Import List String NArith ZArith Bool Arith Lia Permutation Sorting.Sorted.
From Verif Require Import Base.Util Reader.Model Reader.Script Reader.Proofs Reader.Conc C03.Check C03.Proofs.
From Verif Require Import Reader.Forget.
Import ListNotations.
Local Open Scope string_scope.
Local Open Scope N_scope.

(* ---------- the two sections preserve the invariant ---------- *)
Lemma CInv_emit1 s ch b e msgs :
  CInv s -> b <= cts (clock_of s ch) -> cts (clock_of s ch) + N.of_nat (List.length msgs) + 1 < maxu -> CInv (fst (emit1 s ch b e msgs)).
Proof.
  intros I Hb Hw. destruct (I ch) as [I1 _].
  destruct (emit1_spec s ch b e msgs I1 Hb Hw) as [_ [_ [_ [_ [_ [_ [_ [_ [_ [Ho [Hoth [Hl [Hc _]]]]]]]]]]]]].
  apply (CInv_adv s); [|exact Ho|exact I]. intros ch'. destruct (String.eqb_spec ch ch') as [<-|N]; [split; assumption|]. rewrite (Hoth ch' N). split; [reflexivity|lia].
Qed.

Lemma pack2_nontick ch label msgs l0 pk : pack_spec2 ch label msgs l0 pk ->
  exists data tk opening, ep_msgs pk = (opening ++ data ++ [tk])%list /\ e_kind tk = KTick /\ last_ts pk = e_ts tk /\ l0 <= e_ts tk
    /\ (forall d, In d (ep_msgs pk) -> e_kind d <> KTick -> In d data)
    /\ Forall (fun o => e_kind o = KTick) opening /\ Forall2 same_but_time msgs data
    /\ Forall (fun d => l0 < e_ts d /\ e_ts d <= e_ts tk /\ e_posts d = e_ts d) data
    /\ (data <> [] -> ep_begin pk = e_ts (hd tk data) /\ ep_end pk = e_ts (last data tk) /\ ep_end pk <= e_ts tk /\ ep_endposts pk = ep_end pk).
Proof.
  intros [_ _ [opening [data [tk [E [Fo [F2 [Kt [_ [Hl [Fd Hd]]]]]]]]]]].
  exists data, tk, opening. split; [exact E|]. split; [exact Kt|].
  split. { unfold last_ts. rewrite E, app_assoc, last_snoc. reflexivity. }
  split; [exact Hl|]. split; [|split; [eapply Forall_impl; [|exact Fo]; intros x [K _]; exact K|split; [exact F2|split; assumption]]].
  intros d Hin Hk. rewrite E in Hin. apply in_app_or in Hin. destruct Hin as [Hin|Hin].
  - rewrite Forall_forall in Fo. destruct (Fo d Hin) as [K _]. congruence.
  - apply in_app_or in Hin. destruct Hin as [Hin|[<-|[]]]; [exact Hin|congruence].
Qed.

Lemma CInv_emit23 s ch label pend need :
  CInv s -> pend_ok (clock_of s ch) pend -> cts (clock_of s ch) + N.of_nat (List.length (fst (fst pend))) + 1 < maxu ->
  Forall (fun m => e_kind m <> KTick) (fst (fst pend)) ->
  CInv (emit23 s ch label pend need).
Proof.
  intros I P Hw Hs ch'. pose proof (I ch) as [I1 [I2 I3]].
  destruct (emit23_spec s ch label pend need I1 P Hw) as [_ [_ [_ [_ [_ [_ [_ [_ [_ [Hoth [Hlc [Hmono [Hcm Hcases]]]]]]]]]]]]].
  destruct (String.eqb_spec ch ch') as [<-|Hne].
  - unfold chan_inv. split; [exact Hlc|].
    destruct Hcases as [[Ho Hl]|[pk [Ho [Hp Hl]]]].
    + rewrite Ho, Hl. split; assumption.
    + rewrite Ho, on_chan_app.
      assert (Hon : on_chan ch [pk] = [pk]).
      { unfold on_chan. cbn [filter]. destruct Hp as [[-> _] _ _]. rewrite String.eqb_refl. reflexivity. }
      rewrite Hon.
      destruct (pack2_nontick ch label _ _ pk Hp) as [data [tk [opening [E [Kt [Hlast [Hl0 [Hnt [Fo [F2 [Fd Hd]]]]]]]]]]].
      assert (Hfilter : filter nontick (ep_msgs pk) = data).
      { rewrite E. rewrite !filter_app. rewrite (filter_none nontick opening).
        2:{ eapply Forall_impl; [|exact Fo]. intros x K. unfold nontick. rewrite K. reflexivity. }
        cbn [filter app]. replace (nontick tk) with false by (unfold nontick; rewrite Kt; reflexivity). rewrite app_nil_r.
        apply filter_all. clear - F2 Hs. induction F2 as [|x y l l' R _ IH]; [constructor|]. inversion Hs; subst. constructor; [|apply IH; assumption].
        destruct R as [R _]. apply nontick_true. rewrite <- R. assumption. }
      rewrite Forall_forall in Fd.
      split.
      * apply Forall_app. split.
        -- eapply Forall_impl; [|exact I2]. intros pk0 [A B]. split; [lia|exact B].
        -- constructor; [|constructor]. split; [lia|]. split.
           ++ exists (opening ++ data)%list, tk. split; [rewrite E, app_assoc; reflexivity|]. split; [exact Kt|].
              intros d Hin Hk. assert (Hin' : In d (ep_msgs pk)) by (rewrite E, app_assoc; apply in_or_app; left; exact Hin).
              destruct (Fd d (Hnt d Hin' Hk)) as [_ [A B]]. split; assumption.
           ++ intros first rest Hf. rewrite Hfilter in Hf.
              assert (Hne : data <> []) by (rewrite Hf; discriminate).
              destruct (Hd Hne) as [Hb1 [He1 [He2 He3]]]. rewrite Hf in Hb1, He1. cbn [hd] in Hb1. rewrite last_cons_default in He1.
              rewrite Hlast. split; [exact Hb1|]. split; [exact He1|]. split; [exact He2|exact He3].
      * apply sorted_snoc; [exact I3|]. rewrite Forall_forall in I2 |- *. intros p0 Hp0. destruct (I2 p0 Hp0) as [A _].
        split; [lia|]. intros d Hin Hk. destruct (Fd d (Hnt d Hin Hk)) as [B _]. lia.
  - specialize (Hoth ch' Hne). unfold chan_inv. rewrite Hoth.
    assert (Hon : on_chan ch' (out (emit23 s ch label pend need)) = on_chan ch' (out s)).
    { destruct Hcases as [[Ho _]|[pk [Ho [Hp _]]]]; [rewrite Ho; reflexivity|]. rewrite Ho, on_chan_app.
      destruct Hp as [[Hc _] _ _]. unfold on_chan at 2. cbn [filter]. rewrite Hc.
      destruct (String.eqb_spec ch ch'); [contradiction|]. apply app_nil_r. }
    rewrite Hon. exact (I ch').
Qed.

Lemma rel_fire s : rel s (fire s).
Proof.
  unfold fire. destruct (fire_cbars_frame s) as [A B]. destruct (fire_pbars_frame (fire_cbars s)) as [C D]. apply rel_ext; congruence.
Qed.
Lemma rel_ffire l b s : rel s (forget_fired l b (fire s)).
Proof.
  eapply rel_trans; [apply rel_fire|]. pose proof (forget_fired_frame l b (fire s)) as F. unfold same_but_heap in F.
  apply rel_ext; apply F.
Qed.

Lemma adv_emit1 s ch b e msgs : lts (clock_of s ch) <= cts (clock_of s ch) -> b <= cts (clock_of s ch) ->
  cts (clock_of s ch) + N.of_nat (List.length msgs) + 1 < maxu -> adv s (fst (emit1 s ch b e msgs)).
Proof.
  intros H1 H2 H3. destruct (emit1_spec s ch b e msgs H1 H2 H3) as [_ [_ [_ [_ [_ [_ [_ [_ [_ [_ [Hoth [_ [Hc _]]]]]]]]]]]]].
  intros ch'. destruct (String.eqb_spec ch ch') as [<-|N]; [exact Hc|]. rewrite (Hoth ch' N). lia.
Qed.
Lemma adv_emit23 s ch label pend need : lts (clock_of s ch) <= cts (clock_of s ch) -> pend_ok (clock_of s ch) pend ->
  cts (clock_of s ch) + N.of_nat (List.length (fst (fst pend))) + 1 < maxu -> adv s (emit23 s ch label pend need).
Proof.
  intros H1 P H3. destruct (emit23_spec s ch label pend need H1 P H3) as [_ [_ [_ [_ [_ [_ [_ [_ [_ [Hoth [_ [_ [Hc _]]]]]]]]]]]]].
  intros ch'. destruct (String.eqb_spec ch ch') as [<-|N]; [exact Hc|]. rewrite (Hoth ch' N). lia.
Qed.

Lemma Forall2_length {A B} (R : A -> B -> Prop) l l' : Forall2 R l l' -> List.length l = List.length l'.
Proof. induction 1; cbn; congruence. Qed.
Lemma same_kinds msgs data : Forall2 same_but_time msgs data -> Forall (fun m => e_kind m <> KTick) msgs -> Forall (fun m => e_kind m <> KTick) data.
Proof. induction 1 as [|x y l l' R _ IH]; intros H; [constructor|]. inversion H; subst. constructor; [destruct R as [R _]; rewrite <- R; assumption|apply IH; assumption]. Qed.

(* the whole timing phase: the invariant, and the channel times do not fall *)
Lemma emit_conc s ch label b e msgs need : CInv s -> b <= cts (clock_of s ch) ->
  cts (clock_of s ch) + 2 * N.of_nat (List.length msgs) + 1 < maxu -> Forall (fun m => e_kind m <> KTick) msgs ->
  CInv (emit s ch label b e msgs need) /\ adv s (emit s ch label b e msgs need).
Proof.
  intros I Hb Hw Hs. destruct (I ch) as [I1 _]. rewrite emit_split.
  assert (Hw1 : cts (clock_of s ch) + N.of_nat (List.length msgs) + 1 < maxu) by lia.
  destruct (emit1_spec s ch b e msgs I1 Hb Hw1) as [_ [_ [_ [_ [_ [_ [_ [_ [_ [_ [_ [Hl [Hc [Hcb [P F2]]]]]]]]]]]]]]].
  pose proof (CInv_emit1 s ch b e msgs I Hb Hw1) as I'.
  set (s1 := fst (emit1 s ch b e msgs)) in *. set (pend := snd (emit1 s ch b e msgs)) in *.
  assert (Hw2 : cts (clock_of s1 ch) + N.of_nat (List.length (fst (fst pend))) + 1 < maxu) by (rewrite <- (Forall2_length _ _ _ F2); lia).
  split.
  - apply CInv_emit23; [exact I'|exact P|exact Hw2|eapply same_kinds; eassumption].
  - eapply adv_trans; [apply adv_emit1; [exact I1|exact Hb|exact Hw1]|]. destruct (I' ch) as [J1 _]. apply adv_emit23; [exact J1|exact P|exact Hw2].
Qed.

(* ---------- the content phase of a fed pack ---------- *)
Definition feed_safe2 (s : st) (p : spack) : Prop :=
  repair_begin p <> maxu /\ forall ch, N.max (cts (clock_of s ch)) (repair_begin p) + 2 * N.of_nat (List.length (p_msgs p)) + 1 < maxu.

Lemma feed_content_spec retries s c cname spch p answers : feed_safe2 s p ->
  match feed_content retries s c cname spch p answers with
  | FDone s' => rel s s'
  | FEmit s' ch lab b e msgs need =>
      rel s s' /\ b <= cts (clock_of s' ch) /\ cts (clock_of s' ch) + 2 * N.of_nat (List.length msgs) + 1 < maxu
      /\ Forall (fun m => e_kind m <> KTick) msgs
  end.
Proof.
  intros [Hb Hw]. unfold feed_content. destruct (hlookup s spch) as [h|]; [|apply rel_refl].
  set (begin := repair_begin p) in *.
  set (s0 := set_clock s (h_tgt h) (collect (clock_of s (h_tgt h)) begin)).
  assert (R0 : rel s s0) by (apply rel_collect; exact Hb).
  assert (Hc0 : forall ch, cts (clock_of s0 ch) <= N.max (cts (clock_of s ch)) begin /\ (ch = h_tgt h -> begin <= cts (clock_of s0 ch))).
  { intros ch. unfold s0. destruct (String.eqb_spec (h_tgt h) ch) as [<-|Hne].
    - rewrite clock_of_set. destruct (collect_spec (clock_of s (h_tgt h)) begin Hb) as [-> _]. split; [lia|intros _; lia].
    - rewrite (clock_of_set_other _ _ _ _ Hne). split; [lia|]. intros ->. contradiction. }
  set (a0 := {| a_st := s0; a_h := h; a_first := None; a_out := []; a_need := false; a_fwd := None; a_ans := answers; a_cname := "" |}).
  pose proof (all_msgs_frame retries (sort_msgs (p_msgs p)) a0) as Fr.
  pose proof (all_msgs_out retries (sort_msgs (p_msgs p)) a0) as Fo.
  destruct (all_msgs retries a0 (sort_msgs (p_msgs p))) as [s1|a].
  - destruct Fr as [A B]. eapply rel_trans; [exact R0|]. apply rel_ext; [exact A|exact B].
  - destruct Fr as [A B]. cbn [a_st a0] in A, B. destruct Fo as [L K]. cbn [a_out a0 List.length] in L, K. rewrite sort_msgs_length in L.
    specialize (K (Forall_nil _)).
    match goal with |- match (match a_fwd a with Some tgt => match find ?f (handlers ?s1') with _ => _ end | None => _ end) with _ => _ end => set (s1 := s1') end.
    assert (R1 : rel s s1) by (eapply rel_trans; [exact R0|]; apply rel_ext; [exact A|exact B]).
    assert (Hc1 : forall ch, clock_of s1 ch = clock_of s0 ch) by (intros ch; apply clock_of_ext; exact A).
    destruct (a_fwd a) as [tgt|].
    + destruct (find _ (handlers s1)); [|eapply rel_trans; [exact R1|]; apply rel_ext; reflexivity].
      split; [eapply rel_trans; [exact R1|]; apply rel_collect; exact Hb|].
      rewrite clock_of_set. destruct (collect_spec (clock_of s1 tgt) begin Hb) as [-> _]. rewrite Hc1.
      split; [lia|]. split.
      * rewrite (Permutation_length (sort_emsgs_perm (a_out a))). specialize (Hw tgt). destruct (Hc0 tgt) as [Q _]. lia.
      * eapply Permutation_Forall; [symmetry; apply sort_emsgs_perm|exact K].
    + split; [exact R1|]. rewrite Hc1. destruct (Hc0 (h_tgt h)) as [Q1 Q2]. split; [apply Q2; reflexivity|]. split.
      * rewrite map_length. specialize (Hw (h_tgt h)). lia.
      * apply Forall_map. cbn [e_kind]. exact K.
Qed.

Lemma step_feed_eq retries s c cname spch p answers :
  step retries s (Feed c cname spch p answers)
  = forget_fired (Feed c cname spch p answers) s
      (fire (match feed_content retries s c cname spch p answers with FDone s' => s' | FEmit s' ch lab b e msgs need => emit s' ch lab b e msgs need end)).
Proof.
  unfold step, feed_content, fire. destruct (hlookup s spch); [|reflexivity].
  destruct (all_msgs _ _ _) as [s1|a]; [reflexivity|]. destruct (a_fwd a); [|reflexivity].
  match goal with |- context [find ?f ?l] => destruct (find f l) end; reflexivity.
Qed.

(* a sequential label: the invariant, and the channel times do not fall *)
Definition label_safe2 (s : st) (l : label) : Prop := match l with Feed _ _ _ p _ => feed_safe2 s p | _ => True end.

Lemma step_conc retries s l : CInv s -> label_safe2 s l -> CInv (step retries s l) /\ adv s (step retries s l).
Proof.
  intros I S. destruct l as [c|c pid pname th|c cname spch p answers|cs|c spchs|ns nt].
  - split; [apply step_CInv; [exact I|exact Logic.I]|]. unfold step. eapply adv_trans; [|apply rel_adv, rel_ffire].
    destruct (zmem _ _); [apply adv_refl|]. destruct (zlookup _ _); [apply adv_refl|]. destruct (pairing c) as [shards|]; [|apply adv_refl].
    match goal with |- adv s (settle (fold_left ?f shards ?s1)) =>
      assert (E : adv s s1) by (apply rel_adv, rel_ext; reflexivity); eapply adv_trans; [exact E|apply rel_adv, start_coll_rel] end.
  - split; [apply step_CInv; [exact I|exact Logic.I]|]. unfold step. eapply adv_trans; [|apply rel_adv, rel_ffire].
    apply rel_adv, rel_ext; repeat dm; reflexivity.
  - cbn [label_safe2] in S. rewrite step_feed_eq. pose proof (feed_content_spec retries s c cname spch p answers S) as F.
    destruct (feed_content retries s c cname spch p answers) as [s'|s' ch lab b e msgs need].
    + split; [apply (CInv_rel s'); [apply rel_ffire|apply (CInv_rel s); assumption]|]. eapply adv_trans; [apply rel_adv; exact F|apply rel_adv, rel_ffire].
    + destruct F as [R [Hb [Hw Hs]]]. destruct (emit_conc s' ch lab b e msgs need (CInv_rel s s' R I) Hb Hw Hs) as [I' A'].
      split; [apply (CInv_rel _ _ (rel_ffire _ _ _)); exact I'|]. eapply adv_trans; [apply rel_adv; exact R|]. eapply adv_trans; [exact A'|apply rel_adv, rel_ffire].
  - split; [apply step_CInv; [exact I|exact Logic.I]|]. unfold step. eapply adv_trans; [|apply rel_adv, rel_ffire]. apply rel_adv, rel_ext; reflexivity.
  - split; [apply step_CInv; [exact I|exact Logic.I]|]. unfold step. eapply adv_trans; [|apply rel_adv, rel_ffire]. apply rel_adv, rel_ext; reflexivity.
  - split; [apply step_CInv; [exact I|exact Logic.I]|]. unfold step. eapply adv_trans; [|apply rel_adv, rel_ffire].
    destruct (handlers s); [|apply adv_refl]. destruct (wsh s); [|apply adv_refl]. destruct (Manager.g_hs (mg s)); [|apply adv_refl]. apply rel_adv, rel_ext; reflexivity.
Qed.

(* ---------- packs parked at a scheduling point ---------- *)
Definition parked_ok (s : st) (pk : parked) : Prop :=
  match pk with
  | PkMax ch lab b e msgs need => b <= cts (clock_of s ch) /\ Forall (fun m => e_kind m <> KTick) msgs
  | PkLock ch lab pend need => pend_ok (clock_of s ch) pend /\ Forall (fun m => e_kind m <> KTick) (fst (fst pend))
  end.
Lemma parked_ok_adv s s' pk : adv s s' -> parked_ok s pk -> parked_ok s' pk.
Proof.
  intros A. destruct pk as [ch lab b e msgs need|ch lab pend need]; cbn [parked_ok]; intros [H1 H2]; (split; [|exact H2]); specialize (A ch).
  - lia.
  - destruct H1 as [H1|[F [Hb [He Hc]]]]; [left; exact H1|right]. repeat split; try assumption. lia.
Qed.

Definition KInv (c : cst) : Prop := CInv (base c) /\ Forall (fun sp => parked_ok (base c) (snd sp)) (parkedl c).

Definition resume_safe (s : st) (pk : parked) : Prop :=
  match pk with
  | PkMax ch _ _ _ msgs _ => cts (clock_of s ch) + 2 * N.of_nat (List.length msgs) + 1 < maxu
  | PkLock ch _ pend _ => cts (clock_of s ch) + N.of_nat (List.length (fst (fst pend))) + 1 < maxu
  end.
Definition clabel_safe (c : cst) (l : clabel) : Prop :=
  match l with
  | CSeq l => label_safe2 (base c) l
  | CPark _ _ _ p _ _ => feed_safe2 (base c) p
  | CResume spch => match alookup (parkedl c) spch with Some pk => resume_safe (base c) pk | None => True end
  end.

Lemma Forall_aremove {A} (P : string * A -> Prop) l k : Forall P l -> Forall P (aremove l k).
Proof. induction 1 as [|[a x] r H _ IH]; cbn [aremove]; [constructor|]. destruct (String.eqb k a); [exact IH|constructor; assumption]. Qed.
Lemma alookup_Forall {A} (P : string * A -> Prop) l k v : Forall P l -> alookup l k = Some v -> exists k', P (k', v).
Proof.
  induction 1 as [|[a x] r H _ IH]; cbn [alookup]; [discriminate|]. destruct (String.eqb k a); [intros E; injection E as <-; exists a; exact H|exact IH].
Qed.

Theorem cstep_KInv retries c l : KInv c -> clabel_safe c l -> KInv (cstep retries c l).
Proof.
  intros [I P] S. destruct l as [l|cc cname spch p answers pt|spch]; cbn [cstep clabel_safe] in *.
  - destruct (step_conc retries (base c) l I S) as [I' A']. split; [exact I'|]. cbn [base parkedl].
    eapply Forall_impl; [|exact P]. intros sp H. eapply parked_ok_adv; eassumption.
  - pose proof (feed_content_spec retries (base c) cc cname spch p answers S) as F.
    destruct (feed_content retries (base c) cc cname spch p answers) as [s'|s' ch lab b e msgs need].
    + assert (R : rel (base c) (fire s')) by (eapply rel_trans; [exact F|apply rel_fire]).
      split; [apply (CInv_rel _ _ R I)|]. cbn [base parkedl]. eapply Forall_impl; [|exact P]. intros sp H. eapply parked_ok_adv; [apply rel_adv; exact R|exact H].
    + destruct F as [R [Hb [Hw Hs]]]. pose proof (CInv_rel _ _ R I) as I1.
      destruct pt.
      * (* held before the channel's time is read *)
        assert (R2 : rel (base c) (fire s')) by (eapply rel_trans; [exact R|apply rel_fire]).
        split; [apply (CInv_rel _ _ R2 I)|]. cbn [base parkedl]. apply Forall_app. split.
        -- eapply Forall_impl; [|exact P]. intros sp H. eapply parked_ok_adv; [apply rel_adv; exact R2|exact H].
        -- constructor; [|constructor]. cbn [snd parked_ok]. split; [|exact Hs]. destruct (rel_fire s') as [Q _]. destruct (Q ch) as [_ Q2]. lia.
      * (* held after the shift, before the channel lock *)
        destruct (I1 ch) as [J1 _]. assert (Hw1 : cts (clock_of s' ch) + N.of_nat (List.length msgs) + 1 < maxu) by lia.
        destruct (emit1_spec s' ch b e msgs J1 Hb Hw1) as [_ [_ [_ [_ [_ [_ [_ [_ [_ [_ [_ [_ [_ [_ [Pk F2]]]]]]]]]]]]]]].
        pose proof (CInv_emit1 s' ch b e msgs I1 Hb Hw1) as I2. pose proof (adv_emit1 s' ch b e msgs J1 Hb Hw1) as A2.
        destruct (emit1 s' ch b e msgs) as [s1 pend] eqn:E1. cbn [fst snd] in *.
        split; [apply (CInv_rel _ _ (rel_fire s1) I2)|]. cbn [base parkedl]. apply Forall_app. split.
        -- eapply Forall_impl; [|exact P]. intros sp H. eapply parked_ok_adv; [|exact H].
           eapply adv_trans; [apply rel_adv; exact R|]. eapply adv_trans; [exact A2|apply rel_adv, rel_fire].
        -- constructor; [|constructor]. cbn [snd parked_ok]. split; [|eapply same_kinds; eassumption].
           eapply (parked_ok_adv s1 (fire s1) (PkLock ch lab pend need) (rel_adv _ _ (rel_fire s1))). cbn [parked_ok]. split; [exact Pk|eapply same_kinds; eassumption].
      * (* not held *)
        destruct (emit_conc s' ch lab b e msgs need I1 Hb Hw Hs) as [I2 A2].
        split; [apply (CInv_rel _ _ (rel_fire _) I2)|]. cbn [base parkedl]. eapply Forall_impl; [|exact P]. intros sp H. eapply parked_ok_adv; [|exact H].
        eapply adv_trans; [apply rel_adv; exact R|]. eapply adv_trans; [exact A2|apply rel_adv, rel_fire].
  - destruct (alookup (parkedl c) spch) as [pk|] eqn:L; [|split; assumption].
    destruct (alookup_Forall _ _ _ _ P L) as [k' Hpk]. cbn [snd] in Hpk.
    destruct pk as [ch lab b e msgs need|ch lab pend need]; cbn [parked_ok resume_safe] in *.
    + destruct Hpk as [Hb Hs]. destruct (emit_conc (base c) ch lab b e msgs need I Hb S Hs) as [I2 A2].
      split; [apply (CInv_rel _ _ (rel_fire _) I2)|]. cbn [base parkedl]. apply Forall_aremove. eapply Forall_impl; [|exact P]. intros sp H.
      eapply parked_ok_adv; [|exact H]. eapply adv_trans; [exact A2|apply rel_adv, rel_fire].
    + destruct Hpk as [Pk Hs]. destruct (I ch) as [J1 _].
      split; [apply (CInv_rel _ _ (rel_fire _)); apply CInv_emit23; assumption|]. cbn [base parkedl]. apply Forall_aremove. eapply Forall_impl; [|exact P]. intros sp H.
      eapply parked_ok_adv; [|exact H]. eapply adv_trans; [apply (adv_emit23 (base c) ch lab pend need J1 Pk S)|apply rel_adv, rel_fire].
Qed.

Fixpoint csafe (retries : nat) (c : cst) (ls : list clabel) : Prop :=
  match ls with [] => True | l :: r => clabel_safe c l /\ csafe retries (cstep retries c l) r end.

Lemma KInv_init : KInv cinit.
Proof. split; [exact CInv_init|constructor]. Qed.

Theorem crun_KInv retries : forall ls c, KInv c -> csafe retries c ls -> KInv (fold_left (cstep retries) ls c).
Proof. induction ls as [|l r IH]; intros c K S; cbn [fold_left]; [exact K|]. destruct S as [S1 S2]. apply IH; [apply cstep_KInv; assumption|exact S2]. Qed.

(* ---------- a decidable form of the no-wrap premise ---------- *)
Definition feed_safe2b (s : st) (p : spack) : bool :=
  negb (N.eqb (repair_begin p) maxu) && N.ltb (N.max (clock_bound s) (repair_begin p) + 2 * N.of_nat (List.length (p_msgs p)) + 1) maxu.
Definition resume_safeb (s : st) (pk : parked) : bool :=
  match pk with
  | PkMax ch _ _ _ msgs _ => N.ltb (cts (clock_of s ch) + 2 * N.of_nat (List.length msgs) + 1) maxu
  | PkLock ch _ pend _ => N.ltb (cts (clock_of s ch) + N.of_nat (List.length (fst (fst pend))) + 1) maxu
  end.
Definition clabel_safeb (c : cst) (l : clabel) : bool :=
  match l with
  | CSeq (Feed _ _ _ p _) => feed_safe2b (base c) p
  | CSeq _ => true
  | CPark _ _ _ p _ _ => feed_safe2b (base c) p
  | CResume spch => match alookup (parkedl c) spch with Some pk => resume_safeb (base c) pk | None => true end
  end.
Fixpoint csafeb (retries : nat) (c : cst) (ls : list clabel) : bool :=
  match ls with [] => true | l :: r => clabel_safeb c l && csafeb retries (cstep retries c l) r end.

Lemma feed_safe2b_sound s p : feed_safe2b s p = true -> feed_safe2 s p.
Proof.
  unfold feed_safe2b, feed_safe2. intros H. apply andb_prop in H. destruct H as [A B]. apply negb_true_iff, N.eqb_neq in A. apply N.ltb_lt in B.
  split; [exact A|]. intros ch. pose proof (clock_le_bound s ch). lia.
Qed.
Lemma csafeb_sound retries : forall ls c, csafeb retries c ls = true -> csafe retries c ls.
Proof.
  induction ls as [|l r IH]; intros c H; cbn [csafe csafeb] in *; [exact I|]. apply andb_prop in H. destruct H as [H1 H2].
  split; [|apply IH; exact H2]. destruct l as [l|cc cname spch p answers pt|spch]; cbn [clabel_safe clabel_safeb] in *.
  - destruct l; cbn [label_safe2]; try exact I. apply feed_safe2b_sound. exact H1.
  - apply feed_safe2b_sound. exact H1.
  - destruct (alookup (parkedl c) spch) as [pk|]; [|exact I]. destruct pk; cbn [resume_safe resume_safeb] in *; apply N.ltb_lt; exact H1.
Qed.
