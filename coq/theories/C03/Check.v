(* C03 — checker over the implementation's output: per downstream channel, time is monotone and packs end with a tick *)
From Coq Require Import List String NArith ZArith Bool.
From Verif Require Import Base.Util Reader.Model Reader.Script.
Import ListNotations.
Local Open Scope string_scope.

(* one pack, given the closing tick of the previous pack on the channel *)
Definition pack_time_ok (prev : N) (p : epack) : option N :=
  match closing p with
  | None => None
  | Some t =>
      let data := filter (fun e => negb (mkind_eqb (e_kind e) KTick)) (ep_msgs p) in
      if N.leb prev (e_ts t)
         && forallb (fun e => N.ltb prev (e_ts e) && N.leb (e_ts e) (e_ts t) && N.eqb (e_posts e) (e_ts e)) data
         && (match data with
             | [] => true
             | d :: _ => (* a pack that carries data: begin / end / position times agree with the messages *)
                 (* (the closing tick may lie above the pack's end: other handlers of the channel may have raised the channel's time
                    between the shift of the pack and its closing under the channel lock) *)
                 N.leb (ep_begin p) (e_ts d) && N.eqb (ep_end p) (e_ts (last data d)) && N.eqb (ep_endposts p) (ep_end p)
             end)
      then Some (e_ts t) else None
  end.

Fixpoint chan_ok (prev : N) (l : list epack) : bool :=
  match l with
  | [] => true
  | p :: r => match pack_time_ok prev p with Some t => chan_ok t r | None => false end
  end.

(* messages of one source shard keep their relative time order *)
Definition stream_order_ok (c : case) (cs : Z * string) : bool :=
  let f := fed (c_labels c) (fst cs) (snd cs) in
  let e := emitted (c_out c) (fst cs) (snd cs) in
  let src_ts (id : N) := match find (fun jm => N.eqb (m_id (snd jm)) id) f with Some jm => Some (fst jm, m_ts (snd jm)) | None => None end in
  forallb (fun a => forallb (fun b =>
     match src_ts (e_id (snd a)), src_ts (e_id (snd b)) with
     | Some (ia, ta), Some (ib, tb) =>
         (* (a is read no later than b: the stream is time-ordered; a pack that a handler generates itself at its seek time - the
            drop of a partition listed as dropped at registration - is not a message read from the stream and lies outside this rule) *)
         if N.ltb ta tb && Nat.leb ia ib then N.ltb (e_ts (snd a)) (e_ts (snd b))
         else if N.eqb ta tb && Nat.eqb ia ib then N.eqb (e_ts (snd a)) (e_ts (snd b))
         else true
     | _, _ => true end) e) e.

Definition check_C03 (c : case) : bool :=
  forallb (fun ch => chan_ok 0 (on_chan ch (c_out c))) (chans_of (c_out c))
  && forallb (stream_order_ok c) (streams (c_labels c)).

Definition mismatches (l : list (N * case)) : list N := failing_ids agrees l.
Definition checkfails (l : list (N * case)) : list N := failing_ids check_C03 l.
Definition knownclass (l : list (N * case)) : list (N * N) := [].
