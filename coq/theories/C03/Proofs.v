(* C03 — proofs: the channel clock invariant over every history of the reader model, and soundness of the checker *)
From Coq Require Import List String NArith ZArith Bool Arith Lia Permutation Sorting.Sorted.
From Verif Require Import Base.Util Reader.Model Reader.Script Reader.Proofs C03.Check.
From Verif Require Import Reader.Forget.
Import ListNotations.
Local Open Scope string_scope.
Local Open Scope N_scope.

(* ---------- what the property says of the packs of one downstream channel ---------- *)
(* a pack ends with a tick that bounds its non-tick messages from above *)
Definition closed (pk : epack) : Prop :=
  exists body tk, ep_msgs pk = (body ++ [tk])%list /\ e_kind tk = KTick
                  /\ forall d, In d body -> e_kind d <> KTick -> e_ts d <= e_ts tk /\ e_posts d = e_ts d.
(* [pi] was emitted before [pj] on the same channel *)
Definition before (pi pj : epack) : Prop :=
  last_ts pi <= last_ts pj /\ forall d, In d (ep_msgs pj) -> e_kind d <> KTick -> last_ts pi < e_ts d.
(* a pack that carries data: begin / end / position times agree with the messages *)
Definition nontick (e : emsg) : bool := negb (mkind_eqb (e_kind e) KTick).
Definition times_agree (pk : epack) : Prop :=
  forall first rest, filter nontick (ep_msgs pk) = first :: rest ->
    ep_begin pk = e_ts first /\ ep_end pk = e_ts (last rest first) /\ ep_end pk <= last_ts pk /\ ep_endposts pk = ep_end pk.

Definition chan_inv (s : st) (ch : string) : Prop :=
  let c := clock_of s ch in
  lts c <= cts c
  /\ Forall (fun pk => last_ts pk <= lts c /\ closed pk /\ times_agree pk) (on_chan ch (out s))
  /\ StronglySorted before (on_chan ch (out s)).
Definition CInv (s : st) : Prop := forall ch, chan_inv s ch.

(* ---------- frames ---------- *)
Lemma clock_of_ext s s' ch : clocks s' = clocks s -> clock_of s' ch = clock_of s ch.
Proof. unfold clock_of. intros ->. reflexivity. Qed.

Lemma CInv_same s s' :
  (forall ch, cts (clock_of s' ch) = cts (clock_of s ch) /\ lts (clock_of s' ch) = lts (clock_of s ch)) ->
  out s' = out s -> CInv s -> CInv s'.
Proof.
  intros Hc Ho I ch. destruct (I ch) as [I1 [I2 I3]]. destruct (Hc ch) as [C1 C2]. unfold chan_inv. rewrite Ho, C1, C2. auto.
Qed.

Lemma CInv_ext s s' : clocks s' = clocks s -> out s' = out s -> CInv s -> CInv s'.
Proof. intros Hc Ho. apply CInv_same; [|exact Ho]. intros ch. rewrite (clock_of_ext s s' ch Hc). split; reflexivity. Qed.

Lemma CInv_collect s ch t : t <> maxu -> CInv s -> CInv (set_clock s ch (collect (clock_of s ch) t)).
Proof.
  intros Ht I ch'. destruct (I ch') as [I1 [I2 I3]]. unfold chan_inv.
  destruct (String.eqb_spec ch ch') as [<-|Hne].
  - rewrite clock_of_set. destruct (collect_spec (clock_of s ch) t Ht) as [C1 [C2 _]]. rewrite C1, C2. cbn [out set_clock].
    split; [lia|]. split; assumption.
  - rewrite (clock_of_set_other s ch _ ch' Hne). cbn [out set_clock]. split; [assumption|]. split; assumption.
Qed.

(* ---------- a pack that meets [pack_spec] ---------- *)
Lemma pack_nontick ch label msgs l0 pk : pack_spec ch label msgs l0 pk ->
  exists data tk opening, ep_msgs pk = (opening ++ data ++ [tk])%list /\ e_kind tk = KTick /\ last_ts pk = e_ts tk /\ l0 <= e_ts tk
    /\ (forall d, In d (ep_msgs pk) -> e_kind d <> KTick -> In d data)
    /\ Forall (fun o => e_kind o = KTick) opening /\ Forall2 same_but_time msgs data
    /\ Forall (fun d => l0 < e_ts d /\ e_ts d <= e_ts tk /\ e_posts d = e_ts d) data
    /\ (data <> [] -> ep_begin pk = e_ts (hd tk data) /\ ep_end pk = e_ts (last data tk) /\ ep_end pk = e_ts tk /\ ep_endposts pk = ep_end pk).
Proof.
  intros [_ _ [opening [data [tk [E [Fo [F2 [Kt [_ [Hl [Fd Hd]]]]]]]]]]].
  exists data, tk, opening. split; [exact E|]. split; [exact Kt|].
  split. { unfold last_ts. rewrite E, app_assoc, last_snoc. reflexivity. }
  split; [exact Hl|]. split; [|split; [eapply Forall_impl; [|exact Fo]; intros x [K _]; exact K|split; [exact F2|split; assumption]]].
  intros d Hin Hk. rewrite E in Hin. apply in_app_or in Hin. destruct Hin as [Hin|Hin].
  - rewrite Forall_forall in Fo. destruct (Fo d Hin) as [K _]. congruence.
  - apply in_app_or in Hin. destruct Hin as [Hin|[<-|[]]]; [exact Hin|congruence].
Qed.

Lemma nontick_true e : nontick e = true <-> e_kind e <> KTick.
Proof. unfold nontick. destruct (e_kind e); cbn; split; intros; congruence. Qed.

Lemma filter_all {A} (f : A -> bool) l : Forall (fun x => f x = true) l -> filter f l = l.
Proof. induction 1 as [|x l H _ IH]; cbn; [reflexivity|]. rewrite H, IH. reflexivity. Qed.
Lemma filter_none {A} (f : A -> bool) l : Forall (fun x => f x = false) l -> filter f l = [].
Proof. induction 1 as [|x l H _ IH]; cbn; [reflexivity|]. rewrite H, IH. reflexivity. Qed.
Lemma last_cons_default {A} (x : A) r d : last (x :: r) d = last r x.
Proof. revert x d. induction r as [|y r IH]; intros x d; [reflexivity|]. change (last (x :: y :: r) d) with (last (y :: r) d). rewrite !IH. reflexivity. Qed.

Lemma on_chan_app ch l1 l2 : on_chan ch (l1 ++ l2) = (on_chan ch l1 ++ on_chan ch l2)%list.
Proof. unfold on_chan. apply filter_app. Qed.

(* the begin of a data pack is the time of its first message, which the sort of [reset_pack] makes the smallest: kept as part of pack_spec's
   monotone data times; here only [begin <= every data time] is needed and it follows from begin = hd and data times being all > l0 ... *)

Lemma CInv_emit s ch label b e msgs need :
  CInv s -> b <= cts (clock_of s ch) -> cts (clock_of s ch) + N.of_nat (List.length msgs) + 1 < maxu ->
  Forall (fun m => e_kind m <> KTick) msgs ->
  CInv (emit s ch label b e msgs need).
Proof.
  intros I Hb Hw Hs ch'. pose proof (I ch) as [I1 [I2 I3]].
  destruct (emit_spec s ch label b e msgs need I1 Hb Hw) as [_ [_ [_ [_ [_ [_ [_ [_ [_ [Hoth [Hlc [Hmono Hcases]]]]]]]]]]]].
  destruct (String.eqb_spec ch ch') as [<-|Hne].
  - unfold chan_inv. split; [exact Hlc|].
    destruct Hcases as [[Ho Hl]|[pk [Ho [Hp Hl]]]].
    + rewrite Ho, Hl. split; assumption.
    + rewrite Ho, on_chan_app.
      assert (Hon : on_chan ch [pk] = [pk]).
      { unfold on_chan. cbn [filter]. destruct Hp as [[-> _] _ _]. rewrite String.eqb_refl. reflexivity. }
      rewrite Hon.
      destruct (pack_nontick ch label msgs _ pk Hp) as [data [tk [opening [E [Kt [Hlast [Hl0 [Hnt [Fo [F2 [Fd Hd]]]]]]]]]]].
      assert (Hfilter : filter nontick (ep_msgs pk) = data).
      { rewrite E. rewrite !filter_app. rewrite (filter_none nontick opening).
        2:{ eapply Forall_impl; [|exact Fo]. intros x K. unfold nontick. rewrite K. reflexivity. }
        cbn [filter app]. replace (nontick tk) with false by (unfold nontick; rewrite Kt; reflexivity). rewrite app_nil_r.
        apply filter_all. clear - F2 Hs. induction F2 as [|x y l l' R _ IH]; [constructor|]. inversion Hs; subst. constructor; [|apply IH; assumption].
        destruct R as [R _]. apply nontick_true. rewrite <- R. assumption. }
      rewrite Forall_forall in Fd.
      split.
      * apply Forall_app. split.
        -- eapply Forall_impl; [|exact I2]. intros pk0 [A B]. split; [lia|exact B].
        -- constructor; [|constructor]. split; [lia|]. split.
           ++ exists (opening ++ data)%list, tk. split; [rewrite E, app_assoc; reflexivity|]. split; [exact Kt|].
              intros d Hin Hk. assert (Hin' : In d (ep_msgs pk)) by (rewrite E, app_assoc; apply in_or_app; left; exact Hin).
              destruct (Fd d (Hnt d Hin' Hk)) as [_ [A B]]. split; assumption.
           ++ intros first rest Hf. rewrite Hfilter in Hf.
              assert (Hne : data <> []) by (rewrite Hf; discriminate).
              destruct (Hd Hne) as [Hb1 [He1 [He2 He3]]]. rewrite Hf in Hb1, He1. cbn [hd] in Hb1. rewrite last_cons_default in He1.
              rewrite Hlast. split; [exact Hb1|]. split; [exact He1|]. split; [rewrite He2; lia|exact He3].
      * apply sorted_snoc; [exact I3|]. rewrite Forall_forall in I2 |- *. intros p0 Hp0. destruct (I2 p0 Hp0) as [A _].
        split; [lia|]. intros d Hin Hk. destruct (Fd d (Hnt d Hin Hk)) as [B _]. lia.
  - specialize (Hoth ch' Hne). unfold chan_inv. rewrite Hoth.
    assert (Hon : on_chan ch' (out (emit s ch label b e msgs need)) = on_chan ch' (out s)).
    { destruct Hcases as [[Ho _]|[pk [Ho [Hp _]]]]; [rewrite Ho; reflexivity|]. rewrite Ho, on_chan_app.
      destruct Hp as [[Hc _] _ _]. unfold on_chan at 2. cbn [filter]. rewrite Hc.
      destruct (String.eqb_spec ch ch'); [contradiction|]. apply app_nil_r. }
    rewrite Hon. exact (I ch').
Qed.

(* ---------- every label preserves the invariant ---------- *)
Lemma fold_left_pres {A B C} (f : A -> B -> A) (P : A -> C) : (forall s x, P (f s x) = P s) -> forall l s, P (fold_left f l s) = P s.
Proof. intros H l. induction l as [|x l IH]; intros s; cbn; [reflexivity|]. rewrite IH. apply H. Qed.

Lemma fire_cbars_frame s : clocks (fire_cbars s) = clocks s /\ out (fire_cbars s) = out s.
Proof.
  unfold fire_cbars. split.
  - apply (fold_left_pres _ clocks). intros s0 [c b]. destruct (_ && _); reflexivity.
  - apply (fold_left_pres _ out). intros s0 [c b]. destruct (_ && _); reflexivity.
Qed.
Lemma fire_pbars_frame s : clocks (fire_pbars s) = clocks s /\ out (fire_pbars s) = out s.
Proof.
  unfold fire_pbars. split.
  - apply (fold_left_pres _ clocks). intros s0 [[c p] b]. destruct (_ && _); reflexivity.
  - apply (fold_left_pres _ out). intros s0 [[c p] b]. destruct (_ && _); reflexivity.
Qed.

Lemma CInv_fire0 s : CInv s -> CInv (fire_pbars (fire_cbars s)).
Proof.
  intros I. destruct (fire_cbars_frame s) as [A B]. destruct (fire_pbars_frame (fire_cbars s)) as [C D].
  apply (CInv_ext s); [congruence|congruence|exact I].
Qed.
Lemma CInv_fire l b s : CInv s -> CInv (forget_fired l b (fire_pbars (fire_cbars s))).
Proof.
  intros I. pose proof (forget_fired_frame l b (fire_pbars (fire_cbars s))) as F. unfold same_but_heap in F.
  apply (CInv_ext (fire_pbars (fire_cbars s))); [apply F | apply F | now apply CInv_fire0].
Qed.

(* ---------- how the clocks move ---------- *)
(* [rel]: the output and the last-tick times stay, the channel times may rise; [adv]: the channel times do not fall *)
Lemma CInv_adv s s' :
  (forall ch, lts (clock_of s' ch) = lts (clock_of s ch) /\ cts (clock_of s ch) <= cts (clock_of s' ch)) -> out s' = out s -> CInv s -> CInv s'.
Proof.
  intros Hc Ho I ch. destruct (I ch) as [I1 [I2 I3]]. destruct (Hc ch) as [C1 C2]. unfold chan_inv. rewrite Ho, C1. split; [lia|]. split; assumption.
Qed.
Definition rel (s s' : st) : Prop :=
  (forall ch, lts (clock_of s' ch) = lts (clock_of s ch) /\ cts (clock_of s ch) <= cts (clock_of s' ch)) /\ out s' = out s.
Definition adv (s s' : st) : Prop := forall ch, cts (clock_of s ch) <= cts (clock_of s' ch).

Lemma rel_refl s : rel s s. Proof. split; [intros ch; split; [reflexivity|lia]|reflexivity]. Qed.
Lemma rel_trans a b c : rel a b -> rel b c -> rel a c.
Proof. intros [H1 O1] [H2 O2]. split; [|congruence]. intros ch. destruct (H1 ch), (H2 ch). split; [congruence|lia]. Qed.
Lemma rel_ext s s' : clocks s' = clocks s -> out s' = out s -> rel s s'.
Proof. intros Ec Eo. split; [|exact Eo]. intros ch. rewrite (clock_of_ext s s' ch Ec). split; [reflexivity|lia]. Qed.
Lemma rel_adv s s' : rel s s' -> adv s s'. Proof. intros [H _] ch. apply H. Qed.
Lemma adv_refl s : adv s s. Proof. intros ch. lia. Qed.
Lemma adv_trans a b c : adv a b -> adv b c -> adv a c.
Proof. intros H1 H2 ch. specialize (H1 ch). specialize (H2 ch). lia. Qed.
Lemma CInv_rel s s' : rel s s' -> CInv s -> CInv s'.
Proof. intros [H O]. apply CInv_adv; assumption. Qed.

Lemma rel_collect s ch t : t <> maxu -> rel s (set_clock s ch (collect (clock_of s ch) t)).
Proof.
  intros Ht. split; [|reflexivity]. intros ch'. destruct (String.eqb_spec ch ch') as [<-|N].
  - rewrite clock_of_set. destruct (collect_spec (clock_of s ch) t Ht) as [C1 [C2 _]]. rewrite C1, C2. split; [reflexivity|lia].
  - rewrite (clock_of_set_other s ch _ ch' N). split; [reflexivity|lia].
Qed.
(* a seek time of 2^64-1 stands for "no position": the clock is left alone *)
Lemma collect_any c t : lts (collect c t) = lts c /\ cts c <= cts (collect c t).
Proof.
  destruct (N.eq_dec t maxu) as [->|Ht]; [unfold collect, maxu; cbn; split; [reflexivity|lia]|].
  destruct (collect_spec c t Ht) as [C1 [C2 _]]. rewrite C1, C2. split; [reflexivity|lia].
Qed.
Lemma rel_set_raise s ch k : lts k = lts (clock_of s ch) -> cts (clock_of s ch) <= cts k -> rel s (set_clock s ch k).
Proof.
  intros L C. split; [|reflexivity]. intros ch'. destruct (String.eqb_spec ch ch') as [<-|N].
  - rewrite clock_of_set. split; assumption.
  - rewrite (clock_of_set_other s ch _ ch' N). split; [reflexivity|lia].
Qed.
Lemma rel_collect_any s ch t : rel s (set_clock s ch (collect (clock_of s ch) t)).
Proof. destruct (collect_any (clock_of s ch) t) as [L C]. apply rel_set_raise; assumption. Qed.

Lemma start_handler_rel s src tgt recs z : rel s (start_handler s src tgt recs z).
Proof.
  unfold start_handler. set (k := collect (clock_of s tgt) z). set (ck := {| cts := cts k; lts := lts k; gate := true |}).
  destruct (collect_any (clock_of s tgt) z) as [L C]. fold k in L, C.
  eapply rel_trans; [apply (rel_set_raise s tgt ck); [exact L|exact C]|]. apply rel_ext; reflexivity.
Qed.

Lemma add_shard_rel s c ref sh : rel s (add_shard s c ref sh).
Proof.
  unfold add_shard. destruct (hlookup s _) as [h|].
  - eapply rel_trans; [apply (rel_collect_any s (h_tgt h) (seek_of c (sh_spch sh)))|]. apply rel_ext; reflexivity.
  - destruct (Manager.has_handler _ _); [apply rel_ext; reflexivity|].
    destruct (alookup _ _); [|apply rel_ext; reflexivity].
    eapply rel_trans; [|apply start_handler_rel]. apply rel_ext; reflexivity.
Qed.
Lemma add_shard_out s c ref sh : out (add_shard s c ref sh) = out s.
Proof. apply add_shard_rel. Qed.

Lemma fold_rel {A} (f : st -> A -> st) : (forall s x, rel s (f s x)) -> forall l s, rel s (fold_left f l s).
Proof. intros H l. induction l as [|x l IH]; intros s; cbn [fold_left]; [apply rel_refl|]. eapply rel_trans; [apply H|apply IH]. Qed.

Lemma materialise_rel s : rel s (materialise s).
Proof.
  unfold materialise. apply fold_rel. intros s0 k0. destruct (alookup _ _); [|apply rel_refl].
  destruct (Manager.find_handler _ _) as [mh|]; [|apply rel_refl].
  eapply rel_trans; [apply start_handler_rel|].
  eapply rel_trans; [apply (fold_rel (fun s w => set_clock s (Manager.h_tgt mh) (collect (clock_of s (Manager.h_tgt mh)) (ws_seek w)))); intros sx wx; apply rel_collect_any|].
  apply rel_ext; reflexivity.
Qed.
Lemma settle_rel s : rel s (settle s).
Proof. unfold settle. eapply rel_trans; [|apply materialise_rel]. apply rel_ext; reflexivity. Qed.

Lemma start_coll_rel c ref shards s : rel s (settle (fold_left (fun s sh => add_shard s c ref sh) shards s)).
Proof. eapply rel_trans; [apply (fold_rel (fun s sh => add_shard s c ref sh)); intros s0 sh; apply add_shard_rel|apply settle_rel]. Qed.

Definition feed_safe (s : st) (l : label) : Prop :=
  match l with
  | Feed _ _ _ p _ => repair_begin p <> maxu
                      /\ forall ch, N.max (cts (clock_of s ch)) (repair_begin p) + N.of_nat (List.length (p_msgs p)) + 1 < maxu
  | _ => True end.

Lemma sort_msgs_length l : List.length (sort_msgs l) = List.length l.
Proof. apply Permutation_length, sort_perm. Qed.

Lemma eins_perm x rp : Permutation (eins x rp) (x :: rp).
Proof.
  induction rp as [|y r IH]; cbn [eins]; [reflexivity|]. destruct (eless x y); [|reflexivity].
  rewrite IH. apply perm_swap.
Qed.
Lemma fold_eins_perm l : forall acc, Permutation (fold_left (fun rp x => eins x rp) l acc) (l ++ acc).
Proof.
  induction l as [|x l IH]; intros acc; cbn [fold_left app]; [reflexivity|]. rewrite IH, eins_perm. symmetry. apply Permutation_middle.
Qed.
Lemma sort_emsgs_perm l : Permutation (sort_emsgs l) l.
Proof. unfold sort_emsgs. rewrite <- Permutation_rev, fold_eins_perm, app_nil_r. reflexivity. Qed.

Lemma step_CInv retries s l : CInv s -> feed_safe s l -> CInv (step retries s l).
Proof.
  intros I Hsafe. unfold step. apply CInv_fire. destruct l as [c|c pid pname th|c cname spch p answers|cs|c spchs|ns nt].
  - (* StartColl *)
    destruct (zmem _ _); [exact I|]. destruct (zlookup _ _); [exact I|]. destruct (pairing c) as [shards|]; [|exact I].
    apply (CInv_rel _ _ (start_coll_rel _ _ _ _)). apply (CInv_ext s); [reflexivity|reflexivity|exact I].
  - (* AddPart *)
    apply (CInv_ext s); [| |exact I]; repeat dm; reflexivity.
  - (* Feed *)
    cbn [feed_safe] in Hsafe. destruct Hsafe as [Hb Hw].
    destruct (hlookup s spch) as [h|]; [|exact I].
    set (begin := repair_begin p) in *.
    set (s0 := set_clock s (h_tgt h) (collect (clock_of s (h_tgt h)) begin)).
    assert (I0 : CInv s0) by (apply CInv_collect; assumption).
    assert (Hc0 : forall ch, cts (clock_of s0 ch) <= N.max (cts (clock_of s ch)) begin /\ (ch = h_tgt h -> begin <= cts (clock_of s0 ch))).
    { intros ch. unfold s0. destruct (String.eqb_spec (h_tgt h) ch) as [<-|Hne].
      - rewrite clock_of_set. destruct (collect_spec (clock_of s (h_tgt h)) begin Hb) as [-> _]. split; [lia|intros _; lia].
      - rewrite (clock_of_set_other _ _ _ _ Hne). split; [lia|]. intros ->. contradiction. }
    set (a0 := {| a_st := s0; a_h := h; a_first := None; a_out := []; a_need := false; a_fwd := None; a_ans := answers; a_cname := "" |}).
    pose proof (all_msgs_frame retries (sort_msgs (p_msgs p)) a0) as Fr.
    pose proof (all_msgs_out retries (sort_msgs (p_msgs p)) a0) as Fo.
    destruct (all_msgs retries a0 (sort_msgs (p_msgs p))) as [s1|a].
    + destruct Fr as [A B]. apply (CInv_ext s0); [exact A|exact B|exact I0].
    + destruct Fr as [A B]. cbn [a_st a0] in A, B. destruct Fo as [L K]. cbn [a_out a0 List.length] in L, K. rewrite sort_msgs_length in L.
      specialize (K (Forall_nil _)).
      match goal with |- CInv (match a_fwd a with Some tgt => match find ?f (handlers ?s1') with _ => _ end | None => _ end) => set (s1 := s1') end.
      assert (I1 : CInv s1) by (apply (CInv_ext s0); [exact A|exact B|exact I0]).
      assert (Hc1 : forall ch, clock_of s1 ch = clock_of s0 ch) by (intros ch; apply clock_of_ext; exact A).
      destruct (a_fwd a) as [tgt|].
      * destruct (find _ (handlers s1)); [|apply (CInv_ext s1); [reflexivity|reflexivity|exact I1]].
        assert (I2 : CInv (set_clock s1 tgt (collect (clock_of s1 tgt) begin))) by (apply CInv_collect; assumption).
        apply CInv_emit; [exact I2| | |].
        -- rewrite clock_of_set. destruct (collect_spec (clock_of s1 tgt) begin Hb) as [-> _]. lia.
        -- rewrite clock_of_set. destruct (collect_spec (clock_of s1 tgt) begin Hb) as [-> _]. rewrite Hc1.
           rewrite (Permutation_length (sort_emsgs_perm (a_out a))). specialize (Hw tgt). destruct (Hc0 tgt) as [Q _]. lia.
        -- eapply Permutation_Forall; [symmetry; apply sort_emsgs_perm|exact K].
      * apply CInv_emit; [exact I1| | |].
        -- rewrite Hc1. destruct (Hc0 (h_tgt h)) as [_ Q]. apply Q. reflexivity.
        -- rewrite Hc1, map_length. specialize (Hw (h_tgt h)). destruct (Hc0 (h_tgt h)) as [Q _]. lia.
        -- apply Forall_map. cbn [e_kind]. exact K.
  - apply (CInv_ext s); [reflexivity|reflexivity|exact I].
  - apply (CInv_ext s); [reflexivity|reflexivity|exact I].
  - (* Config *) destruct (handlers s); [|exact I]. destruct (wsh s); [|exact I]. destruct (Manager.g_hs (mg s)); [|exact I].
    apply (CInv_ext s); [reflexivity|reflexivity|exact I].
Qed.

Fixpoint safe (retries : nat) (s : st) (ls : list label) : Prop :=
  match ls with [] => True | l :: r => feed_safe s l /\ safe retries (step retries s l) r end.

Lemma CInv_init : CInv init.
Proof. intros ch. unfold chan_inv, clock_of. cbn. split; [lia|]. split; constructor. Qed.

Lemma run_CInv retries : forall ls s, CInv s -> safe retries s ls -> CInv (fold_left (step retries) ls s).
Proof.
  induction ls as [|l r IH]; intros s I S; cbn [fold_left]; [exact I|]. destruct S as [S1 S2]. apply IH; [|exact S2]. apply step_CInv; assumption.
Qed.

(* ---------- the checker is sound: what it accepts is what the invariant says ---------- *)
Lemma closing_some p t : closing p = Some t -> exists body, ep_msgs p = (body ++ [t])%list /\ e_kind t = KTick /\ last_ts p = e_ts t.
Proof.
  unfold closing. destruct (rev (ep_msgs p)) as [|e r] eqn:E; [discriminate|].
  destruct (mkind_eqb (e_kind e) KTick) eqn:K; [|discriminate]. intros H; injection H as <-.
  exists (rev r). assert (E2 : ep_msgs p = (rev r ++ [e])%list) by (rewrite <- (rev_involutive (ep_msgs p)), E; reflexivity).
  split; [exact E2|]. split; [destruct (e_kind e); cbn in K; congruence|]. unfold last_ts. rewrite E2, last_snoc. reflexivity.
Qed.

Definition after (prev : N) (pk : epack) : Prop :=
  prev <= last_ts pk /\ (forall d, In d (ep_msgs pk) -> e_kind d <> KTick -> prev < e_ts d) /\ closed pk.

Lemma pack_time_ok_sound prev p t : pack_time_ok prev p = Some t -> t = last_ts p /\ after prev p.
Proof.
  unfold pack_time_ok. destruct (closing p) as [tk|] eqn:C; [|discriminate]. destruct (closing_some p tk C) as [body [E [K L]]].
  match goal with |- (if ?c then _ else _) = _ -> _ => destruct c eqn:Hc; [|discriminate] end.
  intros H; injection H as <-. split; [symmetry; exact L|].
  apply andb_prop in Hc. destruct Hc as [Hc _]. apply andb_prop in Hc. destruct Hc as [H1 H2].
  apply N.leb_le in H1. rewrite forallb_forall in H2.
  assert (Hd : forall d, In d (ep_msgs p) -> e_kind d <> KTick -> prev < e_ts d /\ e_ts d <= e_ts tk /\ e_posts d = e_ts d).
  { intros d Hin Hk. specialize (H2 d). rewrite filter_In in H2. specialize (H2 (conj Hin (proj2 (nontick_true d) Hk))).
    apply andb_prop in H2. destruct H2 as [H2 H3]. apply andb_prop in H2. destruct H2 as [H2 H4].
    apply N.ltb_lt in H2. apply N.leb_le in H4. apply N.eqb_eq in H3. repeat split; assumption. }
  split; [rewrite L; exact H1|]. split; [intros d Hin Hk; apply Hd; assumption|].
  exists body, tk. split; [exact E|]. split; [exact K|]. intros d Hin Hk.
  assert (Hin' : In d (ep_msgs p)) by (rewrite E; apply in_or_app; left; exact Hin). destruct (Hd d Hin' Hk) as [_ [A B]]. split; assumption.
Qed.

Lemma chan_ok_sound : forall l prev, chan_ok prev l = true -> Forall (after prev) l /\ StronglySorted before l.
Proof.
  induction l as [|p r IH]; intros prev H; [split; constructor|]. cbn [chan_ok] in H.
  destruct (pack_time_ok prev p) as [t|] eqn:P; [|discriminate]. destruct (pack_time_ok_sound prev p t P) as [-> A].
  destruct (IH _ H) as [F S]. split.
  - constructor; [exact A|]. eapply Forall_impl; [|exact F]. intros q [Q1 [Q2 Q3]]. destruct A as [A1 _].
    split; [lia|]. split; [|exact Q3]. intros d Hin Hk. specialize (Q2 d Hin Hk). lia.
  - constructor; [exact S|]. eapply Forall_impl; [|exact F]. intros q [Q1 [Q2 _]]. split; assumption.
Qed.

(* order inside one retimed pack: equal source times stay equal, earlier stays strictly earlier *)
Lemma reset_keeps_order msgs b e newts m' b' e' :
  apply_reset msgs b e newts = Some (m', b', e') -> StronglySorted N.le (map e_ts msgs) ->
  forall i j x y x' y', (i < j)%nat -> nth_error msgs i = Some x -> nth_error msgs j = Some y ->
    nth_error m' i = Some x' -> nth_error m' j = Some y' ->
    (e_ts x = e_ts y -> e_ts x' = e_ts y') /\ (e_ts x < e_ts y -> e_ts x' < e_ts y').
Proof.
  intros R S i j x y x' y' Lt Nx Ny Nx' Ny'.
  destruct (apply_reset_some _ _ _ _ _ _ _ R) as [_ [_ [_ [_ [_ [_ [_ [_ [M _]]]]]]]]].
  assert (Tx : nth_error (map e_ts m') i = Some (e_ts x')) by (rewrite nth_error_map, Nx'; reflexivity).
  assert (Ty : nth_error (map e_ts m') j = Some (e_ts y')) by (rewrite nth_error_map, Ny'; reflexivity).
  rewrite M in Tx, Ty. rewrite nth_error_map in Tx, Ty.
  destruct (nth_error (deltas 0 0 0 true (map e_ts msgs)) i) as [di|] eqn:Di; [|discriminate].
  destruct (nth_error (deltas 0 0 0 true (map e_ts msgs)) j) as [dj|] eqn:Dj; [|discriminate].
  cbn in Tx, Ty. injection Tx as Tx. injection Ty as Ty.
  assert (Sx : nth_error (map e_ts msgs) i = Some (e_ts x)) by (rewrite nth_error_map, Nx; reflexivity).
  assert (Sy : nth_error (map e_ts msgs) j = Some (e_ts y)) by (rewrite nth_error_map, Ny; reflexivity).
  destruct (deltas_order (map e_ts msgs) 0 0 0 true ltac:(discriminate) S i j _ _ _ _ Lt Sx Sy Di Dj) as [A B].
  split; intros Hxy; [specialize (A Hxy)|specialize (B Hxy)]; lia.
Qed.

(* ---------- a decidable form of the no-wrap premise ---------- *)
Definition clock_bound (s : st) : N := fold_right N.max 0 (map (fun kc => cts (snd kc)) (clocks s)).
Lemma clock_le_bound s ch : cts (clock_of s ch) <= clock_bound s.
Proof.
  unfold clock_of, clock_bound. induction (clocks s) as [|[k c] r IH]; cbn [alookup map fold_right snd]; [cbn; lia|].
  destruct (String.eqb ch k); [lia|]. destruct (alookup r ch); cbn [cts] in *; lia.
Qed.
Definition feed_safeb (s : st) (l : label) : bool :=
  match l with
  | Feed _ _ _ p _ => negb (N.eqb (repair_begin p) maxu)
                      && N.ltb (N.max (clock_bound s) (repair_begin p) + N.of_nat (List.length (p_msgs p)) + 1) maxu
  | _ => true end.
Fixpoint safeb (retries : nat) (s : st) (ls : list label) : bool :=
  match ls with [] => true | l :: r => feed_safeb s l && safeb retries (step retries s l) r end.
Lemma safeb_sound retries : forall ls s, safeb retries s ls = true -> safe retries s ls.
Proof.
  induction ls as [|l r IH]; intros s H; cbn [safe safeb] in *; [exact I|]. apply andb_prop in H. destruct H as [H1 H2].
  split; [|apply IH; exact H2]. destruct l; cbn [feed_safe feed_safeb] in *; try exact I.
  apply andb_prop in H1. destruct H1 as [A B]. apply negb_true_iff in A. apply N.eqb_neq in A. apply N.ltb_lt in B.
  split; [exact A|]. intros ch. pose proof (clock_le_bound s ch). lia.
Qed.

(* ---- resume: the floor of a restarted channel clock ---- *)
From Verif Require Server.Data Server.DataProofs.
(* a hybrid time of millisecond ms: ms * 2^18 + logical part *)
Lemma resume_floor_above (ms l : Z) : (0 <= l < 262144)%Z -> (ms * 262144 + l < Server.Data.compose_ts (ms + 1))%Z.
Proof. unfold Server.Data.compose_ts. intros H. Lia.lia. Qed.
(* every seek position that a (re)start of the server data path hands to the reader lies above every hybrid time of the
   checkpoint's millisecond *)
Lemma resume_seeks_above streams s which :
  let s' := Server.Data.reset_next streams s which in
  exists new, Server.Data.seeks s' = (Server.Data.seeks s ++ new)%list
    /\ forall k id ts, In (k, (id, ts)) new ->
         exists p, Server.Data.nlookup (Server.Data.store s) k = Some p /\ id = Server.Data.ps_id p
                   /\ forall l, (0 <= l < 262144)%Z -> (Server.Data.ps_ms p * 262144 + l < ts)%Z.
Proof.
  cbn zeta. destruct (Server.DataProofs.reset_next_seeks streams s which) as (_ & _ & _ & new & E & H).
  exists new. split; [exact E|]. intros k id ts Hin. destruct (H k id ts Hin) as (p & L & I & T).
  exists p. repeat split; try assumption. intros l Hl. rewrite T. apply resume_floor_above. exact Hl.
Qed.
(* without the compensating millisecond the floor is not above the times already emitted *)
Lemma resume_floor_without_ms_refuted : exists ms l : Z, (0 <= l < 262144)%Z /\ ~ (ms * 262144 + l < Server.Data.compose_ts ms)%Z.
Proof. exists 1000%Z, 1%Z. unfold Server.Data.compose_ts. split; Lia.lia. Qed.
