(* C03, schedules — cases of the schedule-controlled harness (h_reader -mode c03s): packs held at the scheduling points of the
   pipeline while other handlers of the same downstream channel go on.  Model: Reader/Conc.v; the property's checker is the
   one of the sequential cases (chan_ok per downstream channel) *)
From Coq Require Import List String NArith ZArith Bool.
From Verif Require Import Base.Util Reader.Model Reader.Script Reader.Conc C03.Check.
Import ListNotations.
Local Open Scope string_scope.

Definition check_C03s (c : ccase) : bool :=
  forallb (fun ch => chan_ok 0 (on_chan ch (cc_out c))) (chans_of (cc_out c)).

Definition mismatches (l : list (N * ccase)) : list N := failing_ids cagrees l.
Definition checkfails (l : list (N * ccase)) : list N := failing_ids check_C03s l.
Definition knownclass (l : list (N * ccase)) : list (N * N) := [].
