(* C03 — property theorems only (model: Reader/Model.v, proofs: Reader/Proofs.v and C03/Proofs.v) *)
From Coq Require Import List String NArith ZArith Bool Sorting.Sorted.
From Verif Require Import Base.Util Reader.Model Reader.Script Reader.Proofs C03.Check C03.Proofs Reader.Example.
Import ListNotations.
Local Open Scope string_scope.
Local Open Scope N_scope.

(* Every history of the reader model, for all catalogs, label sequences (collections started, partitions added, packs fed on
   any stream in any order, collections dropped or stopped) and partition answers, as long as no clock comes within one pack
   of 2^64-1 ([safe]): on every downstream channel the last-tick time never exceeds the channel clock; every pack on it ends
   with a tick that bounds its data from above and whose position time is its time; begin / end / position times of a pack
   with data agree with its messages; the closing ticks never decrease along the channel and every non-tick message is
   strictly later than the closing tick of every earlier pack of the channel. *)
Theorem C03_every_history : forall retries ls, safe retries init ls ->
  forall ch, let s := run retries ls in
    lts (clock_of s ch) <= cts (clock_of s ch)
    /\ Forall (fun pk => last_ts pk <= lts (clock_of s ch) /\ closed pk /\ times_agree pk) (on_chan ch (out s))
    /\ StronglySorted before (on_chan ch (out s)).
Proof. intros retries ls S ch. exact (run_CInv retries ls init CInv_init S ch). Qed.
Print Assumptions C03_every_history.

(* one label preserves the invariant from any state that has it *)
Theorem C03_step : forall retries s l, CInv s -> feed_safe s l -> CInv (step retries s l).
Proof. exact step_CInv. Qed.
Print Assumptions C03_step.

(* a retimed pack keeps the relative order of its messages: equal stays equal, earlier stays strictly earlier *)
Theorem C03_reset_keeps_order : forall msgs b e newts m' b' e',
  apply_reset msgs b e newts = Some (m', b', e') -> StronglySorted N.le (map e_ts msgs) ->
  forall i j x y x' y', (i < j)%nat -> nth_error msgs i = Some x -> nth_error msgs j = Some y ->
    nth_error m' i = Some x' -> nth_error m' j = Some y' ->
    (e_ts x = e_ts y -> e_ts x' = e_ts y') /\ (e_ts x < e_ts y -> e_ts x' < e_ts y').
Proof. exact reset_keeps_order. Qed.
Print Assumptions C03_reset_keeps_order.

(* the sort of handlePack: a permutation, ordered by source time with deletes before the other kinds among equals *)
Theorem C03_sort : forall l, Permutation.Permutation (sort_msgs l) l /\ StronglySorted ord (sort_msgs l).
Proof. intros l. split; [apply sort_perm|apply sort_sorted]. Qed.
Print Assumptions C03_sort.

(* what the checker accepts on the implementation's own output is what the invariant says *)
Theorem C03_checker_sound : forall l, chan_ok 0 l = true -> Forall (after 0) l /\ StronglySorted before l.
Proof. intros l. apply chan_ok_sound. Qed.
Print Assumptions C03_checker_sound.

Example C03_nonvacuous :
  let s := run 3 ex_labels in
  List.length (out s) = 3%nat
  /\ map (fun pk => map e_ts (ep_msgs pk)) (out s) = [[11; 11; 11; 13; 13]; [20]; [31; 31]]
  /\ check_C03 {| c_retries := 3; c_labels := ex_labels; c_out := out s; c_events := events s; c_out_at := []; c_ev_at := [] |} = true.
Proof. vm_compute. repeat split. Qed.

Example C03_premise_met : safe 3 init ex_labels.
Proof. exact ex_safe. Qed.

(* schedules: cases of h_reader -mode c03s are evaluated with C03.SCheck over the pipeline with scheduling points (Reader/Conc.v) *)
Require Verif.C03.SCheck.
