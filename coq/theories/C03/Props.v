(* C03 — property theorems only (model: Reader/Model.v, proofs: Reader/Proofs.v and C03/Proofs.v) *)
From Coq Require Import List String NArith ZArith Bool Sorting.Sorted.
From Verif Require Server.Data C03.RCheck.
From Verif Require Import Base.Util Reader.Model Reader.Script Reader.Proofs Reader.Conc C03.Check C03.Proofs C03.ConcProofs C03.SCheck Reader.Example.
Import ListNotations.
Local Open Scope string_scope.
Local Open Scope N_scope.

(* Every history of the reader model, for all catalogs, label sequences (collections started, partitions added, packs fed on
   any stream in any order, collections dropped or stopped) and partition answers, as long as no clock comes within one pack
   of 2^64-1 ([safe]): on every downstream channel the last-tick time never exceeds the channel clock; every pack on it ends
   with a tick that bounds its data from above and whose position time is its time; begin / end / position times of a pack
   with data agree with its messages; the closing ticks never decrease along the channel and every non-tick message is
   strictly later than the closing tick of every earlier pack of the channel. *)
Theorem C03_every_history : forall retries ls, safe retries init ls ->
  forall ch, let s := run retries ls in
    lts (clock_of s ch) <= cts (clock_of s ch)
    /\ Forall (fun pk => last_ts pk <= lts (clock_of s ch) /\ closed pk /\ times_agree pk) (on_chan ch (out s))
    /\ StronglySorted before (on_chan ch (out s)).
Proof. intros retries ls S ch. exact (run_CInv retries ls init CInv_init S ch). Qed.
Print Assumptions C03_every_history.

(* Every schedule: the same for every history of the pack pipeline with its scheduling points (Reader/Conc.v) - any pack may be
   held after its content phase, before the channel's time is read, or after it has been shifted, before the channel lock is
   taken, for as long as the other handlers of its downstream channel (and everything else) go on, in any order; the enqueue
   follows the order in which the ticks are drawn (repair 72be994).  No clock within two packs of 2^64-1 ([csafe]). *)
Theorem C03_every_schedule : forall retries ls, csafe retries cinit ls ->
  forall ch, let s := base (crun retries ls) in
    lts (clock_of s ch) <= cts (clock_of s ch)
    /\ Forall (fun pk => last_ts pk <= lts (clock_of s ch) /\ closed pk /\ times_agree pk) (on_chan ch (out s))
    /\ StronglySorted before (on_chan ch (out s)).
Proof. intros retries ls S ch. destruct (crun_KInv retries ls cinit KInv_init S) as [I _]. exact (I ch). Qed.
Print Assumptions C03_every_schedule.

(* the invariant behind it is inductive: one scheduled step keeps it, together with the well-formedness of the parked packs *)
Theorem C03_scheduled_step : forall retries c l, KInv c -> clabel_safe c l -> KInv (cstep retries c l).
Proof. exact cstep_KInv. Qed.
Print Assumptions C03_scheduled_step.

(* one label preserves the invariant from any state that has it *)
Theorem C03_step : forall retries s l, CInv s -> feed_safe s l -> CInv (step retries s l).
Proof. exact step_CInv. Qed.
Print Assumptions C03_step.

(* a retimed pack keeps the relative order of its messages: equal stays equal, earlier stays strictly earlier *)
Theorem C03_reset_keeps_order : forall msgs b e newts m' b' e',
  apply_reset msgs b e newts = Some (m', b', e') -> StronglySorted N.le (map e_ts msgs) ->
  forall i j x y x' y', (i < j)%nat -> nth_error msgs i = Some x -> nth_error msgs j = Some y ->
    nth_error m' i = Some x' -> nth_error m' j = Some y' ->
    (e_ts x = e_ts y -> e_ts x' = e_ts y') /\ (e_ts x < e_ts y -> e_ts x' < e_ts y').
Proof. exact reset_keeps_order. Qed.
Print Assumptions C03_reset_keeps_order.

(* the sort of handlePack: a permutation, ordered by source time with deletes before the other kinds among equals *)
Theorem C03_sort : forall l, Permutation.Permutation (sort_msgs l) l /\ StronglySorted ord (sort_msgs l).
Proof. intros l. split; [apply sort_perm|apply sort_sorted]. Qed.
Print Assumptions C03_sort.

(* what the checker accepts on the implementation's own output is what the invariant says *)
Theorem C03_checker_sound : forall l, chan_ok 0 l = true -> Forall (after 0) l /\ StronglySorted before l.
Proof. intros l. apply chan_ok_sound. Qed.
Print Assumptions C03_checker_sound.

(* across pause / resume or restart: the seek positions built from the persisted checkpoints - the floor of the restarted channel
   clocks - lie above every hybrid time of the checkpoint's millisecond (the checkpoint keeps only the millisecond of the last
   acknowledged pack's end time); dropping the compensating millisecond breaks it *)
Theorem C03_resume_floor : forall streams s which,
  let s' := Server.Data.reset_next streams s which in
  exists new, Server.Data.seeks s' = (Server.Data.seeks s ++ new)%list
    /\ forall k id ts, In (k, (id, ts)) new ->
         exists p, Server.Data.nlookup (Server.Data.store s) k = Some p /\ id = Server.Data.ps_id p
                   /\ forall l, (0 <= l < 262144)%Z -> (Server.Data.ps_ms p * 262144 + l < ts)%Z.
Proof. exact resume_seeks_above. Qed.
Print Assumptions C03_resume_floor.
Theorem C03_resume_floor_without_ms_refuted : exists ms l : Z, (0 <= l < 262144)%Z /\ ~ (ms * 262144 + l < Server.Data.compose_ts ms)%Z.
Proof. exact resume_floor_without_ms_refuted. Qed.
Print Assumptions C03_resume_floor_without_ms_refuted.

Example C03_nonvacuous :
  let s := run 3 ex_labels in
  List.length (out s) = 3%nat
  /\ map (fun pk => map e_ts (ep_msgs pk)) (out s) = [[11; 11; 11; 13; 13]; [20]; [31; 31]]
  /\ check_C03 {| c_retries := 3; c_labels := ex_labels; c_out := out s; c_events := events s; c_out_at := []; c_ev_at := [] |} = true.
Proof. vm_compute. repeat split. Qed.

Example C03_premise_met : safe 3 init ex_labels.
Proof. exact ex_safe. Qed.

(* a pack of collection 1 held before the channel lock while collection 2 (another handler, same downstream channel) emits *)
Definition ex_c2 : collinfo :=
  {| ci_id := 102; ci_name := "c2"; ci_tid := 9102; ci_src := [("s2_v0", "s2")]; ci_tgt := [("t_v1", "t")]; ci_parts := [("_default", 8%Z)]; ci_dropped := false; ci_seek := [] |}.
Definition ex_msg2 (id ts : N) : smsg := {| m_kind := KInsert; m_id := id; m_coll := 102; m_part := 1; m_pname := "_default"; m_ts := ts; m_rows := 1; m_pospch := false |}.
Definition ex_sched : list clabel :=
  [CSeq (Config 2 1); CSeq (StartColl ex_coll); CSeq (StartColl ex_c2);
   CSeq (Feed 101 "c1" "s" {| p_begin := 10; p_end := 20; p_starts := [10]; p_msgs := [ex_msg 1 12] |} []);
   CPark 101 "c1" "s" {| p_begin := 20; p_end := 30; p_starts := [20]; p_msgs := [ex_msg 2 25] |} [] PLock;
   CSeq (Feed 102 "c2" "s2" {| p_begin := 500; p_end := 510; p_starts := [500]; p_msgs := [ex_msg2 3 505] |} []);
   CResume "s"].
Example C03_schedule_nonvacuous :
  csafe 3 cinit ex_sched
  /\ map (fun pk => (ep_coll pk, map e_ts (ep_msgs pk))) (out (base (crun 3 ex_sched))) = [(101%Z, [11; 11; 11]); (102%Z, [501; 501]); (101%Z, [502; 502])]
  /\ check_C03s {| cc_retries := 3; cc_labels := ex_sched; cc_out := out (base (crun 3 ex_sched)); cc_events := [] |} = true.
Proof. split; [apply csafeb_sound; vm_compute; reflexivity|]. vm_compute. split; reflexivity. Qed.
