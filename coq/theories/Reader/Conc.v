(* Reader — the pack pipeline with its scheduling points: a pack can be parked after its content phase, before the channel's
   time is read (point "max"), or after it has been shifted, before the channel lock is taken (point "lock"), while the other
   handlers of the channel go on; the sequential step of Reader/Model.v is the schedule that never parks *)
From Coq Require Import List String NArith ZArith Bool.
From Verif Require Import Base.Util Reader.Model.
Import ListNotations.
Local Open Scope string_scope.

(* what the content phase of a fed pack leaves to be timed and enqueued *)
Inductive fres :=
| FDone (s : st)                                                    (* nothing to emit: no handler, an error, a forward target that is gone *)
| FEmit (s : st) (ch : string) (lab : Z * string * string) (begin e : N) (msgs : list emsg) (need : bool).

Definition feed_content (retries : nat) (s : st) (c : Z) (cname spch : string) (p : spack) (answers : list (option pmap)) : fres :=
  match hlookup s spch with
  | None => FDone s
  | Some h =>
      let begin := repair_begin p in
      let s0 := set_clock s (h_tgt h) (collect (clock_of s (h_tgt h)) begin) in
      let a0 := {| a_st := s0; a_h := h; a_first := None; a_out := []; a_need := false; a_fwd := None; a_ans := answers; a_cname := "" |} in
      match all_msgs retries a0 (sort_msgs (p_msgs p)) with
      | CErr s1 => FDone {| dcolls := dcolls s1; dparts := dparts s1; handlers := handlers s1; clocks := clocks s1; heap := heap s1; cbars := cbars s1;
                            pbars := pbars s1; pbar_handlers := pbar_handlers s1; keymap := keymap s1; out := out s1; events := events s1; alive := alive s1; mg := mg s1; wsh := wsh s1 |}
      | COk a =>
          let s1 := a_st a in
          let s1 := {| dcolls := dcolls s1; dparts := dparts s1; handlers := set_handler s1 (a_h a); clocks := clocks s1; heap := heap s1; cbars := cbars s1;
                       pbars := pbars s1; pbar_handlers := pbar_handlers s1; keymap := keymap s1; out := out s1; events := events s1; alive := alive s1; mg := mg s1; wsh := wsh s1 |} in
          let lab_coll := (c, cname, spch) in
          match a_fwd a with
          | Some tgt =>
              match find (fun h' => String.eqb (h_tgt h') tgt) (handlers s1) with
              | Some _ =>
                  let fl := (match a_first a with Some x => x | None => (-1)%Z end, a_cname a, spch) in
                  let s2 := set_clock s1 tgt (collect (clock_of s1 tgt) begin) in
                  FEmit s2 tgt fl begin (p_end p) (sort_emsgs (a_out a)) (existsb (fun e => mkind_eqb (e_kind e) KDropColl) (a_out a))
              | None => FDone {| dcolls := dcolls s1; dparts := dparts s1; handlers := handlers s1; clocks := clocks s1; heap := heap s1; cbars := cbars s1;
                                 pbars := pbars s1; pbar_handlers := pbar_handlers s1; keymap := keymap s1; out := out s1;
                                 events := (events s1 ++ [EvErr true])%list; alive := alive s1; mg := mg s1; wsh := wsh s1 |}
              end
          | None => FEmit s1 (h_tgt h) lab_coll begin (p_end p)
                          (map (fun e => {| e_kind := e_kind e; e_id := e_id e; e_coll := e_coll e; e_part := e_part e;
                                            e_pname := e_pname e; e_shard := e_shard e; e_poschan := e_poschan e;
                                            e_ts := e_ts e; e_posts := e_posts e; e_rows := e_rows e |}) (a_out a)) (a_need a)
          end
      end
  end.

Definition fire (s : st) : st := fire_pbars (fire_cbars s).

(* PSend: between the channel lock and the enqueue - a point that exists only in trees before the repair C03-enqueue-under-lock;
   in this model (the repaired code) a pack cannot be held there: it completes at once *)
Inductive point := PMax | PLock | PSend.
Inductive parked :=
| PkMax (ch : string) (lab : Z * string * string) (begin e : N) (msgs : list emsg) (need : bool)
| PkLock (ch : string) (lab : Z * string * string) (pend : list emsg * N * N) (need : bool).

Record cst := { base : st; parkedl : list (string * parked) }.     (* at most one parked pack per handler (source channel) *)

Inductive clabel :=
| CSeq (l : label)
| CPark (c : Z) (cname spch : string) (p : spack) (answers : list (option pmap)) (pt : point)
| CResume (spch : string).

Definition cstep (retries : nat) (s : cst) (l : clabel) : cst :=
  match l with
  | CSeq l => {| base := step retries (base s) l; parkedl := parkedl s |}
  | CPark c cname spch p answers pt =>
      match feed_content retries (base s) c cname spch p answers with
      | FDone s' => {| base := fire s'; parkedl := parkedl s |}
      | FEmit s' ch lab b e msgs need =>
          match pt with
          | PMax => {| base := fire s'; parkedl := (parkedl s ++ [(spch, PkMax ch lab b e msgs need)])%list |}
          | PLock => let '(s1, pend) := emit1 s' ch b e msgs in
                     {| base := fire s1; parkedl := (parkedl s ++ [(spch, PkLock ch lab pend need)])%list |}
          | PSend => {| base := fire (emit s' ch lab b e msgs need); parkedl := parkedl s |}
          end
      end
  | CResume spch =>
      match alookup (parkedl s) spch with
      | None => s
      | Some (PkMax ch lab b e msgs need) => {| base := fire (emit (base s) ch lab b e msgs need); parkedl := aremove (parkedl s) spch |}
      | Some (PkLock ch lab pend need) => {| base := fire (emit23 (base s) ch lab pend need); parkedl := aremove (parkedl s) spch |}
      end
  end.

Definition cinit : cst := {| base := init; parkedl := [] |}.
Definition crun (retries : nat) (ls : list clabel) : cst := fold_left (cstep retries) ls cinit.

(* ---------- cases of the schedule-controlled harness ---------- *)
Record ccase := { cc_retries : nat; cc_labels : list clabel; cc_out : list epack; cc_events : list event }.
Definition cagrees (c : ccase) : bool :=
  let m := base (crun (cc_retries c) (cc_labels c)) in
  forallb (fun ch => list_eqb epack_eqb (on_chan ch (out m)) (on_chan ch (cc_out c))) (chans_of (out m ++ cc_out c))
  && Nat.eqb (List.length (events m)) (List.length (cc_events c))
  && forallb (fun e => Nat.eqb (List.length (filter (event_eqb e) (events m))) (List.length (filter (event_eqb e) (cc_events c)))) (events m).
