(* Reader — facts read off a script (label list) and an observed output, shared by the checkers of C01-C04 *)
From Coq Require Import List String NArith ZArith Bool.
From Verif Require Import Base.Util Reader.Model.
Import ListNotations.
Local Open Scope string_scope.

Definition is_data (k : mkind) : bool := match k with KInsert | KDelete | KDropColl | KDropPart | KImport => true | _ => false end.

(* the collections started by the script *)
Definition colls (ls : list label) : list collinfo := flat_map (fun l => match l with StartColl c => [c] | _ => [] end) ls.
Definition coll_by_id (ls : list label) (c : Z) : option collinfo := find (fun ci => Z.eqb (ci_id ci) c) (colls ls).
Definition coll_by_tid (ls : list label) (t : Z) : option collinfo := find (fun ci => Z.eqb (ci_tid ci) t) (colls ls).

(* the shard of a collection that reads source channel spch *)
Definition shard_of (ci : collinfo) (spch : string) : option shard :=
  match pairing ci with Some shs => find (fun sh => String.eqb (sh_spch sh) spch) shs | None => None end.

(* messages fed to stream (c, spch), each with the index of its label, in feed order, each pack sorted *)
Fixpoint fed_from (i : nat) (ls : list label) (c : Z) (spch : string) : list (nat * smsg) :=
  match ls with
  | [] => []
  | Feed c' _ sp p _ :: r =>
      ((if Z.eqb c c' && String.eqb spch sp then map (fun m => (i, m)) (sort_msgs (p_msgs p)) else []) ++ fed_from (S i) r c spch)%list
  | _ :: r => fed_from (S i) r c spch
  end.
Definition fed (ls : list label) (c : Z) (spch : string) : list (nat * smsg) := fed_from 0 ls c spch.

Definition streams (ls : list label) : list (Z * string) :=
  fold_left (fun acc l => match l with
                          | Feed c _ sp _ _ => if existsb (fun x => Z.eqb (fst x) c && String.eqb (snd x) sp) acc then acc else (acc ++ [(c, sp)])%list
                          | _ => acc end) ls [].

(* data messages emitted with the label of stream (c, spch), in output order (with the index of the output pack) *)
Definition emitted (o : list epack) (c : Z) (spch : string) : list (nat * emsg) :=
  flat_map (fun ip => if Z.eqb (ep_coll (snd ip)) c && String.eqb (ep_spch (snd ip)) spch
                      then map (fun e => (fst ip, e)) (filter (fun e => is_data (e_kind e)) (ep_msgs (snd ip))) else [])
           (combine (seq 0 (List.length o)) o).

Definition closing (p : epack) : option emsg := match rev (ep_msgs p) with e :: _ => if mkind_eqb (e_kind e) KTick then Some e else None | [] => None end.
