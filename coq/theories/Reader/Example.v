(* Reader — a small concrete history used by the non-vacuity examples of C01-C04 *)
From Coq Require Import List String NArith ZArith Bool.
From Verif Require Import Base.Util Reader.Model Reader.Script Reader.Proofs C03.Proofs.
Import ListNotations.
Local Open Scope string_scope.
Local Open Scope N_scope.

Definition ex_coll : collinfo :=
  {| ci_id := 101; ci_name := "c1"; ci_tid := 9101; ci_src := [("s_v0", "s")]; ci_tgt := [("t_v0", "t")]; ci_parts := [("_default", 7%Z)]; ci_dropped := false; ci_seek := [] |}.
Definition ex_msg (id ts : N) : smsg := {| m_kind := KInsert; m_id := id; m_coll := 101; m_part := 1; m_pname := "_default"; m_ts := ts; m_rows := 2; m_pospch := false |}.
Definition ex_labels : list label :=
  [StartColl ex_coll;
   Feed 101 "c1" "s" {| p_begin := 10; p_end := 20; p_starts := [10]; p_msgs := [ex_msg 1 12; ex_msg 2 12; ex_msg 3 15] |} [];
   Feed 101 "c1" "s" {| p_begin := 20; p_end := 30; p_starts := [20]; p_msgs := [] |} [];
   Feed 101 "c1" "s" {| p_begin := 30; p_end := 40; p_starts := [30]; p_msgs := [ex_msg 4 33] |} []].

Lemma ex_safe : safe 3 init ex_labels.
Proof. apply safeb_sound. vm_compute. reflexivity. Qed.
