(* Reader — proofs about the sort, the content phase, the timing phase and the barriers of the reader model *)
From Coq Require Import List String NArith ZArith Bool Arith Lia Permutation Sorting.Sorted.
From Verif Require Import Base.Util Reader.Model.
Import ListNotations.
Local Open Scope string_scope.

(* ---------- the sort of handlePack ---------- *)
Lemma ins_perm x rp : Permutation (ins x rp) (x :: rp).
Proof.
  induction rp as [|y r IH]; cbn; [reflexivity|]. destruct (less x y); [|reflexivity].
  rewrite IH. apply perm_swap.
Qed.
Lemma fold_ins_perm l : forall acc, Permutation (fold_left (fun rp x => ins x rp) l acc) (l ++ acc).
Proof.
  induction l as [|x r IH]; intros acc; cbn; [reflexivity|]. rewrite IH. rewrite ins_perm.
  symmetry. apply Permutation_middle.
Qed.
Theorem sort_perm l : Permutation (sort_msgs l) l.
Proof.
  unfold sort_msgs. rewrite <- Permutation_rev. rewrite fold_ins_perm. rewrite app_nil_r. reflexivity.
Qed.

Definition is_del (m : smsg) : bool := mkind_eqb (m_kind m) KDelete.
(* a may stand before b: earlier, or equally timed and not an insert-before-delete *)
Definition ord (a b : smsg) : Prop := (m_ts a < m_ts b)%N \/ (m_ts a = m_ts b /\ (is_del b = true -> is_del a = true)).
Lemma ord_trans a b c : ord a b -> ord b c -> ord a c.
Proof. unfold ord. intros [H1|[H1 D1]] [H2|[H2 D2]]; try (left; lia). right; split; [lia|auto]. Qed.

Lemma less_ord x y : less x y = true -> ord x y.
Proof.
  unfold less, ord. intros H. apply orb_prop in H. destruct H as [H|H].
  - left. apply N.ltb_lt; exact H.
  - apply andb_prop in H. destruct H as [E D]. apply N.eqb_eq in E. right. split; [exact E|]. intros _. exact D.
Qed.
Lemma nless_ord x y : less x y = false -> ord y x.
Proof.
  unfold less, ord. intros H. apply orb_false_iff in H. destruct H as [H1 H2]. apply N.ltb_ge in H1.
  destruct (N.eqb_spec (m_ts x) (m_ts y)) as [E|NE]; [|left; lia].
  right. split; [lia|]. intros D. cbn in H2. unfold is_del in D. rewrite D in H2. discriminate.
Qed.

(* reversed prefix: every later element may stand after every earlier one *)
Lemma ins_sorted x rp : StronglySorted (fun a b => ord b a) rp -> StronglySorted (fun a b => ord b a) (ins x rp).
Proof.
  induction rp as [|y r IH]; cbn; intros H; [repeat constructor|].
  inversion H as [|? ? Hr Hy]; subst. destruct (less x y) eqn:L.
  - constructor; [apply IH; exact Hr|]. apply Forall_forall. intros w Hw.
    apply (Permutation_in _ (ins_perm x r)) in Hw. destruct Hw as [<-|Hw]; [apply less_ord; exact L|].
    rewrite Forall_forall in Hy. apply Hy; exact Hw.
  - constructor; [exact H|]. constructor; [apply nless_ord; exact L|].
    rewrite Forall_forall in *. intros w Hw. apply (ord_trans w y x); [apply Hy; exact Hw|apply nless_ord; exact L].
Qed.
Lemma fold_ins_sorted l : forall acc, StronglySorted (fun a b => ord b a) acc ->
  StronglySorted (fun a b => ord b a) (fold_left (fun rp x => ins x rp) l acc).
Proof. induction l as [|x r IH]; intros acc H; cbn; [exact H|]. apply IH, ins_sorted, H. Qed.

Lemma sorted_snoc {A} (R : A -> A -> Prop) l x : StronglySorted R l -> Forall (fun y => R y x) l -> StronglySorted R (l ++ [x]).
Proof.
  induction l as [|y r IH]; cbn; intros H F; [repeat constructor|].
  inversion H as [|? ? Hr Hy]; subst. inversion F as [|? ? Fy Fr]; subst. constructor; [apply IH; assumption|].
  apply Forall_app; split; [exact Hy|constructor; [exact Fy|constructor]].
Qed.
Lemma sorted_rev {A} (R : A -> A -> Prop) l : StronglySorted (fun a b => R b a) l -> StronglySorted R (rev l).
Proof.
  induction l as [|x r IH]; cbn; intros H; [constructor|]. inversion H as [|? ? Hr Hx]; subst.
  apply sorted_snoc; [apply IH; exact Hr|]. apply Forall_rev. exact Hx.
Qed.

(* the sorted pack: by source time, deletes before inserts among equally timed messages *)
Theorem sort_sorted l : StronglySorted ord (sort_msgs l).
Proof. unfold sort_msgs. apply sorted_rev. apply fold_ins_sorted. constructor. Qed.

(* ---------- the shift of resetMsgPackTimestamp ---------- *)
Local Open Scope N_scope.

Lemma deltas_spec : forall l pt pd i first,
  (first = false -> pd <= i) ->
  List.length (deltas pt pd i first l) = List.length l
  /\ StronglySorted N.le (deltas pt pd i first l)
  /\ Forall (fun d => (if first then 1 else pd) <= d /\ d <= i + N.of_nat (List.length l)) (deltas pt pd i first l).
Proof.
  induction l as [|t r IH]; intros pt pd i first H; cbn [deltas List.length]; [repeat split; constructor|].
  set (d := if negb first && N.eqb pt t then pd else i + 1).
  assert (Hd : (if first then 1 else pd) <= d /\ d <= i + 1).
  { unfold d. destruct first; cbn [negb andb]; [lia|]. specialize (H eq_refl). destruct (N.eqb pt t); lia. }
  destruct (IH t d (i + 1) false ltac:(intros _; lia)) as [L [S F]].
  split; [cbn; f_equal; exact L|]. split.
  - constructor; [exact S|]. eapply Forall_impl; [|exact F]. cbn. intros x [A _]. exact A.
  - constructor; [lia|]. eapply Forall_impl; [|exact F]. cbn. intros x [A B]. split; [lia|]. lia.
Qed.

(* equal source times (adjacent in a sorted pack) get equal shifted times, later ones strictly later *)
Lemma deltas_head : forall r t d i, d <= i + 1 -> StronglySorted N.le (t :: r) ->
  forall b tb db, nth_error r b = Some tb -> nth_error (deltas t d (i + 1) false r) b = Some db ->
    (t = tb -> d = db) /\ (t < tb -> d < db).
Proof.
  induction r as [|t2 r2 IH]; intros t d i Hd S b tb db Nb Db; [destruct b; discriminate|].
  cbn [deltas negb andb] in Db. set (d2 := if N.eqb t t2 then d else i + 1 + 1) in *.
  inversion S as [|? ? S2 F]; subst. inversion F as [|? ? Le F2]; subst.
  assert (Hd2 : d2 <= i + 1 + 1) by (unfold d2; destruct (N.eqb t t2); lia).
  assert (Dd : d <= d2 /\ (t < t2 -> d < d2) /\ (t = t2 -> d2 = d)).
  { unfold d2. destruct (N.eqb_spec t t2); repeat split; intros; lia. }
  destruct b as [|b]; cbn in Nb, Db.
  - injection Nb as <-. injection Db as <-. split; intros; [apply eq_sym, Dd; assumption|apply Dd; assumption].
  - destruct (IH t2 d2 (i + 1) Hd2 S2 b tb db Nb Db) as [E L].
    assert (Le2 : t2 <= tb).
    { inversion S2 as [|? ? _ F3]; subst. rewrite Forall_forall in F3. apply F3. apply nth_error_In in Nb. exact Nb. }
    split; intros.
    + assert (t = t2) by lia. assert (t2 = tb) by lia. rewrite <- (E H1). apply eq_sym, Dd; assumption.
    + destruct (N.eqb_spec t2 tb) as [E2|Ne].
      * rewrite <- (E E2). apply Dd. lia.
      * assert (t2 < tb) by lia. specialize (L H0). lia.
Qed.

Lemma deltas_order : forall l pt pd i first,
  (first = false -> pd <= i) -> StronglySorted N.le l ->
  forall a b ta tb da db, (a < b)%nat -> nth_error l a = Some ta -> nth_error l b = Some tb ->
    nth_error (deltas pt pd i first l) a = Some da -> nth_error (deltas pt pd i first l) b = Some db ->
    (ta = tb -> da = db) /\ (ta < tb -> da < db).
Proof.
  induction l as [|t r IH]; intros pt pd i first H S a b ta tb da db Lt Na Nb Da Db; [destruct a; discriminate|].
  cbn [deltas] in Da, Db. set (d := if negb first && N.eqb pt t then pd else i + 1) in *.
  assert (Hd : d <= i + 1) by (unfold d; destruct first; cbn [negb andb]; [lia|]; specialize (H eq_refl); destruct (N.eqb pt t); lia).
  destruct b as [|b]; [lia|]. cbn in Nb, Db.
  destruct a as [|a].
  - cbn in Na, Da. injection Na as <-. injection Da as <-. apply (deltas_head r t d i Hd S b tb db Nb Db).
  - cbn in Na, Da. inversion S as [|? ? S2 _]; subst.
    apply (IH t d (i + 1) false ltac:(intros _; lia) S2 a b ta tb da db ltac:(lia) Na Nb Da Db).
Qed.

(* ---------- the timing phase ---------- *)
Definition same_but_time (a b : emsg) : Prop :=
  e_kind a = e_kind b /\ e_id a = e_id b /\ e_coll a = e_coll b /\ e_part a = e_part b /\ e_pname a = e_pname b
  /\ e_shard a = e_shard b /\ e_poschan a = e_poschan b /\ e_rows a = e_rows b.
Lemma same_but_time_refl a : same_but_time a a. Proof. repeat split. Qed.
Lemma same_but_time_trans a b c : same_but_time a b -> same_but_time b c -> same_but_time a c.
Proof. unfold same_but_time. intuition congruence. Qed.
Lemma Forall2_refl {A} (R : A -> A -> Prop) l : (forall x, R x x) -> Forall2 R l l.
Proof. intros H; induction l; constructor; auto. Qed.
Lemma Forall2_trans {A} (R : A -> A -> Prop) : (forall a b c, R a b -> R b c -> R a c) ->
  forall l1 l2 l3, Forall2 R l1 l2 -> Forall2 R l2 l3 -> Forall2 R l1 l3.
Proof.
  intros T l1 l2 l3 H; revert l3; induction H; intros l3 H3; inversion H3; subst; constructor; eauto.
Qed.

Lemma combine_retime : forall (msgs : list emsg) (ts : list N), List.length ts = List.length msgs ->
  Forall2 same_but_time msgs (map (fun p => retime (fst p) (snd p)) (combine msgs ts))
  /\ map e_ts (map (fun p => retime (fst p) (snd p)) (combine msgs ts)) = ts
  /\ Forall (fun d => e_posts d = e_ts d) (map (fun p => retime (fst p) (snd p)) (combine msgs ts)).
Proof.
  induction msgs as [|m r IH]; intros ts L; destruct ts as [|t tr]; try discriminate; cbn; [repeat split; constructor|].
  injection L as L. destruct (IH tr L) as [A [B C]]. repeat split.
  - constructor; [repeat split|exact A].
  - f_equal; exact B.
  - constructor; [reflexivity|exact C].
Qed.

Lemma sorted_le_last (l : list N) : StronglySorted N.le l -> forall d, In d l -> d <= last l 0.
Proof.
  induction l as [|x r IH]; intros S d Hin; [destruct Hin|]. inversion S as [|? ? S' F]; subst.
  destruct r as [|y r']; [destruct Hin as [<-|[]]; cbn; lia|].
  destruct Hin as [<-|Hin].
  - rewrite Forall_forall in F. transitivity y; [apply F; left; reflexivity|]. apply IH; [exact S'|left; reflexivity].
  - apply IH; assumption.
Qed.
Lemma last_map_ts (m : list emsg) : forall (ds : list N) f, map e_ts m = map f ds -> m <> [] ->
  e_ts (last m (tick "" 0 0)) = f (last ds 0).
Proof.
  induction m as [|x xr IH]; intros ds f E Hm; [congruence|].
  destruct ds as [|d dr]; [discriminate|]. cbn in E. injection E as E1 E2.
  destruct xr as [|x2 xr2]; destruct dr as [|d2 dr2]; try discriminate; [exact E1|].
  change (last (x :: x2 :: xr2) (tick "" 0 0)) with (last (x2 :: xr2) (tick "" 0 0)).
  change (last (d :: d2 :: dr2) 0) with (last (d2 :: dr2) 0). apply IH; [exact E2|discriminate].
Qed.

Lemma apply_reset_some msgs b e newts m' b' e' :
  apply_reset msgs b e newts = Some (m', b', e') ->
  msgs <> [] /\ b <= newts /\ Forall2 same_but_time msgs m'
  /\ Forall (fun d => newts < e_ts d /\ e_ts d <= e' /\ e_posts d = e_ts d) m'
  /\ b' = e_ts (hd (tick "" 0 0) m') /\ e' = e_ts (last m' (tick "" 0 0)) /\ newts < b' /\ m' <> []
  /\ map e_ts m' = map (fun d => newts + d) (deltas 0 0 0 true (map e_ts msgs))
  /\ e' <= newts + N.of_nat (List.length msgs).
Proof.
  unfold apply_reset, reset_pack. destruct msgs as [|m0 mr] eqn:Em; [discriminate|]. rewrite <- Em.
  assert (Hne : map e_ts msgs <> []) by (rewrite Em; discriminate).
  destruct (map e_ts msgs) as [|t0 tr] eqn:Et; [congruence|]. rewrite <- Et.
  destruct (N.ltb_spec newts b) as [L|L]; [discriminate|].
  set (ds := deltas 0 0 0 true (map e_ts msgs)).
  destruct (deltas_spec (map e_ts msgs) 0 0 0 true ltac:(discriminate)) as [DL [DS DF]]. fold ds in DL, DS, DF.
  intros H; injection H as <- <- <-.
  assert (Len : List.length (map (fun d => newts + d) ds) = List.length msgs) by (rewrite map_length, DL, map_length; reflexivity).
  destruct (combine_retime msgs (map (fun d => newts + d) ds) Len) as [A [B C]].
  set (m' := map (fun p => retime (fst p) (snd p)) (combine msgs (map (fun d => newts + d) ds))) in *.
  assert (Hm' : m' <> []).
  { intros E. rewrite E in A. inversion A. congruence. }
  assert (Hds : ds <> []) by (intros E; rewrite E in DL; rewrite Et in DL; discriminate).
  split; [rewrite Em; discriminate|]. split; [exact L|]. split; [exact A|].
  assert (Hlast : forall d, In d ds -> d <= last ds 0) by (apply sorted_le_last; exact DS).
  assert (Ets : map e_ts m' = map (fun d => newts + d) ds) by exact B.
  assert (Hhd : e_ts (hd (tick "" 0 0) m') = newts + hd 0 ds).
  { destruct m' as [|x xr]; [congruence|]. destruct ds as [|d dr]; [congruence|]. cbn in Ets. injection Ets as E _. exact E. }
  assert (Hla : e_ts (last m' (tick "" 0 0)) = newts + last ds 0) by (apply (last_map_ts m' ds (fun d => newts + d) Ets Hm')).
  split.
  { rewrite Forall_forall. intros d Hd. rewrite Forall_forall in C. split; [|split; [|apply C; exact Hd]].
    - assert (In (e_ts d) (map e_ts m')) by (apply in_map; exact Hd). rewrite Ets in H. apply in_map_iff in H. destruct H as [x [E Hx]].
      rewrite Forall_forall in DF. specialize (DF x Hx). cbn in DF. lia.
    - assert (In (e_ts d) (map e_ts m')) by (apply in_map; exact Hd). rewrite Ets in H. apply in_map_iff in H. destruct H as [x [E Hx]].
      specialize (Hlast x Hx). lia. }
  split; [symmetry; exact Hhd|]. split; [symmetry; exact Hla|]. split.
  { destruct ds as [|d dr]; [congruence|]. cbn. inversion DF as [|? ? [D1 _] _]; subst. cbn in D1. lia. }
  split; [exact Hm'|]. split; [exact Ets|].
  assert (In (last ds 0) ds).
  { clear -Hds. induction ds as [|x r IH]; [congruence|]. destruct r as [|y r']; [left; reflexivity|]. right. apply IH. discriminate. }
  rewrite Forall_forall in DF. specialize (DF _ H). cbn in DF. rewrite map_length in DF. lia.
Qed.

Lemma apply_reset_none msgs b e newts : apply_reset msgs b e newts = None -> msgs = [] \/ newts < b.
Proof.
  unfold apply_reset, reset_pack. destruct msgs as [|m0 mr]; [auto|]. cbn [map].
  destruct (N.ltb_spec newts b); [auto|discriminate].
Qed.

Definition maxu : N := 18446744073709551615.
Lemma collect_spec c t : t <> maxu -> cts (collect c t) = N.max (cts c) t /\ lts (collect c t) = lts c /\ gate (collect c t) = gate c.
Proof.
  intros H. unfold collect. destruct (N.eqb_spec t 18446744073709551615) as [E|_]; [exfalso; apply H; exact E|].
  destruct (N.eqb_spec (cts c) 0) as [E|N0]; cbn [orb].
  - cbn. rewrite E. repeat split; lia.
  - destruct (N.ltb_spec (cts c) t); cbn; repeat split; lia.
Qed.

Lemma clock_of_set s ch c : clock_of (set_clock s ch c) ch = c.
Proof.
  unfold clock_of, set_clock; cbn [clocks]. induction (clocks s) as [|[a b] r IH]; cbn; [rewrite String.eqb_refl; reflexivity|].
  destruct (String.eqb_spec ch a); cbn; [rewrite String.eqb_refl; reflexivity|]. destruct (String.eqb_spec ch a); [congruence|exact IH].
Qed.
Lemma clock_of_set_other s ch c ch' : ch <> ch' -> clock_of (set_clock s ch c) ch' = clock_of s ch'.
Proof.
  intros N. unfold clock_of, set_clock; cbn [clocks]. induction (clocks s) as [|[a b] r IH]; cbn.
  - destruct (String.eqb_spec ch' ch); congruence.
  - destruct (String.eqb_spec ch a); cbn.
    + subst a. destruct (String.eqb_spec ch' ch); congruence.
    + destruct (String.eqb_spec ch' a); [reflexivity|exact IH].
Qed.

Lemma hd_default {A} (l : list A) d1 d2 : l <> [] -> hd d1 l = hd d2 l.
Proof. destruct l; [congruence|reflexivity]. Qed.
Lemma last_default {A} (l : list A) d1 d2 : l <> [] -> last l d1 = last l d2.
Proof.
  induction l as [|x r IH]; [congruence|]. intros _. destruct r as [|y r']; [reflexivity|].
  change (last (x :: y :: r') d1) with (last (y :: r') d1). change (last (x :: y :: r') d2) with (last (y :: r') d2). apply IH. discriminate.
Qed.
Lemma last_snoc {A} (l : list A) x d : last (l ++ [x]) d = x.
Proof. induction l as [|y r IH]; [reflexivity|]. cbn. destruct (r ++ [x])%list eqn:E; [destruct r; discriminate|exact IH]. Qed.

(* what one emitted pack looks like *)
Record pack_spec (ch : string) (label : Z * string * string) (msgs : list emsg) (lts0 : N) (pk : epack) : Prop := {
  ps_chan : ep_chan pk = ch /\ ep_poschan pk = ch;
  ps_label : (ep_coll pk, ep_cname pk, ep_spch pk) = label;
  ps_shape : exists opening data tk,
      ep_msgs pk = (opening ++ data ++ [tk])%list
      /\ Forall (fun o => e_kind o = KTick /\ e_poschan o = ch) opening
      /\ Forall2 same_but_time msgs data
      /\ e_kind tk = KTick /\ e_poschan tk = ch
      /\ lts0 <= e_ts tk
      /\ Forall (fun d => lts0 < e_ts d /\ e_ts d <= e_ts tk /\ e_posts d = e_ts d) data
      /\ (data <> [] -> ep_begin pk = e_ts (hd tk data) /\ ep_end pk = e_ts (last data tk) /\ ep_end pk = e_ts tk /\ ep_endposts pk = ep_end pk);
}.

Definition last_ts (pk : epack) : N := e_ts (last (ep_msgs pk) (tick "" 0 0)).

Lemma emit_spec s ch label b e msgs need :
  let c0 := clock_of s ch in
  lts c0 <= cts c0 -> b <= cts c0 -> cts c0 + N.of_nat (List.length msgs) + 1 < maxu ->
  let s' := emit s ch label b e msgs need in
  handlers s' = handlers s /\ events s' = events s /\ dcolls s' = dcolls s /\ dparts s' = dparts s /\ cbars s' = cbars s /\ pbars s' = pbars s
  /\ heap s' = heap s /\ keymap s' = keymap s /\ pbar_handlers s' = pbar_handlers s
  /\ (forall ch', ch <> ch' -> clock_of s' ch' = clock_of s ch')
  /\ lts (clock_of s' ch) <= cts (clock_of s' ch) /\ lts c0 <= lts (clock_of s' ch)
  /\ ((out s' = out s /\ lts (clock_of s' ch) = lts c0)
      \/ exists pk, out s' = (out s ++ [pk])%list /\ pack_spec ch label msgs (lts c0) pk /\ lts (clock_of s' ch) = last_ts pk).
Proof.
  intros c0 H1 H2 H3 s'. unfold s', emit. fold c0. destruct label as [[lc ln] lsp].
  destruct (apply_reset msgs b e (cts c0)) as [[[m1 b1] e1]|] eqn:R1.
  - destruct (apply_reset_some _ _ _ _ _ _ _ R1) as [Hne [_ [F2 [FA [Hb [He [Hlt [Hm1 [_ Hbound]]]]]]]]].
    assert (Ee : e1 <> maxu) by (unfold maxu in *; lia).
    destruct (collect_spec c0 e1 Ee) as [C1 [C2 C3]].
    assert (He1 : cts c0 < e1).
    { rewrite Forall_forall in FA. destruct m1 as [|x xr]; [congruence|]. rewrite He.
      assert (In (last (x :: xr) (tick "" 0 0)) (x :: xr)).
      { clear. generalize x. induction xr as [|y r IH]; intros x0; [left; reflexivity|]. right. apply IH. }
      apply FA in H. lia. }
    assert (Cc : cts (collect c0 e1) = e1) by (rewrite C1; lia).
    destruct m1 as [|x xr] eqn:Em1; [congruence|]. rewrite <- Em1 in *. cbn [orb negb]. rewrite orb_true_r. cbn [orb negb].
    assert (L : N.ltb (lts (collect c0 e1)) b1 = true) by (apply N.ltb_lt; rewrite C2; lia).
    rewrite L. cbn zeta.
    set (opening := if N.eqb (lts (collect c0 e1)) 0 then [tick ch b1 b1] else []).
    set (c3 := {| cts := if N.ltb (cts (collect c0 e1)) (cts (collect c0 e1)) then cts (collect c0 e1) else cts (collect c0 e1); lts := cts (collect c0 e1); gate := true |}).
    match goal with |- context [out (set_clock s ch ?c)] => set (cfinal := c) end.
    cbn [handlers events dcolls dparts cbars pbars heap keymap pbar_handlers out set_clock].
    repeat (split; [reflexivity|]).
    split. { intros ch' N. unfold clock_of at 1. cbn [clocks]. fold (clock_of (set_clock s ch cfinal) ch'). apply clock_of_set_other; exact N. }
    match goal with |- context [lts (clock_of ?st ch)] =>
      assert (CK : clock_of st ch = cfinal) by (transitivity (clock_of (set_clock s ch cfinal) ch); [reflexivity|apply clock_of_set]) end.
    rewrite CK. unfold cfinal, c3. cbn [lts cts]. rewrite Cc. rewrite N.ltb_irrefl.
    split; [lia|]. split; [lia|]. right. eexists. split; [reflexivity|]. split.
    + constructor; cbn [ep_chan ep_poschan ep_coll ep_cname ep_spch ep_msgs ep_begin ep_end ep_endposts].
      * split; reflexivity.
      * reflexivity.
      * exists (if N.eqb (lts (collect c0 e1)) 0 then [tick ch b1 b1] else []), m1, (tick ch e1 e1).
        split. { destruct (N.eqb (lts (collect c0 e1)) 0); reflexivity. }
        split. { destruct (N.eqb (lts (collect c0 e1)) 0); repeat constructor. }
        split; [exact F2|]. split; [reflexivity|]. split; [reflexivity|]. cbn [tick e_ts]. split; [lia|]. split.
        { eapply Forall_impl; [|exact FA]. cbn. intros d [A [B C]]. repeat split; try assumption; lia. }
        intros _. rewrite Hb, He. split; [apply f_equal, hd_default; rewrite Em1; discriminate|].
        split; [apply f_equal, last_default; rewrite Em1; discriminate|]. split; reflexivity.
    + unfold last_ts. cbn [ep_msgs]. destruct (N.eqb (lts (collect c0 e1)) 0).
      * change (tick ch b1 b1 :: (m1 ++ [tick ch e1 e1])%list) with (([tick ch b1 b1] ++ m1) ++ [tick ch e1 e1])%list. rewrite last_snoc. reflexivity.
      * rewrite last_snoc. reflexivity.
  - destruct (apply_reset_none _ _ _ _ R1) as [->|Hb]; [|lia].
    cbn [orb]. rewrite orb_false_r.
    destruct (need || gate c0 && negb (N.eqb (cts c0) 0)) eqn:Cond; cbn [negb].
    + assert (Same : (if N.ltb (lts c0) b then ([] : list emsg, b, e, cts c0, c0)
                      else match apply_reset [] b e (cts c0) with
                           | Some (m', b', e') => (m', b', e', e', {| cts := e'; lts := lts c0; gate := gate c0 |})
                           | None => ([], b, e, cts c0, c0) end) = ([], b, e, cts c0, c0)).
      { destruct (N.ltb (lts c0) b); reflexivity. }
      rewrite Same. cbn zeta. rewrite N.ltb_irrefl.
      match goal with |- context [set_clock s ch ?c] => set (cfinal := c) end.
      cbn [handlers events dcolls dparts cbars pbars heap keymap pbar_handlers out set_clock].
      repeat (split; [reflexivity|]).
      split. { intros ch' N. unfold clock_of at 1. cbn [clocks]. fold (clock_of (set_clock s ch cfinal) ch'). apply clock_of_set_other; exact N. }
      match goal with |- context [lts (clock_of ?st ch)] =>
        assert (CK : clock_of st ch = cfinal) by (transitivity (clock_of (set_clock s ch cfinal) ch); [reflexivity|apply clock_of_set]) end.
      rewrite CK. unfold cfinal. cbn [lts cts].
      split; [lia|]. split; [exact H1|]. right. eexists. split; [reflexivity|]. split.
      * constructor; cbn [ep_chan ep_poschan ep_coll ep_cname ep_spch ep_msgs ep_begin ep_end ep_endposts].
        -- split; reflexivity.
        -- reflexivity.
        -- exists (if N.eqb (lts c0) 0 then [tick ch b b] else []), [], (tick ch (cts c0) e).
           split. { destruct (N.eqb (lts c0) 0); reflexivity. }
           split. { destruct (N.eqb (lts c0) 0); repeat constructor. }
           split; [constructor|]. split; [reflexivity|]. split; [reflexivity|]. cbn [tick e_ts]. split; [exact H1|]. split; [constructor|]. congruence.
      * unfold last_ts. cbn [ep_msgs]. destruct (N.eqb (lts c0) 0); reflexivity.
    + cbn [handlers events dcolls dparts cbars pbars heap keymap pbar_handlers out set_clock].
      repeat (split; [reflexivity|]).
      split; [intros ch' N; apply clock_of_set_other; exact N|]. rewrite clock_of_set.
      split; [exact H1|]. split; [lia|]. left. split; reflexivity.
Qed.

(* ---------- the content phase touches neither the clocks nor the output queues ---------- *)
Definition same_co (s s' : st) : Prop := clocks s' = clocks s /\ out s' = out s /\ handlers s' = handlers s.

Lemma part_lookup_frame retries a c r pid name res a' r' :
  part_lookup retries a c r pid name = (res, a', r') -> clocks (a_st a') = clocks (a_st a) /\ out (a_st a') = out (a_st a).
Proof.
  unfold part_lookup. destruct (alookup _ name); [intros H; injection H as _ <- _; split; reflexivity|].
  destruct (refresh retries (a_ans a) name _) as [[res0 rest] newmap].
  destruct newmap; intros H; injection H as _ <- _; cbn; split; reflexivity.
Qed.

Lemma import_lookup_frame retries a c r count res a' r' :
  import_lookup retries a c r count = (res, a', r') -> clocks (a_st a') = clocks (a_st a) /\ out (a_st a') = out (a_st a).
Proof.
  unfold import_lookup. destruct (Nat.eqb _ count); [intros H; injection H as _ <- _; split; reflexivity|].
  destruct (refresh_count retries (a_ans a) count _) as [[ok rest] newmap].
  destruct newmap; intros H; injection H as _ <- _; cbn; split; reflexivity.
Qed.

Lemma append_frame a r e : a_st (append a r e) = a_st a.
Proof. unfold append. destruct (negb _); [reflexivity|]. destruct (a_fwd a); reflexivity. Qed.

Ltac frame_tac :=
  repeat match goal with
         | |- context [append ?a ?r ?e] => rewrite (append_frame a r e)
         | H : part_lookup _ _ _ _ _ _ = _ |- _ => apply part_lookup_frame in H; destruct H as [? ?]
         | H : import_lookup _ _ _ _ _ = _ |- _ => apply import_lookup_frame in H; destruct H as [? ?]
         end; cbn [a_st clocks out upd_state] in *; try (split; congruence); try (split; reflexivity).

Ltac dm := match goal with
  | |- context [match ?x with _ => _ end] =>
      lazymatch x with match _ with _ => _ end => fail | _ => destruct x eqn:? end
  end.

Lemma one_msg_frame retries a m :
  match one_msg retries a m with
  | COk a' => clocks (a_st a') = clocks (a_st a) /\ out (a_st a') = out (a_st a)
  | CErr s => clocks s = clocks (a_st a) /\ out s = out (a_st a)
  end.
Proof.
  unfold one_msg. repeat dm; frame_tac.
Qed.

Lemma all_msgs_frame retries : forall l a,
  match all_msgs retries a l with
  | COk a' => clocks (a_st a') = clocks (a_st a) /\ out (a_st a') = out (a_st a)
  | CErr s => clocks s = clocks (a_st a) /\ out s = out (a_st a)
  end.
Proof.
  induction l as [|m r IH]; intros a; cbn [all_msgs]; [split; reflexivity|].
  pose proof (one_msg_frame retries a m) as F. destruct (one_msg retries a m) as [s|a1]; [exact F|].
  specialize (IH a1). destruct (all_msgs retries a1 r); destruct IH, F; split; congruence.
Qed.

(* ---------- what the content phase appends: at most one rewritten copy of the message ---------- *)
Lemma part_lookup_out retries a c r pid name res a' r' :
  part_lookup retries a c r pid name = (res, a', r') -> a_out a' = a_out a /\ a_fwd a' = a_fwd a /\ h_tgt (a_h a') = h_tgt (a_h a).
Proof.
  unfold part_lookup. destruct (alookup _ name); [intros H; injection H as _ <- _; repeat split|].
  destruct (refresh retries (a_ans a) name _) as [[res0 rest] newmap].
  destruct newmap; intros H; injection H as _ <- _; cbn; repeat split.
Qed.

Lemma import_lookup_out retries a c r count res a' r' :
  import_lookup retries a c r count = (res, a', r') -> a_out a' = a_out a /\ a_fwd a' = a_fwd a /\ h_tgt (a_h a') = h_tgt (a_h a).
Proof.
  unfold import_lookup. destruct (Nat.eqb _ count); [intros H; injection H as _ <- _; repeat split|].
  destruct (refresh_count retries (a_ans a) count _) as [[ok rest] newmap].
  destruct newmap; intros H; injection H as _ <- _; cbn; repeat split.
Qed.

Lemma append_out a r e : a_out (append a r e) = a_out a \/ a_out (append a r e) = (a_out a ++ [e])%list.
Proof. unfold append. destruct (negb _); [right; reflexivity|]. destruct (a_fwd a); [left|right]; reflexivity. Qed.

Definition grows_by (m : smsg) (before after : list emsg) : Prop :=
  after = before \/ exists r pid, after = (before ++ [mk_emsg m r pid])%list /\ supported (m_kind m) = true.

Lemma one_msg_out retries a m :
  match one_msg retries a m with COk a' => grows_by m (a_out a) (a_out a') | CErr _ => True end.
Proof.
  unfold one_msg, grows_by.
  repeat dm; try exact I; try (left; reflexivity);
  repeat match goal with H : part_lookup _ _ _ _ _ _ = _ |- _ => apply part_lookup_out in H; destruct H as [? [? ?]]
                    | H : import_lookup _ _ _ _ _ = _ |- _ => apply import_lookup_out in H; destruct H as [? [? ?]] end;
  cbn [a_out] in *.
  all: match goal with
  | |- context [append ?a ?r ?e] => destruct (append_out a r e) as [Ha|Ha]; rewrite Ha; cbn [a_out] in *
  | _ => idtac
  end.
  all: try (left; congruence).
  all: right; eexists; eexists; split; [match goal with |- (?x ++ _)%list = _ => replace x with (a_out a) by congruence end; reflexivity|reflexivity].
Qed.

Lemma grows_len m b a : grows_by m b a -> (List.length a <= S (List.length b))%nat /\ (Forall (fun e => e_kind e <> KTick) b -> Forall (fun e => e_kind e <> KTick) a).
Proof.
  intros [->|[r [pid [-> Hs]]]]; [split; [lia|auto]|]. rewrite app_length. cbn. split; [lia|]. intros F. apply Forall_app. split; [exact F|].
  constructor; [|constructor]. cbn. destruct (m_kind m); cbn in Hs; congruence.
Qed.

Lemma all_msgs_out retries : forall l a,
  match all_msgs retries a l with
  | COk a' => (List.length (a_out a') <= List.length (a_out a) + List.length l)%nat
              /\ (Forall (fun e => e_kind e <> KTick) (a_out a) -> Forall (fun e => e_kind e <> KTick) (a_out a'))
  | CErr _ => True end.
Proof.
  induction l as [|m r IH]; intros a; cbn [all_msgs]; [split; [cbn; lia|auto]|].
  pose proof (one_msg_out retries a m) as F. destruct (one_msg retries a m) as [s|a1]; [exact I|].
  specialize (IH a1). destruct (all_msgs retries a1 r); [exact I|]. apply grows_len in F. destruct F as [F1 F2], IH as [I1 I2]. cbn [List.length]. split; [lia|auto].
Qed.

(* ---------- the timing phase in its two sections ---------- *)
Lemma aupsert_twice {A} (l : list (string * A)) k v1 v2 : aupsert (aupsert l k v1) k v2 = aupsert l k v2.
Proof.
  induction l as [|[k0 v0] r IH]; cbn [aupsert]; [rewrite String.eqb_refl; reflexivity|].
  destruct (String.eqb_spec k k0) as [->|N]; cbn [aupsert]; [rewrite String.eqb_refl; reflexivity|].
  destruct (String.eqb_spec k k0); [contradiction|]. rewrite IH. reflexivity.
Qed.

Lemma set_clock_twice s ch c1 c2 : set_clock (set_clock s ch c1) ch c2 = set_clock s ch c2.
Proof. unfold set_clock. cbn [dcolls dparts handlers clocks heap cbars pbars pbar_handlers keymap out events alive]. rewrite aupsert_twice. reflexivity. Qed.

Lemma emit_split s ch label b e msgs need :
  emit s ch label b e msgs need = emit23 (fst (emit1 s ch b e msgs)) ch label (snd (emit1 s ch b e msgs)) need.
Proof.
  unfold emit, emit1, emit23. destruct (apply_reset msgs b e (cts (clock_of s ch))) as [[[m1 b1] e1]|]; cbn [fst snd].
  - rewrite clock_of_set. destruct label as [[lc ln] lsp].
    destruct (negb _); [rewrite set_clock_twice; reflexivity|].
    match goal with |- context [if N.ltb ?a ?b then ?x else ?y] => destruct (if N.ltb a b then x else y) as [[[[m2 b2] e2] gen] c2] end.
    rewrite set_clock_twice. reflexivity.
  - reflexivity.
Qed.

Lemma sorted_hd_le (l : list N) : StronglySorted N.le l -> forall d, In d l -> hd 0 l <= d.
Proof. intros S d Hin. destruct l as [|x r]; [destruct Hin|]. cbn. destruct Hin as [<-|Hin]; [lia|]. inversion S as [|? ? _ F]; subst. rewrite Forall_forall in F. apply F, Hin. Qed.

Lemma apply_reset_min msgs b e newts m' b' e' : apply_reset msgs b e newts = Some (m', b', e') -> Forall (fun d => b' <= e_ts d) m'.
Proof.
  intros R. destruct (apply_reset_some _ _ _ _ _ _ _ R) as [_ [_ [_ [_ [Hb [_ [_ [Hne [M _]]]]]]]]].
  destruct (deltas_spec (map e_ts msgs) 0 0 0 true ltac:(discriminate)) as [_ [DS _]].
  set (ds := deltas 0 0 0 true (map e_ts msgs)) in *.
  rewrite Forall_forall. intros d Hin.
  assert (Hd : In (e_ts d) (map (fun x => newts + x) ds)) by (rewrite <- M; apply in_map; exact Hin).
  apply in_map_iff in Hd. destruct Hd as [x [Ex Hx]].
  assert (Hh : b' = newts + hd 0 ds).
  { rewrite Hb. destruct m' as [|y r]; [congruence|]. cbn [hd]. destruct ds as [|z zs]; [discriminate|]. cbn in M. injection M as M1 _. cbn [hd]. exact M1. }
  pose proof (sorted_hd_le ds DS x Hx). lia.
Qed.

Definition pend_ok (c : clock) (pend : list emsg * N * N) : Prop :=
  fst (fst pend) = []
  \/ (Forall (fun d => snd (fst pend) <= e_ts d /\ e_ts d <= snd pend /\ e_posts d = e_ts d) (fst (fst pend))
      /\ snd (fst pend) = e_ts (hd (tick "" 0 0) (fst (fst pend))) /\ snd pend = e_ts (last (fst (fst pend)) (tick "" 0 0)) /\ snd pend <= cts c).

Lemma emit1_spec s ch b e msgs :
  let c0 := clock_of s ch in
  lts c0 <= cts c0 -> b <= cts c0 -> cts c0 + N.of_nat (List.length msgs) + 1 < maxu ->
  let s1 := fst (emit1 s ch b e msgs) in let pend := snd (emit1 s ch b e msgs) in
  handlers s1 = handlers s /\ events s1 = events s /\ dcolls s1 = dcolls s /\ dparts s1 = dparts s /\ cbars s1 = cbars s /\ pbars s1 = pbars s
  /\ heap s1 = heap s /\ keymap s1 = keymap s /\ pbar_handlers s1 = pbar_handlers s /\ out s1 = out s
  /\ (forall ch', ch <> ch' -> clock_of s1 ch' = clock_of s ch')
  /\ lts (clock_of s1 ch) = lts c0 /\ cts c0 <= cts (clock_of s1 ch)
  /\ cts (clock_of s1 ch) <= cts c0 + N.of_nat (List.length msgs)
  /\ pend_ok (clock_of s1 ch) pend /\ Forall2 same_but_time msgs (fst (fst pend)).
Proof.
  intros c0 H1 H2 H3. unfold emit1. fold c0.
  destruct (apply_reset msgs b e (cts c0)) as [[[m1 b1] e1]|] eqn:R1; cbn [fst snd].
  - destruct (apply_reset_some _ _ _ _ _ _ _ R1) as [Hne [_ [F2 [FA [Hb [He [Hlt [Hm1 [_ Hbound]]]]]]]]].
    pose proof (apply_reset_min _ _ _ _ _ _ _ R1) as Fmin.
    assert (Ee : e1 <> maxu) by (unfold maxu in *; lia).
    destruct (collect_spec c0 e1 Ee) as [C1 [C2 C3]].
    cbn [handlers events dcolls dparts cbars pbars heap keymap pbar_handlers out set_clock].
    repeat (split; [reflexivity|]).
    split; [intros ch' N; apply clock_of_set_other; exact N|]. rewrite clock_of_set.
    split; [exact C2|]. split; [rewrite C1; lia|]. split; [rewrite C1; lia|]. split; [|exact F2].
    right. cbn [fst snd]. split; [|split; [exact Hb|split; [exact He|rewrite C1; lia]]].
    rewrite Forall_forall in *. intros d Hin. destruct (FA d Hin) as [A [B C]]. specialize (Fmin d Hin). repeat split; assumption.
  - destruct (apply_reset_none _ _ _ _ R1) as [->|Hb]; [|lia].
    do 10 (split; [reflexivity|]). split; [reflexivity|]. split; [reflexivity|]. split; [fold c0; lia|]. split; [fold c0; cbn; lia|]. split; [left; reflexivity|constructor].
Qed.

Record pack_spec2 (ch : string) (label : Z * string * string) (msgs : list emsg) (lts0 : N) (pk : epack) : Prop := {
  p2_chan : ep_chan pk = ch /\ ep_poschan pk = ch;
  p2_label : (ep_coll pk, ep_cname pk, ep_spch pk) = label;
  p2_shape : exists opening data tk,
      ep_msgs pk = (opening ++ data ++ [tk])%list
      /\ Forall (fun o => e_kind o = KTick /\ e_poschan o = ch) opening
      /\ Forall2 same_but_time msgs data
      /\ e_kind tk = KTick /\ e_poschan tk = ch
      /\ lts0 <= e_ts tk
      /\ Forall (fun d => lts0 < e_ts d /\ e_ts d <= e_ts tk /\ e_posts d = e_ts d) data
      /\ (data <> [] -> ep_begin pk = e_ts (hd tk data) /\ ep_end pk = e_ts (last data tk) /\ ep_end pk <= e_ts tk /\ ep_endposts pk = ep_end pk);
}.

Lemma emit23_spec s ch label pend need :
  let c1 := clock_of s ch in
  lts c1 <= cts c1 -> pend_ok c1 pend -> cts c1 + N.of_nat (List.length (fst (fst pend))) + 1 < maxu ->
  let s' := emit23 s ch label pend need in
  handlers s' = handlers s /\ events s' = events s /\ dcolls s' = dcolls s /\ dparts s' = dparts s /\ cbars s' = cbars s /\ pbars s' = pbars s
  /\ heap s' = heap s /\ keymap s' = keymap s /\ pbar_handlers s' = pbar_handlers s
  /\ (forall ch', ch <> ch' -> clock_of s' ch' = clock_of s ch')
  /\ lts (clock_of s' ch) <= cts (clock_of s' ch) /\ lts c1 <= lts (clock_of s' ch) /\ cts c1 <= cts (clock_of s' ch)
  /\ ((out s' = out s /\ lts (clock_of s' ch) = lts c1)
      \/ exists pk, out s' = (out s ++ [pk])%list /\ pack_spec2 ch label (fst (fst pend)) (lts c1) pk /\ lts (clock_of s' ch) = last_ts pk).
Proof.
  intros c1 H1 P H3 s'. unfold s', emit23. destruct pend as [[m1 b1] e1]. unfold pend_ok in P. cbn [fst snd] in *. fold c1. destruct label as [[lc ln] lsp].
  (* the shape of the result, once the shifted messages, the times and the final clock are known *)
  assert (Build : forall m2 b2 e2 gen c2,
            lts c2 = lts c1 -> cts c1 <= (if N.ltb (cts c2) gen then gen else cts c2) -> lts c1 <= gen ->
            Forall2 same_but_time m1 m2 ->
            Forall (fun d => lts c1 < e_ts d /\ e_ts d <= gen /\ e_posts d = e_ts d) m2 ->
            (m2 <> [] -> b2 = e_ts (hd (tick "" 0 0) m2) /\ e2 = e_ts (last m2 (tick "" 0 0)) /\ e2 <= gen) ->
            gen <= (if N.ltb (cts c2) gen then gen else cts c2) ->
            let s2 := set_clock s ch {| cts := if N.ltb (cts c2) gen then gen else cts c2; lts := gen; gate := need || match m1 with [] => false | _ => true end |} in
            let pk := {| ep_chan := ch; ep_coll := lc; ep_cname := ln; ep_spch := lsp; ep_begin := b2; ep_end := e2; ep_poschan := ch; ep_endposts := e2;
                         ep_msgs := if N.eqb (lts c2) 0 then tick ch b2 b2 :: (m2 ++ [tick ch gen e2])%list else (m2 ++ [tick ch gen e2])%list |} in
            let s3 := {| dcolls := dcolls s2; dparts := dparts s2; handlers := handlers s2; clocks := clocks s2; heap := heap s2; cbars := cbars s2;
                         pbars := pbars s2; pbar_handlers := pbar_handlers s2; keymap := keymap s2; out := (out s2 ++ [pk])%list; events := events s2; alive := alive s2; mg := mg s2; wsh := wsh s2 |} in
            handlers s3 = handlers s /\ events s3 = events s /\ dcolls s3 = dcolls s /\ dparts s3 = dparts s /\ cbars s3 = cbars s /\ pbars s3 = pbars s
            /\ heap s3 = heap s /\ keymap s3 = keymap s /\ pbar_handlers s3 = pbar_handlers s
            /\ (forall ch', ch <> ch' -> clock_of s3 ch' = clock_of s ch')
            /\ lts (clock_of s3 ch) <= cts (clock_of s3 ch) /\ lts c1 <= lts (clock_of s3 ch) /\ cts c1 <= cts (clock_of s3 ch)
            /\ ((out s3 = out s /\ lts (clock_of s3 ch) = lts c1)
                \/ exists pk, out s3 = (out s ++ [pk])%list /\ pack_spec2 ch (lc, ln, lsp) m1 (lts c1) pk /\ lts (clock_of s3 ch) = last_ts pk)).
  { intros m2 b2 e2 gen c2 El Hc Hg F2 FA Hd Hgc s2 pk s3.
    cbn [handlers events dcolls dparts cbars pbars heap keymap pbar_handlers out set_clock s3 s2].
    repeat (split; [reflexivity|]).
    split. { intros ch' N. unfold clock_of at 1. cbn [clocks]. fold (clock_of s2 ch'). unfold s2. apply clock_of_set_other; exact N. }
    assert (CK : clock_of s3 ch = {| cts := if N.ltb (cts c2) gen then gen else cts c2; lts := gen; gate := need || match m1 with [] => false | _ => true end |})
      by (transitivity (clock_of s2 ch); [reflexivity|apply clock_of_set]).
    rewrite CK. cbn [lts cts]. split; [exact Hgc|]. split; [exact Hg|]. split; [exact Hc|].
    right. exists pk. split; [reflexivity|]. split.
    - constructor; cbn [ep_chan ep_poschan ep_coll ep_cname ep_spch ep_msgs ep_begin ep_end ep_endposts pk].
      + split; reflexivity.
      + reflexivity.
      + exists (if N.eqb (lts c2) 0 then [tick ch b2 b2] else []), m2, (tick ch gen e2).
        split. { destruct (N.eqb (lts c2) 0); reflexivity. }
        split. { destruct (N.eqb (lts c2) 0); repeat constructor. }
        split; [exact F2|]. split; [reflexivity|]. split; [reflexivity|]. cbn [tick e_ts]. split; [exact Hg|]. split; [exact FA|].
        intros Hne. destruct (Hd Hne) as [A [B C]]. split; [rewrite A; apply f_equal, hd_default; exact Hne|].
        split; [rewrite B; apply f_equal, last_default; exact Hne|]. split; [exact C|reflexivity].
    - unfold last_ts, pk. cbn [ep_msgs]. destruct (N.eqb (lts c2) 0).
      + change (tick ch b2 b2 :: (m2 ++ [tick ch gen e2])%list) with (([tick ch b2 b2] ++ m2) ++ [tick ch gen e2])%list. rewrite last_snoc. reflexivity.
      + rewrite last_snoc. reflexivity. }
  destruct (negb ((need || match m1 with [] => false | _ => true end) || gate c1 && negb (N.eqb (cts c1) 0))) eqn:Cond.
  - (* nothing is emitted *)
    cbn [handlers events dcolls dparts cbars pbars heap keymap pbar_handlers out set_clock].
    repeat (split; [reflexivity|]).
    split; [intros ch' N; apply clock_of_set_other; exact N|]. rewrite clock_of_set.
    split; [exact H1|]. split; [lia|]. split; [lia|]. left. split; reflexivity.
  - destruct (N.ltb_spec (lts c1) b1) as [Lt|Ge].
    + (* no tick has overtaken the pack: it keeps its times, the closing tick is the channel's time *)
      cbn zeta. apply (Build m1 b1 e1 (cts c1) c1); try reflexivity; try (rewrite N.ltb_irrefl; lia); try exact H1.
      * apply Forall2_refl. apply same_but_time_refl.
      * destruct P as [->|[FA [Hb [He Hc]]]]; [constructor|]. eapply Forall_impl; [|exact FA]. cbn. intros d [A [B C]]. repeat split; try assumption; lia.
      * intros Hne. destruct P as [->|[FA [Hb [He Hc]]]]; [congruence|]. repeat split; assumption.
    + destruct (apply_reset m1 b1 e1 (cts c1)) as [[[m2 b2] e2]|] eqn:R.
      * (* a tick has overtaken the pack: it is shifted above the channel's time again *)
        destruct (apply_reset_some _ _ _ _ _ _ _ R) as [Hne [_ [F2 [FA [Hb [He [Hlt [Hm2 [_ Hbound]]]]]]]]].
        assert (He2 : cts c1 < e2).
        { rewrite Forall_forall in FA. destruct m2 as [|x xr]; [congruence|]. rewrite He.
          assert (In (last (x :: xr) (tick "" 0 0)) (x :: xr)).
          { clear. generalize x. induction xr as [|y r IH]; intros x0; [left; reflexivity|]. right. apply IH. }
          apply FA in H. lia. }
        cbn zeta. apply (Build m2 b2 e2 e2 {| cts := e2; lts := lts c1; gate := gate c1 |}); cbn [cts lts]; try reflexivity; try (rewrite N.ltb_irrefl; lia); try lia.
        -- exact F2.
        -- eapply Forall_impl; [|exact FA]. cbn. intros d [A [B C]]. repeat split; try assumption; lia.
      * (* only a tick-only pack is left unshifted when the channel's time is not below its begin *)
        destruct (apply_reset_none _ _ _ _ R) as [E|Lb]; [|lia]. subst m1.
        cbn zeta. apply (Build [] b1 e1 (cts c1) c1); try reflexivity; try (rewrite N.ltb_irrefl; lia); try exact H1; try (intros Hx; congruence); constructor.
Qed.
