(* forget_fired changes nothing but the heap *)
From Coq Require Import List String NArith ZArith Bool.
From Verif Require Import Base.Util Reader.Model.
Import ListNotations.

Definition same_but_heap (s s' : st) : Prop :=
  dcolls s' = dcolls s /\ dparts s' = dparts s /\ handlers s' = handlers s /\ clocks s' = clocks s /\ cbars s' = cbars s
  /\ pbars s' = pbars s /\ pbar_handlers s' = pbar_handlers s /\ keymap s' = keymap s /\ out s' = out s /\ events s' = events s
  /\ alive s' = alive s /\ mg s' = mg s /\ wsh s' = wsh s.

Lemma same_but_heap_refl s : same_but_heap s s.
Proof. repeat split. Qed.

Lemma same_but_heap_trans a b c : same_but_heap a b -> same_but_heap b c -> same_but_heap a c.
Proof.
  unfold same_but_heap. intros H1 H2.
  repeat match goal with H : _ /\ _ |- _ => destruct H end. repeat split; congruence.
Qed.

Lemma forget_name_frame s c n : same_but_heap s (forget_name s c n).
Proof.
  unfold forget_name. destruct (find _ _) as [h|]; [|apply same_but_heap_refl].
  destruct (zlookup _ _); [|apply same_but_heap_refl]. repeat split.
Qed.

Lemma fold_frame {A} (f : st -> A -> st) (Hf : forall s m, same_but_heap s (f s m)) a ms :
  forall x, same_but_heap a x -> same_but_heap a (fold_left f ms x).
Proof.
  induction ms as [|m r IH]; intros x Hx; cbn [fold_left]; [exact Hx|].
  apply IH. eapply same_but_heap_trans; [exact Hx | apply Hf].
Qed.

Lemma forget_fired_frame l b a : same_but_heap a (forget_fired l b a).
Proof.
  unfold forget_fired. destruct l; try apply same_but_heap_refl.
  apply fold_frame; [|apply same_but_heap_refl].
  intros s m. destruct (_ && _); [apply forget_name_frame | apply same_but_heap_refl].
Qed.

(* ---- what forget_name does to the map ---- *)
Lemma alookup_aremove {A} (l : list (string * A)) k : alookup (aremove l k) k = None.
Proof.
  induction l as [|[k' v] r IH]; cbn [aremove alookup]; [reflexivity|].
  destruct (String.eqb k k') eqn:E; [exact IH|]. cbn [alookup]. rewrite E. exact IH.
Qed.

Lemma nlookup_map_upd (f : pmap -> pmap) (hp : list (nat * pmap)) ref :
  nlookup (map (fun x => if Nat.eqb (fst x) ref then (fst x, f (snd x)) else x) hp) ref = option_map f (nlookup hp ref).
Proof.
  unfold nlookup. induction hp as [|[k v] r IH]; cbn [map find]; [reflexivity|]. cbn [fst snd].
  destruct (Nat.eqb k ref) eqn:E.
  - cbn [find fst]. rewrite E. reflexivity.
  - cbn [find fst]. rewrite E. exact IH.
Qed.

Theorem forget_name_forgets s c n h r :
  find (fun h => match zlookup (h_recs h) c with Some _ => true | None => false end) (handlers s) = Some h ->
  zlookup (h_recs h) c = Some r ->
  alookup (heap_get (forget_name s c n) (t_parts r)) n = None.
Proof.
  intros Hf Hr. unfold forget_name. rewrite Hf, Hr. unfold heap_get, upd_state. cbn [heap].
  rewrite (nlookup_map_upd (fun m => aremove m n)).
  destruct (nlookup (heap s) (t_parts r)); cbn [option_map]; [apply alookup_aremove | reflexivity].
Qed.
