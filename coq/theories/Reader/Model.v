(* Reader — executable model of core/reader/replicate_channel_manager.go (manager, channel handlers,
   handlePack / innerHandleReplicateMsg, barriers) and of the per-channel clock of ts_manager.go.
   One label = one stimulus of the harness: a collection is started (all its shards registered), a partition is
   added, one source pack is handed to a shard's stream goroutine (the whole handlePack + enqueue; the schedule-
   controlled variant used for C03 cuts it into sections), a collection is stopped.  What the Go code obtains from
   outside while handling a pack (the downstream's answers to the lazy partition refresh) is an oracle field of
   the label.  Equal channel counts upstream and downstream (the "same mapping" mode).  Shared by C01-C04. *)
From Coq Require Import List String NArith ZArith Bool.
From Verif Require Import Base.Util.
From Verif Require C16.Model C16.Manager.
Import ListNotations.
Local Open Scope string_scope.
Local Open Scope N_scope.

Inductive mkind := KInsert | KDelete | KDropColl | KDropPart | KImport | KCreateColl | KCreatePart | KTick | KOther.
Definition mkind_eqb (a b : mkind) : bool :=
  match a, b with
  | KInsert, KInsert | KDelete, KDelete | KDropColl, KDropColl | KDropPart, KDropPart | KCreateColl, KCreateColl
  | KCreatePart, KCreatePart | KTick, KTick | KOther, KOther | KImport, KImport => true
  | _, _ => false
  end.
Definition supported (k : mkind) : bool := match k with KInsert | KDelete | KDropColl | KDropPart | KImport => true | _ => false end.

(* a source message: harness id, source collection / partition ids, partition name, time, number of rows *)
Record smsg := { m_kind : mkind; m_id : N; m_coll : Z; m_part : Z; m_pname : string; m_ts : N; m_rows : nat;
                 m_pospch : bool (* the source position names the physical channel, not the virtual one *) }.
Record spack := { p_begin : N; p_end : N; p_starts : list N; p_msgs : list smsg }.

(* an emitted message *)
Record emsg := { e_kind : mkind; e_id : N; e_coll : Z; e_part : Z; e_pname : string; e_shard : string;
                 e_poschan : string; e_ts : N; e_posts : N; e_rows : nat }.
Record epack := { ep_chan : string;                          (* the output queue it was put on *)
                  ep_coll : Z; ep_cname : string; ep_spch : string;   (* the label: source collection, source channel *)
                  ep_begin : N; ep_end : N; ep_poschan : string; ep_endposts : N;
                  ep_msgs : list emsg }.
Inductive event := EvDropColl (c : Z) (ts : N) | EvDropPart (c : Z) (p : Z) (ts : N) | EvCreatePart (c : Z) (p : Z)
                 | EvErr (named : bool).          (* error event; does it carry the id of the task whose pack failed? *)

Definition pmap := list (string * Z).
Record trec := { t_tcoll : Z; t_name : string; t_tvch : string; t_tpch : string;
                 t_parts : nat;                        (* reference into the heap of partition maps (shared by the shards) *)
                 t_dropped : bool; t_dropping : list Z;
                 t_barw : bool;                        (* this shard has written its collection drop signal *)
                 t_pbars : list (Z * bool) }.          (* source partition id -> signal written? (barrier registered) *)
Record handler := { h_src : string; h_tgt : string; h_recs : list (Z * trec) }.
(* a shard registered on a handler that has no downstream channel yet: mapping key, collection, record *)
Record wshard := { ws_key : string; ws_coll : Z; ws_rec : trec; ws_seek : N }.
Record clock := { cts : N; lts : N; gate : bool }.
Record bar := { b_dest : nat; b_got : nat; b_ts : N; b_done : bool }.

Record st := {
  dcolls : list Z; dparts : list Z;
  handlers : list handler;
  clocks : list (string * clock);
  heap : list (nat * pmap);
  cbars : list (Z * bar);                              (* collection barriers *)
  pbars : list (Z * Z * bar);                          (* partition barriers: collection, partition *)
  pbar_handlers : list (Z * Z * list string);          (* handlers (by source channel) captured when the partition was added *)
  keymap : list (Z * string);                          (* sourcePChannelKeyMap: (collection, source channel) recorded at handler creation *)
  out : list epack; events : list event;
  alive : bool;
  mg : Manager.mgr;                                    (* the manager's channel mapping, reservations, waiting handlers (C16.Manager) *)
  wsh : list wshard;                                   (* shards whose handler waits for a downstream channel *)
}.

Definition zmem (x : Z) (l : list Z) : bool := existsb (Z.eqb x) l.
Fixpoint zlookup {A} (l : list (Z * A)) (k : Z) : option A :=
  match l with [] => None | (k', v) :: r => if Z.eqb k k' then Some v else zlookup r k end.
Fixpoint zupsert {A} (l : list (Z * A)) (k : Z) (v : A) : list (Z * A) :=
  match l with [] => [(k, v)] | (k', v') :: r => if Z.eqb k k' then (k, v) :: r else (k', v') :: zupsert r k v end.
Fixpoint zremove {A} (l : list (Z * A)) (k : Z) : list (Z * A) :=
  match l with [] => [] | (k', v') :: r => if Z.eqb k k' then zremove r k else (k', v') :: zremove r k end.
Definition nlookup {A} (l : list (nat * A)) (k : nat) : option A :=
  match find (fun p => Nat.eqb (fst p) k) l with Some p => Some (snd p) | None => None end.

(* ---- sort.Slice on at most 12 elements is an insertion sort with the comparator of handlePack ---- *)
Definition less (a b : smsg) : bool :=
  N.ltb (m_ts a) (m_ts b) || (N.eqb (m_ts a) (m_ts b) && mkind_eqb (m_kind a) KDelete).
Fixpoint ins (x : smsg) (rp : list smsg) : list smsg :=
  match rp with [] => [x] | y :: r => if less x y then y :: ins x r else x :: y :: r end.
Definition sort_msgs (l : list smsg) : list smsg := rev (fold_left (fun rp x => ins x rp) l []).

(* the same sort applied to already rewritten messages (a forwarded pack is sorted again by the handler that receives it) *)
Definition eless (a b : emsg) : bool :=
  N.ltb (e_ts a) (e_ts b) || (N.eqb (e_ts a) (e_ts b) && mkind_eqb (e_kind a) KDelete).
Fixpoint eins (x : emsg) (rp : list emsg) : list emsg :=
  match rp with [] => [x] | y :: r => if eless x y then y :: eins x r else x :: y :: r end.
Definition sort_emsgs (l : list emsg) : list emsg := rev (fold_left (fun rp x => eins x rp) l []).

(* ---- the clock (ts_manager.go) ---- *)
Definition collect (c : clock) (t : N) : clock :=
  if N.eqb t 18446744073709551615 then c
  else if N.eqb (cts c) 0 || N.ltb (cts c) t then {| cts := t; lts := lts c; gate := gate c |} else c.

(* resetMsgPackTimestamp: Some (shifted message times, begin, end) when the pack is moved above [newts] *)
Fixpoint deltas (prev_ts : N) (prev_d : N) (i : N) (first : bool) (l : list N) : list N :=
  match l with
  | [] => []
  | t :: r => let d := if negb first && N.eqb prev_ts t then prev_d else i + 1 in
              d :: deltas t d (i + 1) false r
  end.
Definition reset_pack (begin : N) (msg_ts : list N) (newts : N) : option (list N * N * N) :=
  match msg_ts with
  | [] => None
  | _ => if N.ltb newts begin then None
         else let ds := deltas 0 0 0 true msg_ts in
              Some (map (fun d => newts + d) ds, newts + hd 0 ds, newts + last ds 0)
  end.

(* BeginTs = 0 repair of handlePack *)
Definition repair_begin (p : spack) : N :=
  if negb (N.eqb (p_begin p) 0) then p_begin p
  else
    let sup := filter (fun m => supported (m_kind m)) (p_msgs p) in
    let mini := fold_left (fun a m => if N.ltb (m_ts m) a then m_ts m else a) sup (p_end p) in
    match sup with
    | [] => if negb (N.eqb (p_end p) 0) then p_end p
            else match p_starts p with _ :: _ :: _ => hd 0 (p_starts p) | _ => 0 end
    | _ => if negb (N.eqb mini (p_end p)) then (if N.eqb mini 0 then 18446744073709551615 else mini - 1)
           else match p_starts p with _ :: _ :: _ => hd 0 (p_starts p) | _ => 0 end
    end.

(* ---- content phase ---- *)
Definition hlookup (s : st) (src : string) : option handler := find (fun h => String.eqb (h_src h) src) (handlers s).
Definition set_handler (s : st) (h : handler) : list handler :=
  map (fun h' => if String.eqb (h_src h') (h_src h) then h else h') (handlers s).
Definition heap_get (s : st) (r : nat) : pmap := match nlookup (heap s) r with Some m => m | None => [] end.

(* getPartitionID: the lazy refresh consumes downstream answers (None = the downstream call failed) *)
Inductive pres := PFound (id : Z) | PSkip | PErr.
Fixpoint refresh (fuel : nat) (answers : list (option pmap)) (name : string) (is_dropped : bool)
  : pres * list (option pmap) * option pmap :=
  match fuel with
  | O => (PErr, answers, None)
  | S f =>
      match answers with
      | [] => if is_dropped then (PSkip, [], None) else
              (match refresh f [] name is_dropped with (r, a, m) => (r, a, m) end)
      | a :: rest =>
          let id := match a with Some m => match alookup m name with Some i => i | None => 0%Z end | None => 0%Z end in
          if negb (Z.eqb id 0) then (PFound id, rest, a)
          else if is_dropped then (PSkip, rest, a)
          else match refresh f rest name is_dropped with
               | (r, rest', m') => (r, rest', match m' with Some _ => m' | None => a end)
               end
      end
  end.

Record acc := {
  a_st : st;                       (* manager state (dropped sets, heap, barriers, events) *)
  a_h : handler;                   (* the handler whose stream goroutine runs *)
  a_first : option Z;              (* the pack's first collection id *)
  a_out : list emsg;
  a_need : bool;
  a_fwd : option string;
  a_ans : list (option pmap);
  a_cname : string;
}.
Inductive cres := CErr (s : st) | COk (a : acc).

Definition set_rec (h : handler) (c : Z) (r : trec) : handler := {| h_src := h_src h; h_tgt := h_tgt h; h_recs := zupsert (h_recs h) c r |}.
Definition del_rec (h : handler) (c : Z) : handler := {| h_src := h_src h; h_tgt := h_tgt h; h_recs := zremove (h_recs h) c |}.

Definition with_st (a : acc) (s : st) : acc :=
  {| a_st := s; a_h := a_h a; a_first := a_first a; a_out := a_out a; a_need := a_need a; a_fwd := a_fwd a; a_ans := a_ans a; a_cname := a_cname a |}.

Definition upd_state (s : st) (dc dp : list Z) (hp : list (nat * pmap)) (cb : list (Z * bar)) (pb : list (Z * Z * bar)) (ev : list event) : st :=
  {| dcolls := dc; dparts := dp; handlers := handlers s; clocks := clocks s; heap := hp; cbars := cb; pbars := pb;
     pbar_handlers := pbar_handlers s; keymap := keymap s; out := out s; events := ev; alive := alive s; mg := mg s; wsh := wsh s |}.

Definition pbar_key_eqb (a : Z * Z) (c p : Z) : bool := Z.eqb (fst a) c && Z.eqb (snd a) p.
Definition pbar_get (s : st) (c p : Z) : option bar :=
  match find (fun x => pbar_key_eqb (fst x) c p) (pbars s) with Some x => Some (snd x) | None => None end.
Definition pbar_set (l : list (Z * Z * bar)) (c p : Z) (b : bar) : list (Z * Z * bar) :=
  map (fun x => if pbar_key_eqb (fst x) c p then (fst x, b) else x) l.

(* removePartitionInfo on one record, when its shard has read the drop message: the barrier entry goes, the partition is marked
   dropping (both under the source id).  The name stays in the (shared) map - the other shards still need it for their own drop
   message -; the barrier's callback forgets it when every shard has read the message (forget_fired below). *)
Definition remove_part (hp : list (nat * pmap)) (r : trec) (name : string) (id : Z) : list (nat * pmap) * trec :=
  (hp, {| t_tcoll := t_tcoll r; t_name := t_name r; t_tvch := t_tvch r; t_tpch := t_tpch r; t_parts := t_parts r;
          t_dropped := t_dropped r; t_dropping := if zmem id (t_dropping r) then t_dropping r else t_dropping r ++ [id];
          t_barw := t_barw r; t_pbars := zremove (t_pbars r) id |}).

Definition fresh_ref (hp : list (nat * pmap)) : nat := S (fold_left (fun a x => Nat.max a (fst x)) hp O).

(* the partition id lookup of insert / delete / drop partition *)
Definition part_lookup (retries : nat) (a : acc) (c : Z) (r : trec) (pid : Z) (name : string) : pres * acc * trec :=
  let s := a_st a in
  match alookup (heap_get s (t_parts r)) name with
  | Some id => (PFound id, a, r)
  | None =>
      let is_d := zmem c (dcolls s) || zmem pid (dparts s) in
      let '(res, rest, newmap) := refresh retries (a_ans a) name is_d in
      let '(hp, r') := match newmap with
                       | Some m => let ref := fresh_ref (heap s) in
                                   ((heap s ++ [(ref, m)])%list,
                                    {| t_tcoll := t_tcoll r; t_name := t_name r; t_tvch := t_tvch r; t_tpch := t_tpch r; t_parts := ref;
                                       t_dropped := t_dropped r; t_dropping := t_dropping r; t_barw := t_barw r; t_pbars := t_pbars r |})
                       | None => (heap s, r) end in
      let s' := upd_state s (dcolls s) (dparts s) hp (cbars s) (pbars s) (events s) in
      (res, {| a_st := s'; a_h := set_rec (a_h a) c r'; a_first := a_first a; a_out := a_out a; a_need := a_need a; a_fwd := a_fwd a;
               a_ans := rest; a_cname := a_cname a |}, r')
  end.

(* getPartitionIDs of an import message: the message is forwarded with the downstream's partition ids when the downstream has
   as many partitions as the message names; otherwise the partition map is refreshed ([retries] attempts, a failed call leaves
   the map as it was) and the pack is an error if the counts still differ *)
Fixpoint refresh_count (fuel : nat) (answers : list (option pmap)) (count : nat) (cur : pmap) : bool * list (option pmap) * option pmap :=
  match fuel with
  | O => (false, answers, None)
  | S f =>
      match answers with
      | [] => match refresh_count f [] count cur with (ok, a, m) => (ok, a, m) end
      | a :: rest =>
          let cur' := match a with Some m => m | None => cur end in
          if Nat.eqb (List.length cur') count then (true, rest, a)
          else match refresh_count f rest count cur' with
               | (ok, rest', m') => (ok, rest', match m' with Some _ => m' | None => a end)
               end
      end
  end.
Definition import_lookup (retries : nat) (a : acc) (c : Z) (r : trec) (count : nat) : pres * acc * trec :=
  let s := a_st a in
  if Nat.eqb (List.length (heap_get s (t_parts r))) count then (PFound 0, a, r)
  else
      let '(ok, rest, newmap) := refresh_count retries (a_ans a) count (heap_get s (t_parts r)) in
      let '(hp, r') := match newmap with
                       | Some m => let ref := fresh_ref (heap s) in
                                   ((heap s ++ [(ref, m)])%list,
                                    {| t_tcoll := t_tcoll r; t_name := t_name r; t_tvch := t_tvch r; t_tpch := t_tpch r; t_parts := ref;
                                       t_dropped := t_dropped r; t_dropping := t_dropping r; t_barw := t_barw r; t_pbars := t_pbars r |})
                       | None => (heap s, r) end in
      let s' := upd_state s (dcolls s) (dparts s) hp (cbars s) (pbars s) (events s) in
      (if ok then PFound 0 else PErr,
       {| a_st := s'; a_h := set_rec (a_h a) c r'; a_first := a_first a; a_out := a_out a; a_need := a_need a; a_fwd := a_fwd a;
          a_ans := rest; a_cname := a_cname a |}, r').

Definition mk_emsg (m : smsg) (r : trec) (pid : Z) : emsg :=
  {| e_kind := m_kind m; e_id := m_id m; e_coll := t_tcoll r; e_part := pid; e_pname := m_pname m;
     e_shard := match m_kind m with KInsert | KDelete => t_tvch r | _ => "" end;
     e_poschan := if m_pospch m then t_tpch r else t_tvch r; e_ts := m_ts m; e_posts := m_ts m; e_rows := m_rows m |}.

(* appending a message: the forward / not-forward decision of handlePack *)
Definition append (a : acc) (r : trec) (e : emsg) : acc :=
  if negb (String.eqb (h_tgt (a_h a)) (t_tpch r))
  then {| a_st := a_st a; a_h := a_h a; a_first := a_first a; a_out := (a_out a ++ [e])%list; a_need := a_need a;
          a_fwd := Some (t_tpch r); a_ans := a_ans a; a_cname := a_cname a |}
  else match a_fwd a with
       | Some _ => a                                  (* "the pack exist forward and not forward msg": dropped *)
       | None => {| a_st := a_st a; a_h := a_h a; a_first := a_first a; a_out := (a_out a ++ [e])%list; a_need := a_need a;
                    a_fwd := None; a_ans := a_ans a; a_cname := a_cname a |}
       end.

Definition one_msg (retries : nat) (a : acc) (m : smsg) : cres :=
  match m_kind m with
  | KCreateColl | KCreatePart | KTick | KOther => COk a
  | _ =>
      let c0 := match a_first a with Some c => c | None => m_coll m end in
      let a := {| a_st := a_st a; a_h := a_h a; a_first := Some c0; a_out := a_out a; a_need := a_need a; a_fwd := a_fwd a;
                  a_ans := a_ans a; a_cname := a_cname a |} in
      if negb (Z.eqb c0 (m_coll m)) then COk a
      else
        let s := a_st a in
        if zmem c0 (dcolls s) then COk a
        else match zlookup (h_recs (a_h a)) c0 with
             | None => CErr {| dcolls := dcolls s; dparts := dparts s; handlers := handlers s; clocks := clocks s; heap := heap s;
                               cbars := cbars s; pbars := pbars s; pbar_handlers := pbar_handlers s; keymap := keymap s; out := out s;
                               events := (events s ++ [EvErr true])%list; alive := alive s; mg := mg s; wsh := wsh s |}
             | Some r =>
                 let a := {| a_st := a_st a; a_h := a_h a; a_first := a_first a; a_out := a_out a; a_need := a_need a; a_fwd := a_fwd a;
                             a_ans := a_ans a; a_cname := t_name r |} in
                 let err (a' : acc) := let s' := a_st a' in
                     CErr {| dcolls := dcolls s'; dparts := dparts s'; handlers := set_handler s' (a_h a'); clocks := clocks s'; heap := heap s';
                             cbars := cbars s'; pbars := pbars s'; pbar_handlers := pbar_handlers s'; keymap := keymap s'; out := out s';
                             events := (events s' ++ [EvErr true])%list; alive := alive s'; mg := mg s'; wsh := wsh s' |} in
                 match m_kind m with
                 | KInsert =>
                     if t_dropped r then COk a
                     else match part_lookup retries a c0 r (m_part m) (m_pname m) with
                          | (PFound id, a', r') => COk (append a' r' (mk_emsg m r' id))
                          | (PSkip, a', _) => COk a'
                          | (PErr, a', _) => err a'
                          end
                 | KDelete =>
                     if t_dropped r then COk a
                     else if zmem (m_part m) (dparts s) || zmem (m_part m) (t_dropping r) then COk a
                     else if String.eqb (m_pname m) "" then COk (append a r (mk_emsg m r (m_part m)))
                     else match part_lookup retries a c0 r (m_part m) (m_pname m) with
                          | (PFound id, a', r') => COk (append a' r' (mk_emsg m r' id))
                          | (PSkip, a', _) => COk a'
                          | (PErr, a', _) => err a'
                          end
                 | KDropColl =>
                     (* once-only signal to the collection barrier, the record leaves the handler *)
                     let cb := if t_barw r then cbars s
                               else match zlookup (cbars s) c0 with
                                    | Some b => zupsert (cbars s) c0 {| b_dest := b_dest b; b_got := S (b_got b); b_ts := m_ts m; b_done := b_done b |}
                                    | None => cbars s end in
                     let s' := upd_state s (dcolls s) (dparts s) (heap s) cb (pbars s) (events s) in
                     let a' := {| a_st := s'; a_h := del_rec (a_h a) c0; a_first := a_first a; a_out := a_out a; a_need := true; a_fwd := a_fwd a;
                                  a_ans := a_ans a; a_cname := a_cname a |} in
                     COk (append a' r (mk_emsg m r (m_part m)))
                 | KDropPart =>
                     if t_dropped r then COk a
                     else if zmem (m_part m) (dparts s) then COk a
                     else if String.eqb (m_pname m) "" then COk a
                     else match zlookup (t_pbars r) (m_part m) with
                          | None => if zmem (t_tcoll r) (dcolls s) then COk a else err a       (* no barrier registered: retries, then error *)
                          | Some written =>
                              if zmem (t_tcoll r) (dcolls s) then COk a
                              else match part_lookup retries a c0 r (m_part m) (m_pname m) with
                                   | (PFound id, a', r') =>
                                       let s1 := a_st a' in
                                       let pb := if written then pbars s1
                                                 else match pbar_get s1 c0 (m_part m) with
                                                      | Some b => pbar_set (pbars s1) c0 (m_part m)
                                                                    {| b_dest := b_dest b; b_got := S (b_got b); b_ts := m_ts m; b_done := b_done b |}
                                                      | None => pbars s1 end in
                                       let '(hp, r'') := remove_part (heap s1) r' (m_pname m) (m_part m) in
                                       let s2 := upd_state s1 (dcolls s1) (dparts s1) hp (cbars s1) pb (events s1) in
                                       let a'' := {| a_st := s2; a_h := set_rec (a_h a') c0 r''; a_first := a_first a'; a_out := a_out a';
                                                     a_need := a_need a'; a_fwd := a_fwd a'; a_ans := a_ans a'; a_cname := a_cname a' |} in
                                       COk (append a'' r'' (mk_emsg m r' id))
                                   | (PSkip, a', _) => COk a'
                                   | (PErr, a', _) => err a'
                                   end
                          end
                 | KImport =>
                     if t_dropped r then COk a
                     else match import_lookup retries a c0 r (m_rows m) with
                          | (PFound _, a', r') => COk (append a' r' (mk_emsg m r' 0))
                          | (_, a', _) => err a'
                          end
                 | _ => COk a
                 end
             end
  end.

Fixpoint all_msgs (retries : nat) (a : acc) (l : list smsg) : cres :=
  match l with
  | [] => COk a
  | m :: r => match one_msg retries a m with CErr s => CErr s | COk a' => all_msgs retries a' r end
  end.

(* ---- timing phase and enqueue (sections S2a, S2b, S3, S4 in one step) ---- *)
Definition clock_of (s : st) (ch : string) : clock := match alookup (clocks s) ch with Some c => c | None => {| cts := 0; lts := 0; gate := false |} end.
Definition set_clock (s : st) (ch : string) (c : clock) : st :=
  {| dcolls := dcolls s; dparts := dparts s; handlers := handlers s; clocks := aupsert (clocks s) ch c; heap := heap s; cbars := cbars s;
     pbars := pbars s; pbar_handlers := pbar_handlers s; keymap := keymap s; out := out s; events := events s; alive := alive s; mg := mg s; wsh := wsh s |}.

Definition retime (e : emsg) (t : N) : emsg :=
  {| e_kind := e_kind e; e_id := e_id e; e_coll := e_coll e; e_part := e_part e; e_pname := e_pname e; e_shard := e_shard e;
     e_poschan := e_poschan e; e_ts := t; e_posts := t; e_rows := e_rows e |}.
Definition tick (ch : string) (t pt : N) : emsg :=
  {| e_kind := KTick; e_id := 0; e_coll := 0; e_part := 0; e_pname := ""; e_shard := ""; e_poschan := ch; e_ts := t; e_posts := pt; e_rows := O |}.

Definition apply_reset (msgs : list emsg) (begin e : N) (newts : N) : option (list emsg * N * N) :=
  match reset_pack begin (map e_ts msgs) newts with
  | None => None
  | Some (ts', b', e') => Some (map (fun p => retime (fst p) (snd p)) (combine msgs ts'), b', e')
  end.

(* returns the state after the pack has been timed and put on the queue of channel [ch] *)
Definition emit (s : st) (ch : string) (label : Z * string * string) (begin e : N) (msgs : list emsg) (need : bool) : st :=
  let c0 := clock_of s ch in
  (* S2a / S2b *)
  let '(msgs1, b1, e1, c1) :=
    match apply_reset msgs begin e (cts c0) with
    | Some (m', b', e') => (m', b', e', collect c0 e')
    | None => (msgs, begin, e, c0)
    end in
  (* S3 *)
  let has := match msgs1 with [] => false | _ => true end in
  let reset_last := need || has in
  if negb (reset_last || (gate c1 && negb (N.eqb (cts c1) 0))) then set_clock s ch c1
  else
    let '(msgs2, b2, e2, gen, c2) :=
      if N.ltb (lts c1) b1 then (msgs1, b1, e1, cts c1, c1)
      else match apply_reset msgs1 b1 e1 (cts c1) with
           | Some (m', b', e') => (m', b', e', e', {| cts := e'; lts := lts c1; gate := gate c1 |})
           | None => (msgs1, b1, e1, cts c1, c1)                (* after the repair C03-tick-only: the closing tick follows the clock *)
           end in
    let closing := tick ch gen e2 in
    let body := (msgs2 ++ [closing])%list in
    let body := if N.eqb (lts c2) 0 then tick ch b2 b2 :: body else body in
    let c3 := {| cts := if N.ltb (cts c2) gen then gen else cts c2; lts := gen; gate := reset_last |} in
    let '(coll, cname, spch) := label in
    let pk := {| ep_chan := ch; ep_coll := coll; ep_cname := cname; ep_spch := spch; ep_begin := b2; ep_end := e2;
                 ep_poschan := ch; ep_endposts := e2; ep_msgs := body |} in
    let s1 := set_clock s ch c3 in
    {| dcolls := dcolls s1; dparts := dparts s1; handlers := handlers s1; clocks := clocks s1; heap := heap s1; cbars := cbars s1;
       pbars := pbars s1; pbar_handlers := pbar_handlers s1; keymap := keymap s1; out := (out s1 ++ [pk])%list; events := events s1; alive := alive s1; mg := mg s1; wsh := wsh s1 |}.

(* the same in the two sections the code takes it in - before the channel lock: S2a / S2b, the pack is shifted above the
   channel's time and the channel's time is raised; under the channel lock: S3 (shifted again if a tick overtook it), the closing
   tick, the clock update and S4, the enqueue (after the repair C03-enqueue-under-lock the pack is put on the queue before the
   lock is released).  Other handlers of the channel may run between the two sections *)
Definition emit1 (s : st) (ch : string) (begin e : N) (msgs : list emsg) : st * (list emsg * N * N) :=
  let c0 := clock_of s ch in
  match apply_reset msgs begin e (cts c0) with
  | Some (m', b', e') => (set_clock s ch (collect c0 e'), (m', b', e'))
  | None => (s, (msgs, begin, e))
  end.

Definition emit23 (s : st) (ch : string) (label : Z * string * string) (pend : list emsg * N * N) (need : bool) : st :=
  let '(msgs1, b1, e1) := pend in
  let c1 := clock_of s ch in
  let has := match msgs1 with [] => false | _ => true end in
  let reset_last := need || has in
  if negb (reset_last || (gate c1 && negb (N.eqb (cts c1) 0))) then set_clock s ch c1
  else
    let '(msgs2, b2, e2, gen, c2) :=
      if N.ltb (lts c1) b1 then (msgs1, b1, e1, cts c1, c1)
      else match apply_reset msgs1 b1 e1 (cts c1) with
           | Some (m', b', e') => (m', b', e', e', {| cts := e'; lts := lts c1; gate := gate c1 |})
           | None => (msgs1, b1, e1, cts c1, c1)
           end in
    let closing := tick ch gen e2 in
    let body := (msgs2 ++ [closing])%list in
    let body := if N.eqb (lts c2) 0 then tick ch b2 b2 :: body else body in
    let c3 := {| cts := if N.ltb (cts c2) gen then gen else cts c2; lts := gen; gate := reset_last |} in
    let '(coll, cname, spch) := label in
    let pk := {| ep_chan := ch; ep_coll := coll; ep_cname := cname; ep_spch := spch; ep_begin := b2; ep_end := e2;
                 ep_poschan := ch; ep_endposts := e2; ep_msgs := body |} in
    let s1 := set_clock s ch c3 in
    {| dcolls := dcolls s1; dparts := dparts s1; handlers := handlers s1; clocks := clocks s1; heap := heap s1; cbars := cbars s1;
       pbars := pbars s1; pbar_handlers := pbar_handlers s1; keymap := keymap s1; out := (out s1 ++ [pk])%list; events := events s1; alive := alive s1; mg := mg s1; wsh := wsh s1 |}.

(* ---- barriers firing (the barrier goroutines), run to completion after every label ---- *)
Definition fire_cbars (s : st) : st :=
  fold_left (fun s cb =>
    let '(c, b) := cb in
    if negb (b_done b) && Nat.leb (b_dest b) (b_got b)
    then (* drop-collection event, the collection is marked dropped, its shards are stopped where the manager finds them *)
      let hs := map (fun h => if existsb (fun k => Z.eqb (fst k) c && String.eqb (snd k) (h_src h)) (keymap s) then del_rec h c else h) (handlers s) in
      {| dcolls := (dcolls s ++ [c])%list; dparts := dparts s; handlers := hs; clocks := clocks s; heap := heap s;
         cbars := zremove (cbars s) c; pbars := pbars s; pbar_handlers := pbar_handlers s; keymap := keymap s; out := out s;
         events := (events s ++ [EvDropColl c (b_ts b)])%list; alive := alive s; mg := mg s; wsh := wsh s |}
    else s) (cbars s) s.

Definition fire_pbars (s : st) : st :=
  fold_left (fun s pb =>
    let '((c, p), b) := pb in
    if negb (b_done b) && Nat.leb (b_dest b) (b_got b)
    then {| dcolls := dcolls s; dparts := (dparts s ++ [p])%list; handlers := handlers s; clocks := clocks s; heap := heap s;
            cbars := cbars s; pbars := pbar_set (pbars s) c p {| b_dest := b_dest b; b_got := b_got b; b_ts := b_ts b; b_done := true |};
            pbar_handlers := pbar_handlers s; keymap := keymap s; out := out s;
            events := (events s ++ [EvDropPart c p (b_ts b)])%list; alive := alive s; mg := mg s; wsh := wsh s |}
    else s) (pbars s) s.

(* ---- labels ---- *)
Record shard := { sh_svch : string; sh_spch : string; sh_tvch : string; sh_tpch : string }.
(* source and downstream shards as (virtual channel, physical channel) in the order the catalogs list them *)
Record collinfo := { ci_id : Z; ci_name : string; ci_tid : Z; ci_src : list (string * string); ci_tgt : list (string * string);
                     ci_parts : pmap; ci_dropped : bool;
                     ci_seek : list (string * N) }.   (* seek positions handed to StartReadCollection: source physical channel -> time *)
Definition seek_of (c : collinfo) (spch : string) : N := match alookup (ci_seek c) spch with Some z => z | None => 0 end.

(* ForeachChannel: both lists sorted by virtual channel name, paired position by position *)
Fixpoint sins (x : string * string) (l : list (string * string)) : list (string * string) :=
  match l with [] => [x] | y :: r => if String.leb (fst x) (fst y) then x :: y :: r else y :: sins x r end.
Definition ssort (l : list (string * string)) : list (string * string) := fold_right sins [] l.
Definition pairing (c : collinfo) : option (list shard) :=
  if Nat.eqb (List.length (ci_src c)) (List.length (ci_tgt c))
  then Some (map (fun st => {| sh_svch := fst (fst st); sh_spch := snd (fst st); sh_tvch := fst (snd st); sh_tpch := snd (snd st) |})
                 (combine (ssort (ci_src c)) (ssort (ci_tgt c))))
  else None.

Inductive label :=
| StartColl (c : collinfo)
| AddPart (c : Z) (pid : Z) (pname : string) (target_has : bool) (dropped : bool)   (* dropped: the source catalog lists the partition as dropping / dropped *)
| Feed (c : Z) (cname : string) (spch : string) (p : spack) (answers : list (option pmap))
| MarkDropped (cs : list Z)
| StopColl (c : Z) (spchs : list string)
| Config (ns nt : N).                 (* the channel counts the manager is created with (before anything is started); default 0 and 0: one-to-one *)

(* ---- the manager's assignment of downstream channels (C16.Manager), as far as the reader's state depends on it ----
   Equal channel counts or more source than downstream channels: the mapping key is the source channel. *)
Definition with_mg (s : st) (g : Manager.mgr) (w : list wshard) : st :=
  {| dcolls := dcolls s; dparts := dparts s; handlers := handlers s; clocks := clocks s; heap := heap s; cbars := cbars s; pbars := pbars s;
     pbar_handlers := pbar_handlers s; keymap := keymap s; out := out s; events := events s; alive := alive s; mg := g; wsh := w |}.

(* a handler starts reading: its record list, its downstream channel, the channel's clock entry (InitTSInfo with the time of
   the handler's seek position as floor, then collectionSourceSeekPosition) *)
Definition start_handler (s : st) (src tgt : string) (recs : list (Z * trec)) (z : N) : st :=
  let h := {| h_src := src; h_tgt := tgt; h_recs := recs |} in
  let k := collect (clock_of s tgt) z in
  let ck := {| cts := cts k; lts := lts k; gate := true |} in
  {| dcolls := dcolls s; dparts := dparts s; handlers := (handlers s ++ [h])%list; clocks := aupsert (clocks s) tgt ck; heap := heap s;
     cbars := cbars s; pbars := pbars s; pbar_handlers := pbar_handlers s; keymap := keymap s;
     out := out s; events := events s; alive := alive s; mg := mg s; wsh := wsh s |}.

Definition add_shard (s : st) (c : collinfo) (ref : nat) (sh : shard) : st :=
  let r := {| t_tcoll := ci_tid c; t_name := ci_name c; t_tvch := sh_tvch sh; t_tpch := sh_tpch sh; t_parts := ref;
              t_dropped := ci_dropped c; t_dropping := []; t_barw := false; t_pbars := [] |} in
  let g := mg s in
  let k := C16.Model.key (Manager.g_cm g) (sh_spch sh) (sh_tpch sh) in
  let g1 := Manager.offer_step Manager.cfg_now g (sh_spch sh) (sh_tpch sh) in
  match hlookup s k with
  | Some h =>
      (* the handler reads already: the collection is added to it (and a differing downstream channel is forwarded, see g1) *)
      {| dcolls := dcolls s; dparts := dparts s; handlers := set_handler s (set_rec h (ci_id c) r);
         clocks := aupsert (clocks s) (h_tgt h) (collect (clock_of s (h_tgt h)) (seek_of c (sh_spch sh)));      (* AddCollection: collectionSourceSeekPosition *)
         heap := heap s;
         cbars := cbars s; pbars := pbars s; pbar_handlers := pbar_handlers s; keymap := keymap s; out := out s; events := events s; alive := alive s;
         mg := g1; wsh := wsh s |}
  | None =>
      if Manager.has_handler g k
      then (* the key's handler waits for a channel: AddCollection blocks until it starts *)
        with_mg s g1 (wsh s ++ [{| ws_key := k; ws_coll := ci_id c; ws_rec := r; ws_seek := seek_of c (sh_spch sh) |}])%list
      else
        let s1 := {| dcolls := dcolls s; dparts := dparts s; handlers := handlers s; clocks := clocks s; heap := heap s;
                     cbars := cbars s; pbars := pbars s; pbar_handlers := pbar_handlers s; keymap := (keymap s ++ [(ci_id c, sh_spch sh)])%list;
                     out := out s; events := events s; alive := alive s; mg := g1; wsh := wsh s |} in
        match alookup (C16.Model.tbl (Manager.g_cm g1)) k with
        | Some _ => start_handler s1 k (sh_tpch sh) [(ci_id c, r)] (seek_of c (sh_spch sh))          (* assigned at once *)
        | None => with_mg s1 g1 (wsh s ++ [{| ws_key := k; ws_coll := ci_id c; ws_rec := r; ws_seek := seek_of c (sh_spch sh) |}])%list   (* the downstream channel is full: the handler waits *)
        end
  end.

(* the goroutines of the manager run to quiescence after the offers of a collection: reservations, rendezvous, waiting handlers
   taking their channel.  With at most one waiting handler and one pending forward at a time (the scripts of the harness) the order
   does not matter; the model takes the first enabled step *)
Fixpoint settle_mg (fuel : nat) (g : Manager.mgr) : Manager.mgr :=
  match fuel with
  | O => g
  | S f => match Manager.taus Manager.cfg_now g with [] => g | g' :: _ => settle_mg f g' end
  end.
(* waiting handlers that have been given a channel start reading with the shards queued on them *)
Definition materialise (s : st) : st :=
  let g := mg s in
  let keys := fold_left (fun acc w => if mem_str (ws_key w) acc then acc else (acc ++ [ws_key w])%list) (wsh s) [] in
  fold_left (fun s k =>
    match alookup (C16.Model.tbl (Manager.g_cm g)) k, Manager.find_handler g k with
    | Some _, Some mh =>
        let mine := filter (fun w => String.eqb (ws_key w) k) (wsh s) in
        let rest := filter (fun w => negb (String.eqb (ws_key w) k)) (wsh s) in
        let s1 := start_handler s k (Manager.h_tgt mh) (fold_left (fun l w => zupsert l (ws_coll w) (ws_rec w)) mine [])
                                (match mine with w :: _ => ws_seek w | [] => 0 end) in
        let s2 := fold_left (fun s w => set_clock s (Manager.h_tgt mh) (collect (clock_of s (Manager.h_tgt mh)) (ws_seek w))) mine s1 in
        with_mg s2 (mg s2) rest
    | _, _ => s
    end) keys s.
Definition settle (s : st) : st := materialise (with_mg s (settle_mg 64 (mg s)) (wsh s)).

(* the callback of a partition barrier, after it has handed the drop request over: RemovePartitionInfo on the handlers of the
   collection forgets the partition's name in their (shared) map - whatever id it stands for there, the map holds downstream ids
   and a missing name is learnt again from the downstream.  The name is the one of the drop message whose label completed the
   barrier. *)
Definition forget_name (s : st) (c : Z) (name : string) : st :=
  match find (fun h => match zlookup (h_recs h) c with Some _ => true | None => false end) (handlers s) with
  | Some h =>
      match zlookup (h_recs h) c with
      | Some r => upd_state s (dcolls s) (dparts s)
                    (map (fun x => if Nat.eqb (fst x) (t_parts r) then (fst x, aremove (snd x) name) else x) (heap s))
                    (cbars s) (pbars s) (events s)
      | None => s
      end
  | None => s
  end.
Definition forget_fired (l : label) (before after : st) : st :=
  match l with
  | Feed _ _ _ p _ =>
      fold_left (fun s m =>
                   if mkind_eqb (m_kind m) KDropPart && zmem (m_part m) (dparts after) && negb (zmem (m_part m) (dparts before))
                   then forget_name s (m_coll m) (m_pname m) else s) (p_msgs p) after
  | _ => after
  end.

Definition step (retries : nat) (s : st) (l : label) : st :=
  let s' :=
  match l with
  | StartColl c =>
      if zmem (ci_id c) (dcolls s) then s
      else match zlookup (cbars s) (ci_id c) with
           | Some _ => s
           | None =>
               match pairing c with
               | None => s                              (* different shard counts: StartReadCollection returns an error *)
               | Some shards =>
                   let ref := fresh_ref (heap s) in
                   let s1 := {| dcolls := dcolls s; dparts := dparts s; handlers := handlers s; clocks := clocks s; heap := (heap s ++ [(ref, ci_parts c)])%list;
                                cbars := zupsert (cbars s) (ci_id c) {| b_dest := List.length shards; b_got := O; b_ts := 0; b_done := false |};
                                pbars := pbars s; pbar_handlers := pbar_handlers s; keymap := keymap s; out := out s; events := events s; alive := alive s; mg := mg s; wsh := wsh s |} in
                   settle (fold_left (fun s sh => add_shard s c ref sh) shards s1)
               end
           end
  | AddPart c pid pname target_has pdropped =>
      if zmem pid (dparts s) || zmem c (dcolls s) then s
      else
        let hs := filter (fun h => match zlookup (h_recs h) c with Some _ => true | None => false end) (handlers s) in
        match hs with
        | [] => s
        | h0 :: _ =>
            match zlookup (h_recs h0) c with
            | None => s
            | Some r0 =>
                if t_dropped r0 then s
                else
                  let known := match alookup (heap_get s (t_parts r0)) pname with Some _ => true | None => false end in
                  if negb known && pdropped
                  then (* dropped on both sides: remembered as dropped, nothing to replicate *)
                    upd_state s (dcolls s) (dparts s ++ [pid])%list (heap s) (cbars s) (pbars s) (events s)
                  else
                  let ev := if known then events s else (events s ++ [EvCreatePart c pid])%list in
                  match pbar_get s c pid with
                  | Some _ => upd_state s (dcolls s) (dparts s) (heap s) (cbars s) (pbars s) ev
                  | None =>
                      let pb := (pbars s ++ [((c, pid), {| b_dest := List.length hs; b_got := O; b_ts := 0; b_done := false |})])%list in
                      let hs' := map (fun h => match zlookup (h_recs h) c with
                                               | Some r => if t_dropped r then h
                                                           else match zlookup (t_pbars r) pid with
                                                                | Some _ => h
                                                                | None => set_rec h c {| t_tcoll := t_tcoll r; t_name := t_name r; t_tvch := t_tvch r; t_tpch := t_tpch r;
                                                                                         t_parts := t_parts r; t_dropped := t_dropped r;
                                                                                         (* AddPartitionInfo: a partition listed as dropped is marked on this shard; the handler then
                                                                                            generates the drop-partition message itself (a pack at its seek time, see Feed) *)
                                                                                         t_dropping := if pdropped && negb (zmem pid (t_dropping r)) then (t_dropping r ++ [pid])%list else t_dropping r;
                                                                                         t_barw := t_barw r; t_pbars := (t_pbars r ++ [(pid, false)])%list |}
                                                                end
                                               | None => h end) (handlers s) in
                      {| dcolls := dcolls s; dparts := dparts s; handlers := hs'; clocks := clocks s; heap := heap s; cbars := cbars s; pbars := pb;
                         pbar_handlers := (pbar_handlers s ++ [((c, pid), map h_src hs)])%list; keymap := keymap s; out := out s; events := ev; alive := alive s; mg := mg s; wsh := wsh s |}
                  end
            end
        end
  | Feed c cname spch p answers =>
      match hlookup s spch with
      | None => s
      | Some h =>
          let begin := repair_begin p in
          let s0 := set_clock s (h_tgt h) (collect (clock_of s (h_tgt h)) begin) in
          let a0 := {| a_st := s0; a_h := h; a_first := None; a_out := []; a_need := false; a_fwd := None; a_ans := answers; a_cname := "" |} in
          match all_msgs retries a0 (sort_msgs (p_msgs p)) with
          | CErr s1 => {| dcolls := dcolls s1; dparts := dparts s1; handlers := handlers s1; clocks := clocks s1; heap := heap s1; cbars := cbars s1;
                          pbars := pbars s1; pbar_handlers := pbar_handlers s1; keymap := keymap s1; out := out s1; events := events s1; alive := alive s1; mg := mg s1; wsh := wsh s1 |}
          | COk a =>
              let s1 := a_st a in
              let s1 := {| dcolls := dcolls s1; dparts := dparts s1; handlers := set_handler s1 (a_h a); clocks := clocks s1; heap := heap s1; cbars := cbars s1;
                           pbars := pbars s1; pbar_handlers := pbar_handlers s1; keymap := keymap s1; out := out s1; events := events s1; alive := alive s1; mg := mg s1; wsh := wsh s1 |} in
              let lab_coll := (c, cname, spch) in
              match a_fwd a with
              | Some tgt =>
                  (* forwarded to the handler that owns the wanted downstream channel; it times the pack on its own clock *)
                  match find (fun h' => String.eqb (h_tgt h') tgt) (handlers s1) with
                  | Some _ =>
                      let fl := (match a_first a with Some x => x | None => (-1)%Z end, a_cname a, spch) in
                      let s2 := set_clock s1 tgt (collect (clock_of s1 tgt) begin) in
                      emit s2 tgt fl begin (p_end p) (sort_emsgs (a_out a)) (existsb (fun e => mkind_eqb (e_kind e) KDropColl) (a_out a))
                  | None => {| dcolls := dcolls s1; dparts := dparts s1; handlers := handlers s1; clocks := clocks s1; heap := heap s1; cbars := cbars s1;
                               pbars := pbars s1; pbar_handlers := pbar_handlers s1; keymap := keymap s1; out := out s1;
                               events := (events s1 ++ [EvErr true])%list; alive := alive s1; mg := mg s1; wsh := wsh s1 |}
                  end
              | None => emit s1 (h_tgt h) lab_coll begin (p_end p) (map (fun e => {| e_kind := e_kind e; e_id := e_id e; e_coll := e_coll e; e_part := e_part e;
                                                                                      e_pname := e_pname e; e_shard := e_shard e; e_poschan := e_poschan e;
                                                                                      e_ts := e_ts e; e_posts := e_posts e; e_rows := e_rows e |}) (a_out a)) (a_need a)
              end
          end
      end
  | MarkDropped cs =>
      {| dcolls := (dcolls s ++ cs)%list; dparts := dparts s; handlers := handlers s; clocks := clocks s; heap := heap s; cbars := cbars s; pbars := pbars s;
         pbar_handlers := pbar_handlers s; keymap := keymap s; out := out s; events := events s; alive := alive s; mg := mg s; wsh := wsh s |}
  | Config ns nt =>
      match handlers s, wsh s, Manager.g_hs (mg s) with
      | [], [], [] => with_mg s (Manager.init ns nt) []
      | _, _, _ => s
      end
  | StopColl c spchs =>
      let hs := map (fun h => if existsb (String.eqb (h_src h)) spchs && existsb (fun k => Z.eqb (fst k) c && String.eqb (snd k) (h_src h)) (keymap s)
                              then del_rec h c else h) (handlers s) in
      {| dcolls := dcolls s; dparts := dparts s; handlers := hs; clocks := clocks s; heap := heap s; cbars := zremove (cbars s) c;
         pbars := filter (fun x => negb (Z.eqb (fst (fst x)) c)) (pbars s); pbar_handlers := pbar_handlers s; keymap := keymap s;
         out := out s; events := events s; alive := alive s; mg := mg s; wsh := wsh s |}
  end in
  forget_fired l s (fire_pbars (fire_cbars s')).

Definition init : st :=
  {| dcolls := []; dparts := []; handlers := []; clocks := []; heap := []; cbars := []; pbars := []; pbar_handlers := []; keymap := [];
     out := []; events := []; alive := true; mg := Manager.init 0 0; wsh := [] |}.
Definition run (retries : nat) (ls : list label) : st := fold_left (step retries) ls init.

(* ---- cases: what the harness observed (final output queues in arrival order, the events) ---- *)
(* c_out_at / c_ev_at: for every observed pack / event the index of the label after which it was first seen *)
Record case := { c_retries : nat; c_labels : list label; c_out : list epack; c_events : list event;
                 c_out_at : list nat; c_ev_at : list nat }.

Definition emsg_eqb (a b : emsg) : bool :=
  mkind_eqb (e_kind a) (e_kind b) && N.eqb (e_id a) (e_id b) && Z.eqb (e_coll a) (e_coll b) && Z.eqb (e_part a) (e_part b)
  && String.eqb (e_pname a) (e_pname b) && String.eqb (e_shard a) (e_shard b) && String.eqb (e_poschan a) (e_poschan b)
  && N.eqb (e_ts a) (e_ts b) && N.eqb (e_posts a) (e_posts b) && Nat.eqb (e_rows a) (e_rows b).
Definition epack_eqb (a b : epack) : bool :=
  String.eqb (ep_chan a) (ep_chan b) && Z.eqb (ep_coll a) (ep_coll b) && String.eqb (ep_cname a) (ep_cname b) && String.eqb (ep_spch a) (ep_spch b)
  && N.eqb (ep_begin a) (ep_begin b) && N.eqb (ep_end a) (ep_end b) && String.eqb (ep_poschan a) (ep_poschan b) && N.eqb (ep_endposts a) (ep_endposts b)
  && list_eqb emsg_eqb (ep_msgs a) (ep_msgs b).
Definition event_eqb (a b : event) : bool :=
  match a, b with
  (* the time stamp of a drop event is read by the barrier goroutine from the very message object that the stream
     goroutine re-times concurrently: it is the source time or the shifted time, depending on the schedule
     (DESIGN.md section 7, item 19); it is not compared *)
  | EvDropColl c t, EvDropColl c' t' => Z.eqb c c'
  | EvDropPart c p t, EvDropPart c' p' t' => Z.eqb c c' && Z.eqb p p'
  | EvCreatePart c p, EvCreatePart c' p' => Z.eqb c c' && Z.eqb p p'
  | EvErr a, EvErr b => Bool.eqb a b
  | _, _ => false
  end.
Definition chans_of (l : list epack) : list string := fold_left (fun acc p => if mem_str (ep_chan p) acc then acc else (acc ++ [ep_chan p])%list) l [].
Definition on_chan (ch : string) (l : list epack) : list epack := filter (fun p => String.eqb (ep_chan p) ch) l.
Definition agrees (c : case) : bool :=
  let m := run (c_retries c) (c_labels c) in
  forallb (fun ch => list_eqb epack_eqb (on_chan ch (out m)) (on_chan ch (c_out c))) (chans_of (out m ++ c_out c))
  (* events of one step come from different goroutines (barrier, stream): compared as a multiset *)
  && Nat.eqb (List.length (events m)) (List.length (c_events c))
  && forallb (fun e => Nat.eqb (List.length (filter (event_eqb e) (events m))) (List.length (filter (event_eqb e) (c_events c)))) (events m).
