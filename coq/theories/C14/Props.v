(* C14 — property theorems only *)
From Coq Require Import List NArith ZArith Bool.
From Verif Require Import Base.Util C14.Model C14.Proofs.
Import ListNotations.
Local Open Scope Z_scope.

(* For every configuration, number of packers, operation sequence, timer pattern and callback
   failure pattern: per packer, (ids handed to the callback so far) ++ (ids still buffered) is
   exactly the received sequence — nothing lost, duplicated or reordered. *)
Theorem C14_exactly_once_in_order : forall c k ops i p,
  nth_error (ps (fst (run c (init k) ops))) i = Some p ->
  deliv i (outs (fst (run c (init k) ops))) ++ map fst (msgs p) = recv_ids i ops.
Proof. exact exactly_once_in_order. Qed.
Print Assumptions C14_exactly_once_in_order.

(* the shutdown flush hands over everything that was received *)
Theorem C14_clear_delivers_all : forall c k ops i fail, (i < k)%nat ->
  deliv i (outs (fst (run c (init k) (ops ++ [Clear i fail])))) = recv_ids i ops.
Proof. exact clear_delivers_all. Qed.
Print Assumptions C14_clear_delivers_all.

(* the global buffered-bytes counter equals the bytes buffered in all packers, hence zero when all are empty *)
Theorem C14_global_counter : forall c k ops,
  let s := fst (run c (init k) ops) in
  cur s = sumz (map (fun p => sumz (map snd (msgs p))) (ps s)).
Proof. exact global_counter. Qed.
Print Assumptions C14_global_counter.

Theorem C14_global_zero : forall c k ops,
  let s := fst (run c (init k) ops) in
  (forall p, In p (ps s) -> msgs p = []) -> cur s = 0.
Proof. exact global_zero. Qed.
Print Assumptions C14_global_zero.

(* a callback error is returned to the caller; no callback, no error *)
Theorem C14_error_returned : forall c s o,
  let '(s1, e) := step c s o in
  (outs s1 = outs s /\ e = false) \/ (exists k, outs s1 = outs s ++ [k] /\ k_fail k = e).
Proof. exact error_returned. Qed.
Print Assumptions C14_error_returned.

Example C14_nonvacuous :
  let c := {| max_count := 3; max_size := 100; mem_max := 1000 |} in
  let '(s, es) := run c (init 2) [Recv 0 1%N 10 false false; Recv 1 2%N 200 false true; Recv 0 3%N 10 false false;
                                  Recv 0 4%N 10 false false; Recv 0 5%N 5 false false; Clear 0 false] in
  map (fun k => (k_who k, k_ids k)) (outs s) = [(1%nat, [2%N]); (0%nat, [1%N; 3%N; 4%N]); (0%nat, [5%N])]
  /\ es = [false; true; false; false; false; false] /\ cur s = 0.
Proof. vm_compute. repeat split. Qed.
