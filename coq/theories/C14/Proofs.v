(* C14 — proofs about the packer model *)
From Coq Require Import List NArith ZArith Bool Lia Arith.
From Verif Require Import Base.Util C14.Model.
Import ListNotations.
Local Open Scope Z_scope.

Fixpoint sumz (l : list Z) : Z := match l with [] => 0 | x :: r => x + sumz r end.
Definition deliv (i : nat) (os : list call) : list N :=
  flat_map (fun k => if Nat.eqb i (k_who k) then k_ids k else []) os.

Lemma sumz_app a b : sumz (a ++ b) = sumz a + sumz b.
Proof. induction a as [|x a IH]; cbn; [reflexivity|rewrite IH; lia]. Qed.

Lemma nth_error_upd_same {A} (l : list A) i x p : nth_error l i = Some p -> nth_error (upd l i x) i = Some x.
Proof. revert i; induction l as [|y r IH]; intros [|j]; cbn; try discriminate; auto. Qed.

Lemma nth_error_upd_other {A} (l : list A) i j x : i <> j -> nth_error (upd l i x) j = nth_error l j.
Proof. revert i j; induction l as [|y r IH]; intros [|i] [|j] H; cbn; auto; try congruence. Qed.

Lemma sum_upd l i (x p : packer) : nth_error l i = Some p ->
  sumz (map size (upd l i x)) = sumz (map size l) - size p + size x.
Proof.
  revert i; induction l as [|y r IH]; intros [|j]; cbn; try discriminate.
  - intros [= ->]. lia.
  - intros H. rewrite (IH _ H). lia.
Qed.

Lemma length_upd {A} (l : list A) i x : List.length (upd l i x) = List.length l.
Proof. revert i; induction l as [|y r IH]; intros [|j]; cbn; auto. Qed.

Lemma deliv_app i a b : deliv i (a ++ b) = deliv i a ++ deliv i b.
Proof. unfold deliv. apply flat_map_app. Qed.

Lemma recv_app i a b : recv_ids i (a ++ b) = recv_ids i a ++ recv_ids i b.
Proof. unfold recv_ids. apply flat_map_app. Qed.

(* the invariant relating a state to the history h of operations that produced it *)
Definition Inv (s : st) (h : list op) : Prop :=
  (forall i p, nth_error (ps s) i = Some p ->
     deliv i (outs s) ++ map fst (msgs p) = recv_ids i h /\ size p = sumz (map snd (msgs p)))
  /\ cur s = sumz (map size (ps s)).

Lemma inv_init k : Inv (init k) [].
Proof.
  split.
  - intros i p H. cbn in H. apply nth_error_In, repeat_spec in H. subst. cbn. auto.
  - cbn. induction k; cbn; auto.
Qed.

Lemma flush_inv s h i p o fail :
  (forall j q, nth_error (ps s) j = Some q ->
     deliv j (outs s) ++ map fst (msgs q) = recv_ids j (h ++ [o]) /\ size q = sumz (map snd (msgs q))) ->
  cur s = sumz (map size (ps s)) ->
  nth_error (ps s) i = Some p ->
  Inv (flush s i p fail) (h ++ [o]).
Proof.
  intros H1 H2 Hp. split.
  - intros j q Hq. cbn in Hq. cbn [outs flush]. rewrite deliv_app. cbn.
    destruct (Nat.eq_dec i j) as [<-|Ne].
    + rewrite (nth_error_upd_same _ _ _ _ Hp) in Hq. injection Hq as <-. cbn.
      rewrite Nat.eqb_refl, !app_nil_r. destruct (H1 _ _ Hp) as [E _]. split; [exact E|reflexivity].
    + rewrite nth_error_upd_other in Hq by exact Ne.
      destruct (Nat.eqb_spec j i) as [->|_]; [congruence|]. cbn. rewrite app_nil_r. apply H1; exact Hq.
  - cbn. rewrite (sum_upd _ _ _ _ Hp). cbn. lia.
Qed.

Lemma step_inv c s h o : Inv s h -> Inv (fst (step c s o)) (h ++ [o]).
Proof.
  intros [H1 H2]. destruct o as [i id sz fired fail | i fail]; cbn [step].
  - destruct (nth_error (ps s) i) as [p|] eqn:Hp.
    2:{ cbn. split; [|exact H2]. intros j q Hq. destruct (H1 _ _ Hq) as [E S]. split; [|exact S].
        rewrite recv_app. cbn. destruct (Nat.eqb_spec j i) as [->|_]; [congruence|]. now rewrite app_nil_r. }
    set (p1 := {| msgs := msgs p ++ [(id, sz)]; size := size p + sz; count := count p |}).
    set (s1 := {| ps := upd (ps s) i p1; cur := cur s + sz; outs := outs s |}).
    assert (A1 : forall j q, nth_error (ps s1) j = Some q ->
              deliv j (outs s1) ++ map fst (msgs q) = recv_ids j (h ++ [Recv i id sz fired fail])
              /\ size q = sumz (map snd (msgs q))).
    { intros j q Hq. cbn in Hq. rewrite recv_app. cbn.
      destruct (Nat.eq_dec i j) as [<-|Ne].
      - rewrite (nth_error_upd_same _ _ _ _ Hp) in Hq. injection Hq as <-. cbn.
        rewrite Nat.eqb_refl. destruct (H1 _ _ Hp) as [E S]. rewrite !map_app, sumz_app. cbn.
        split; [rewrite <- E; unfold deliv; now rewrite app_assoc | lia].
      - rewrite nth_error_upd_other in Hq by exact Ne.
        destruct (Nat.eqb_spec j i) as [->|_]; [congruence|]. cbn. rewrite app_nil_r. apply H1; exact Hq. }
    assert (A2 : cur s1 = sumz (map size (ps s1))).
    { cbn. rewrite (sum_upd _ _ _ _ Hp). cbn. lia. }
    assert (Hp1 : nth_error (ps s1) i = Some p1) by (cbn; eapply nth_error_upd_same; eauto).
    pose proof (flush_inv s1 h i p1 _ fail A1 A2 Hp1) as F.
    destruct (mem_max c <? cur s1); [exact F|].
    destruct (max_size c <? sz); [exact F|].
    destruct fired; [exact F|].
    destruct (max_count c <=? count p + 1); [exact F|].
    cbn. split.
    + intros j q Hq. cbn in Hq. destruct (Nat.eq_dec i j) as [<-|Ne].
      * rewrite (nth_error_upd_same _ _ _ _ Hp) in Hq. injection Hq as <-. cbn. apply (A1 _ _ Hp1).
      * rewrite nth_error_upd_other in Hq by exact Ne. apply (A1 j q). cbn.
        rewrite nth_error_upd_other by exact Ne. exact Hq.
    + cbn. rewrite (sum_upd _ _ _ _ Hp). cbn. lia.
  - destruct (nth_error (ps s) i) as [p|] eqn:Hp.
    2:{ cbn. split; [|exact H2]. intros j q Hq. destruct (H1 _ _ Hq) as [E S]. split; [|exact S].
        rewrite recv_app. cbn. now rewrite app_nil_r. }
    cbn. apply flush_inv; auto.
    intros j q Hq. destruct (H1 _ _ Hq) as [E S]. split; [|exact S]. rewrite recv_app. cbn. now rewrite app_nil_r.
Qed.

Lemma run_fst_snoc c s ops o :
  fst (run c s (ops ++ [o])) = fst (step c (fst (run c s ops)) o).
Proof.
  revert s; induction ops as [|x r IH]; intros s; cbn.
  - destruct (step c s o); reflexivity.
  - destruct (step c s x) as [s1 e]. specialize (IH s1).
    destruct (run c s1 (r ++ [o])) as [s2 es]. destruct (run c s1 r) as [s3 es3]. cbn in *. exact IH.
Qed.

Lemma run_inv c k ops : Inv (fst (run c (init k) ops)) ops.
Proof.
  induction ops as [|o r IH] using rev_ind; [apply inv_init|].
  rewrite run_fst_snoc. apply step_inv. exact IH.
Qed.

(* exactly once, in arrival order: what was handed to the callback, followed by what is still
   buffered, is the received sequence — for every packer, every configuration, every timer and
   failure pattern *)
Lemma exactly_once_in_order c k ops i p :
  nth_error (ps (fst (run c (init k) ops))) i = Some p ->
  deliv i (outs (fst (run c (init k) ops))) ++ map fst (msgs p) = recv_ids i ops.
Proof. intros H. destruct (run_inv c k ops) as [H1 _]. apply (H1 _ _ H). Qed.

Lemma ps_length c s o : List.length (ps (fst (step c s o))) = List.length (ps s).
Proof.
  destruct o as [i id sz fired fail | i fail]; cbn.
  - destruct (nth_error (ps s) i); [|reflexivity].
    repeat match goal with |- context [if ?b then _ else _] => destruct b end; cbn; rewrite !length_upd; reflexivity.
  - destruct (nth_error (ps s) i); [|reflexivity]. cbn. now rewrite length_upd.
Qed.

Lemma run_ps_length c k ops : List.length (ps (fst (run c (init k) ops))) = k.
Proof.
  induction ops as [|o r IH] using rev_ind; [cbn; apply repeat_length|].
  rewrite run_fst_snoc, ps_length. exact IH.
Qed.

(* after ClearMsgs nothing is left behind: everything received has been handed over *)
Lemma clear_delivers_all c k ops i fail : (i < k)%nat ->
  deliv i (outs (fst (run c (init k) (ops ++ [Clear i fail])))) = recv_ids i ops.
Proof.
  intros Hi. pose proof (run_ps_length c k (ops ++ [Clear i fail])) as L.
  destruct (nth_error (ps (fst (run c (init k) (ops ++ [Clear i fail])))) i) as [p|] eqn:Hp.
  2:{ apply nth_error_None in Hp. lia. }
  pose proof (exactly_once_in_order c k _ i p Hp) as E.
  rewrite recv_app in E. cbn in E. rewrite app_nil_r in E. rewrite <- E.
  rewrite run_fst_snoc in Hp. cbn in Hp.
  destruct (nth_error (ps (fst (run c (init k) ops))) i) as [q|] eqn:Hq.
  - cbn in Hp. rewrite (nth_error_upd_same _ _ _ _ Hq) in Hp. injection Hp as <-. cbn. now rewrite app_nil_r.
  - apply nth_error_None in Hq. rewrite run_ps_length in Hq. lia.
Qed.

(* the global counter is the sum of the buffered sizes; zero when all buffers are empty *)
Lemma global_counter c k ops :
  let s := fst (run c (init k) ops) in
  cur s = sumz (map (fun p => sumz (map snd (msgs p))) (ps s)).
Proof.
  cbn. destruct (run_inv c k ops) as [H1 H2]. rewrite H2.
  set (l := ps (fst (run c (init k) ops))) in *.
  assert (forall p, In p l -> size p = sumz (map snd (msgs p))) as H.
  { intros p Hin. apply In_nth_error in Hin as [i Hi]. apply (H1 _ _ Hi). }
  clear -H. induction l as [|p r IH]; cbn; [reflexivity|].
  rewrite (H p) by (left; reflexivity). rewrite IH; [reflexivity|]. intros q Hq. apply H. right; exact Hq.
Qed.

Lemma global_zero c k ops :
  let s := fst (run c (init k) ops) in
  (forall p, In p (ps s) -> msgs p = []) -> cur s = 0.
Proof.
  cbn. intros H. rewrite (global_counter c k ops). cbn.
  induction (ps (fst (run c (init k) ops))) as [|p r IH]; cbn; [reflexivity|].
  rewrite (H p) by (left; reflexivity). cbn. apply IH. intros q Hq. apply H. right; exact Hq.
Qed.

(* a callback error is what the caller gets back; without a callback the result is nil *)
Lemma error_returned c s o :
  let '(s1, e) := step c s o in
  (outs s1 = outs s /\ e = false) \/ (exists k, outs s1 = outs s ++ [k] /\ k_fail k = e).
Proof.
  destruct o as [i id sz fired fail | i fail]; cbn.
  - destruct (nth_error (ps s) i); [|left; auto].
    repeat match goal with |- context [if ?b then _ else _] => destruct b end; cbn;
      try (right; eexists; split; [reflexivity|reflexivity]); left; auto.
  - destruct (nth_error (ps s) i); [|left; auto]. right. eexists; split; reflexivity.
Qed.
