(* C14 — executable model of server/msgpacker (Packer.Receive / ClearMsgs, the checkers and the
   process-wide MemoryProtector).  Several packers share one global counter.  The wall clock
   (TimerChecker) enters as the boolean [fired] of each Recv; a callback failure as [fail]. *)
From Coq Require Import List NArith ZArith Bool.
From Verif Require Import Base.Util.
Import ListNotations.
Local Open Scope Z_scope.

Record packer := { msgs : list (N * Z); size : Z; count : Z }.
Record cfg := { max_count : Z; max_size : Z; mem_max : Z }.
(* one callback invocation: which packer, the ids handed over (in order), did the callback fail *)
Record call := { k_who : nat; k_ids : list N; k_fail : bool }.
Record st := { ps : list packer; cur : Z; outs : list call }.

Inductive op :=
| Recv (i : nat) (id : N) (sz : Z) (fired fail : bool)
| Clear (i : nat) (fail : bool).

Definition empty_packer := {| msgs := []; size := 0; count := 0 |}.
Definition init (k : nat) : st := {| ps := repeat empty_packer k; cur := 0; outs := [] |}.

Fixpoint upd {A} (l : list A) (i : nat) (x : A) : list A :=
  match l, i with
  | [], _ => []
  | _ :: r, O => x :: r
  | y :: r, S j => y :: upd r j x
  end.

(* result of an operation as seen by the caller: None = nil error, Some b = the callback ran and b says whether it failed *)
Definition flush (s : st) (i : nat) (p : packer) (fail : bool) : st :=
  {| ps := upd (ps s) i empty_packer;
     cur := cur s - size p;
     outs := outs s ++ [{| k_who := i; k_ids := map fst (msgs p); k_fail := fail |}] |}.

Definition step (c : cfg) (s : st) (o : op) : st * bool :=
  match o with
  | Recv i id sz fired fail =>
      match nth_error (ps s) i with
      | None => (s, false)
      | Some p =>
          let p1 := {| msgs := msgs p ++ [(id, sz)]; size := size p + sz; count := count p |} in
          let s1 := {| ps := upd (ps s) i p1; cur := cur s + sz; outs := outs s |} in
          if mem_max c <? cur s1 then (flush s1 i p1 fail, fail)            (* memoryProtector.Add *)
          else if max_size c <? sz then (flush s1 i p1 fail, fail)          (* oversize message *)
          else if fired then (flush s1 i p1 fail, fail)                     (* TimerChecker *)
          else if max_count c <=? count p + 1 then (flush s1 i p1 fail, fail)  (* MsgCountChecker *)
          else ({| ps := upd (ps s) i {| msgs := msgs p1; size := size p1; count := count p + 1 |};
                   cur := cur s1; outs := outs s |}, false)
      end
  | Clear i fail =>
      match nth_error (ps s) i with
      | None => (s, false)
      | Some p => (flush s i p fail, fail)
      end
  end.

Fixpoint run (c : cfg) (s : st) (ops : list op) : st * list bool :=
  match ops with
  | [] => (s, [])
  | o :: r => let '(s1, e) := step c s o in let '(s2, es) := run c s1 r in (s2, e :: es)
  end.

(* ---- observation made by the harness: every callback invocation (packer index + ids), the error
   returned by every call, and the global counter after every call ---- *)
Fixpoint run_cur (c : cfg) (s : st) (ops : list op) : list Z :=
  match ops with
  | [] => []
  | o :: r => let s1 := fst (step c s o) in cur s1 :: run_cur c s1 r
  end.

Record case := { c_k : nat; c_cfg : cfg; c_ops : list op;
                 c_calls : list (nat * list N); c_errs : list bool; c_curs : list Z }.

Definition call_eqb (a b : nat * list N) := Nat.eqb (fst a) (fst b) && list_eqb N.eqb (snd a) (snd b).

Definition agrees (x : case) : bool :=
  let '(s, es) := run (c_cfg x) (init (c_k x)) (c_ops x) in
  list_eqb call_eqb (map (fun k => (k_who k, k_ids k)) (outs s)) (c_calls x)
  && list_eqb Bool.eqb es (c_errs x)
  && list_eqb Z.eqb (run_cur (c_cfg x) (init (c_k x)) (c_ops x)) (c_curs x).

(* ---- the property as a checker over the observed behaviour only ---- *)
Definition recv_ids (i : nat) (ops : list op) : list N :=
  flat_map (fun o => match o with Recv j id _ _ _ => if Nat.eqb i j then [id] else [] | _ => [] end) ops.
Definition delivered (i : nat) (cs : list (nat * list N)) : list N :=
  flat_map (fun k => if Nat.eqb i (fst k) then snd k else []) cs.

Fixpoint is_prefix (a b : list N) : bool :=
  match a, b with
  | [], _ => true
  | x :: a', y :: b' => N.eqb x y && is_prefix a' b'
  | _, _ => false
  end.

(* messages of packer i received after its last Clear (or from the start) *)
Fixpoint pending_after_clear (i : nat) (ops : list op) (acc : list N) : list N :=
  match ops with
  | [] => acc
  | Recv j id _ _ _ :: r => pending_after_clear i r (if Nat.eqb i j then acc ++ [id] else acc)
  | Clear j _ :: r => pending_after_clear i r (if Nat.eqb i j then [] else acc)
  end.

(* per call: expected error = fail flag of the op when a callback ran for this op *)
Definition ends_with_clear_all (k : nat) (ops : list op) : bool :=
  forallb (fun i => match pending_after_clear i ops [] with [] => true | _ => false end) (seq 0 k).

Definition check_C14 (x : case) : bool :=
  forallb (fun i =>
     let d := delivered i (c_calls x) in let r := recv_ids i (c_ops x) in
     is_prefix d r
     (* nothing received before the last Clear of i is still undelivered *)
     && Nat.leb (List.length r - List.length (pending_after_clear i (c_ops x) [])) (List.length d))
    (seq 0 (c_k x))
  && (* all buffers known empty (every packer cleared last) => the global counter is back to 0 *)
     (if ends_with_clear_all (c_k x) (c_ops x)
      then match rev (c_curs x) with [] => true | z :: _ => Z.eqb z 0 end else true).

Definition mismatches (l : list (N * case)) : list N := failing_ids agrees l.
Definition checkfails (l : list (N * case)) : list N := failing_ids check_C14 l.
Definition knownclass (l : list (N * case)) : list (N * N) := [].
