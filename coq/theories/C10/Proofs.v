(* C10 — proofs about the model of the duplicate-detection bookkeeping and the selection paths *)
From Coq Require Import List String NArith Bool Arith Lia.
From Verif Require Import Base.Util C10.Model.
Import ListNotations.
Local Open Scope string_scope.

(* ---------- basic facts ---------- *)
Lemma name_eqb_spec (a b : name) : reflect (a = b) (name_eqb a b).
Proof.
  destruct a as [a1 a2], b as [b1 b2]; unfold name_eqb; cbn.
  destruct (String.eqb_spec a1 b1), (String.eqb_spec a2 b2); cbn; constructor; congruence.
Qed.
Lemma name_eqb_refl a : name_eqb a a = true.
Proof. destruct (name_eqb_spec a a); congruence. Qed.

Lemma mem_name_In x l : mem_name x l = true <-> In x l.
Proof.
  unfold mem_name; rewrite existsb_exists; split.
  - intros [y [Hy E]]; destruct (name_eqb_spec x y); congruence.
  - intros H; exists x; split; [exact H | apply name_eqb_refl].
Qed.

Definition concrete (p : name) : Prop := fst p <> "*" /\ snd p <> "*".

Lemma is_star_false s : s <> "*" -> is_star s = false.
Proof. intros H; unfold is_star; destruct (String.eqb_spec s "*"); congruence. Qed.
Lemma is_star_true s : is_star s = true <-> s = "*".
Proof. unfold is_star; destruct (String.eqb_spec s "*"); split; congruence. Qed.

(* containment of patterns is transitive *)
Lemma match_trans a b c : match_name a b = true -> match_name b c = true -> match_name a c = true.
Proof.
  destruct a as [a1 a2], b as [b1 b2], c as [c1 c2]; unfold match_name, is_star; cbn.
  destruct (String.eqb_spec a1 b1), (String.eqb_spec a2 b2), (String.eqb_spec b1 c1), (String.eqb_spec b2 c2),
    (String.eqb_spec a1 c1), (String.eqb_spec a2 c2), (String.eqb_spec a1 "*"), (String.eqb_spec a2 "*"),
    (String.eqb_spec b1 "*"), (String.eqb_spec b2 "*"); cbn; intros; subst; try congruence; try reflexivity.
Qed.

Lemma match_refl a : match_name a a = true.
Proof. destruct a; unfold match_name; cbn; rewrite !String.eqb_refl; reflexivity. Qed.

(* a concrete pattern matches only itself *)
Lemma match_concrete e p : concrete e -> match_name e p = true -> e = p.
Proof.
  destruct e as [e1 e2], p as [p1 p2]; unfold concrete, match_name; cbn [fst snd]; intros [H1 H2].
  rewrite (is_star_false _ H1), (is_star_false _ H2), !orb_false_r.
  destruct (String.eqb_spec e1 p1), (String.eqb_spec e2 p2); cbn; congruence.
Qed.

(* two patterns that both match a name are nested unless they overlap partially *)
Lemma common_point a b p : match_name a p = true -> match_name b p = true ->
  match_name a b = true \/ match_name b a = true \/ partial_overlap a b = true.
Proof.
  destruct a as [a1 a2], b as [b1 b2], p as [p1 p2]; unfold partial_overlap, overlap, match_name, is_star; cbn.
  destruct (String.eqb_spec a1 p1), (String.eqb_spec a2 p2), (String.eqb_spec b1 p1), (String.eqb_spec b2 p2),
    (String.eqb_spec a1 b1), (String.eqb_spec a2 b2), (String.eqb_spec b1 a1), (String.eqb_spec b2 a2),
    (String.eqb_spec a1 "*"), (String.eqb_spec a2 "*"), (String.eqb_spec b1 "*"), (String.eqb_spec b2 "*");
    cbn; intros; subst; try congruence; auto.
Qed.

(* ---------- the two selection paths agree ---------- *)
Lemma paths_agree t db coll : coll <> "" -> should_read t db coll = ddl_selects t db coll.
Proof.
  intros H; unfold should_read, ddl_selects. destruct (get_infos t db coll); [|reflexivity].
  destruct (String.eqb_spec coll ""); congruence.
Qed.

(* ---------- a task selects exactly its specification minus its excludes ---------- *)
Record wf_task (t : task) : Prop := {
  wf_coll : snd (t_name t) <> "";
  wf_form : t_form t = true -> fst (t_name t) = "default";
  wf_excl_matched : forall e, In e (t_excl t) -> match_name (t_name t) e = true /\ e <> t_name t;
}.

Lemma excl_exact_implies t db coll :
  existsb (fun e => String.eqb (fst e) db && String.eqb (snd e) coll) (t_excl t) = true ->
  excluded (t_excl t) (db, coll) = true.
Proof.
  unfold excluded; rewrite !existsb_exists; intros [e [He E]]; exists e; split; [exact He|].
  apply andb_prop in E; destruct E as [E1 E2].
  apply String.eqb_eq in E1, E2. destruct e as [e1 e2]; cbn [fst snd] in *; subst. apply match_refl.
Qed.

(* for a specification with a named collection every exclude is a concrete name *)
Lemma excl_of_named t e : wf_task t -> snd (t_name t) <> "*" -> In e (t_excl t) ->
  snd e = snd (t_name t) /\ fst e <> "*".
Proof.
  intros W Hn He. destruct (wf_excl_matched t W e He) as [M Ne].
  destruct (t_name t) as [d c], e as [e1 e2]; cbn [fst snd] in *. unfold match_name in M; cbn [fst snd] in M.
  rewrite (is_star_false _ Hn), orb_false_r in M. apply andb_prop in M; destruct M as [M1 M2].
  apply String.eqb_eq in M2; subst e2. split; [reflexivity|].
  intros ->. apply orb_prop in M1. destruct M1 as [M1|M1].
  - apply String.eqb_eq in M1; subst; congruence.
  - apply is_star_true in M1; subst; congruence.
Qed.

Theorem selects_exact t db coll : wf_task t -> db <> "*" -> coll <> "*" ->
  should_read t db coll = match_name (t_name t) (db, coll) && negb (excluded (t_excl t) (db, coll)).
Proof.
  intros W Hdb Hcoll. unfold should_read, get_infos, get_match.
  change (existsb (fun e => match_name e (db, coll)) (t_excl t)) with (excluded (t_excl t) (db, coll)).
  pose proof (wf_coll t W) as Hc. pose proof (wf_form t W) as Hf.
  destruct (t_name t) as [d c] eqn:En; cbn [fst snd] in *.
  assert (Hex : forall e, In e (t_excl t) -> c <> "*" -> match_name e (db, coll) = true -> e = (db, coll)).
  { intros e He Hn M. assert (Hn' : snd (t_name t) <> "*") by (rewrite En; exact Hn).
    destruct (excl_of_named t e W Hn' He) as [E1 E2]. rewrite En in E1; cbn in E1.
    apply match_concrete; [|exact M]. split; [exact E2 | rewrite E1; exact Hn]. }
  unfold match_name; cbn [fst snd].
  destruct (t_form t) eqn:Ef.
  - specialize (Hf eq_refl); subst d. rewrite (is_star_false "default") by discriminate. rewrite orb_false_r.
    rewrite (String.eqb_sym "default" db).
    destruct (String.eqb_spec db "default") as [->|Nd]; [|reflexivity]. cbn [andb].
    destruct (is_star c) eqn:Es.
    + rewrite orb_true_r; reflexivity.
    + rewrite orb_false_r. destruct (String.eqb_spec c coll) as [->|Nc]; [|reflexivity].
      cbn [andb]. destruct (String.eqb_spec coll ""); [congruence|]. cbn.
      (* a named collection in the default database: no exclude can match it other than itself, which is impossible *)
      destruct (excluded (t_excl t) ("default", coll)) eqn:Ex; [|reflexivity]. exfalso.
      unfold excluded in Ex; apply existsb_exists in Ex; destruct Ex as [e [He M]].
      assert (e = ("default", coll)) by (apply Hex; [exact He | intros ->; discriminate Es | exact M]).
      subst e. destruct (wf_excl_matched t W _ He) as [_ Ne]. rewrite En in Ne; congruence.
  - destruct (String.eqb_spec d db) as [->|Nd].
    + cbn [orb andb]. destruct (is_star c) eqn:Es.
      * rewrite orb_true_r; reflexivity.
      * rewrite orb_false_r. destruct (String.eqb_spec c coll) as [->|Nc]; [|reflexivity].
        cbn [andb]. destruct (String.eqb_spec coll ""); [congruence|]. cbn.
        destruct (excluded (t_excl t) (db, coll)) eqn:Ex; [|reflexivity]. exfalso.
        unfold excluded in Ex; apply existsb_exists in Ex; destruct Ex as [e [He M]].
        assert (e = (db, coll)) by (apply Hex; [exact He | intros ->; discriminate Es | exact M]).
        subst e. destruct (wf_excl_matched t W _ He) as [_ Ne]. rewrite En in Ne; congruence.
    + cbn [orb].
      destruct (existsb (fun e => String.eqb (fst e) db && String.eqb (snd e) coll) (t_excl t)) eqn:Exact.
      * apply excl_exact_implies in Exact. rewrite Exact. cbn. rewrite andb_false_r; reflexivity.
      * destruct (is_star d) eqn:Ed; [|reflexivity]. cbn [andb].
        destruct (is_star c) eqn:Es.
        -- rewrite orb_true_r; reflexivity.
        -- rewrite orb_false_r. destruct (String.eqb_spec c coll) as [->|Nc]; [|reflexivity].
           cbn [andb]. destruct (String.eqb_spec coll ""); [congruence|]. cbn.
           destruct (excluded (t_excl t) (db, coll)) eqn:Ex; [|reflexivity]. exfalso.
           unfold excluded in Ex; apply existsb_exists in Ex; destruct Ex as [e [He M]].
           assert (e = (db, coll)) by (apply Hex; [exact He | intros ->; discriminate Es | exact M]).
           subst e. assert (existsb (fun e => String.eqb (fst e) db && String.eqb (snd e) coll) (t_excl t) = true).
           { apply existsb_exists; exists (db, coll); split; [exact He|]. cbn. rewrite !String.eqb_refl; reflexivity. }
           congruence.
Qed.

(* ---------- invariant over all histories ---------- *)
Definition same_target (a b : task) : Prop := t_target a = t_target b.

Record Inv (s : st) : Prop := {
  inv_wf : forall t, In t (tasks s) -> wf_task t;
  inv_ids : NoDup (map t_id (tasks s));
  inv_data : forall t, In t (tasks s) -> In (t_name t) (b_data (book_of s (t_target t)));
  inv_names : forall a b, In a (tasks s) -> In b (tasks s) -> t_target a = t_target b -> t_name a = t_name b -> a = b;
  inv_excl : forall a b p, In a (tasks s) -> In b (tasks s) -> a <> b -> t_target a = t_target b ->
               concrete p -> should_read a (fst p) (snd p) = true -> should_read b (fst p) (snd p) = true -> False;
}.

Lemma book_of_set_same s tg b : alookup (aupsert (books s) tg b) tg = Some b.
Proof.
  induction (books s) as [|[k v] r IH]; cbn; [rewrite String.eqb_refl; reflexivity|].
  destruct (String.eqb_spec tg k); cbn.
  - rewrite String.eqb_refl; reflexivity.
  - destruct (String.eqb_spec tg k); [congruence|exact IH].
Qed.
Lemma alookup_aupsert_other {A} (l : list (string * A)) k k' (v : A) : k <> k' -> alookup (aupsert l k v) k' = alookup l k'.
Proof.
  intros Hk; induction l as [|[a b] r IH]; cbn.
  - destruct (String.eqb_spec k' k); congruence.
  - destruct (String.eqb_spec k a); cbn.
    + subst a. destruct (String.eqb_spec k' k); congruence.
    + destruct (String.eqb_spec k' a); [reflexivity|exact IH].
Qed.
Lemma alookup_aupsert_same {A} (l : list (string * A)) k (v : A) : alookup (aupsert l k v) k = Some v.
Proof.
  induction l as [|[a b] r IH]; cbn; [rewrite String.eqb_refl; reflexivity|].
  destruct (String.eqb_spec k a); cbn.
  - rewrite String.eqb_refl; reflexivity.
  - destruct (String.eqb_spec k a); [congruence|exact IH].
Qed.

Lemma In_remove_once x y l : x <> y -> In x l -> In x (remove_once y l).
Proof.
  intros Hxy; induction l as [|z r IH]; cbn; [tauto|].
  destruct (name_eqb_spec y z).
  - intros [E|H]; [congruence|exact H].
  - intros [E|H]; [left; exact E|right; apply IH; exact H].
Qed.
Lemma remove_once_app_new x l : ~ In x l -> remove_once x (l ++ [x]) = l.
Proof.
  induction l as [|z r IH]; cbn; intros H.
  - rewrite name_eqb_refl; reflexivity.
  - destruct (name_eqb_spec x z); [exfalso; apply H; left; congruence|].
    f_equal; apply IH; tauto.
Qed.

Lemma find_task_unique ts tg n t :
  (forall a b, In a ts -> In b ts -> t_target a = t_target b -> t_name a = t_name b -> a = b) ->
  In t ts -> t_target t = tg -> t_name t = n ->
  find (fun t => String.eqb (t_target t) tg && name_eqb (t_name t) n) ts = Some t.
Proof.
  intros U Hin Ht Hn.
  destruct (find _ ts) as [t'|] eqn:F.
  - apply find_some in F; destruct F as [Hin' E]. apply andb_prop in E; destruct E as [E1 E2].
    apply String.eqb_eq in E1. destruct (name_eqb_spec (t_name t') n); [|discriminate].
    f_equal. apply U; congruence.
  - exfalso. pose proof (find_none _ _ F t Hin) as E. cbn in E. subst.
    rewrite String.eqb_refl, name_eqb_refl in E; discriminate.
Qed.

(* the heart: a request accepted by check_dup selects nothing an existing task selects *)
Lemma accepted_disjoint s q ex bk' t p :
  Inv s -> check_dup (tasks s) (book_of s (q_target q)) q = Some (ex, bk') ->
  In t (tasks s) -> t_target t = q_target q -> concrete p ->
  let tn := {| t_id := q_id q; t_target := q_target q; t_form := q_form q; t_name := q_name q; t_excl := ex; t_role := q_role q |} in
  wf_task tn -> should_read t (fst p) (snd p) = true -> should_read tn (fst p) (snd p) = true -> False.
Proof.
  intros I C Hin Htg [Hp1 Hp2] tn Wn R1 R2.
  pose proof (inv_wf s I t Hin) as Wt.
  rewrite (selects_exact t _ _ Wt Hp1 Hp2) in R1. rewrite (selects_exact tn _ _ Wn Hp1 Hp2) in R2.
  destruct p as [p1 p2]; cbn [fst snd] in *.
  apply andb_prop in R1; destruct R1 as [M1 X1]. apply andb_prop in R2; destruct R2 as [M2 X2].
  cbn [t_name t_excl tn] in *. apply negb_true_iff in X1, X2.
  unfold check_dup in C.
  destruct (b_extra (book_of s (q_target q)) && q_role q); [discriminate|].
  destruct (is_dup (tasks s) (q_target q) (book_of s (q_target q)) (q_name q)) eqn:D; [discriminate|].
  destruct (negb (forallb (fun m => match_name (q_name q) m) (q_mapping q))); [discriminate|].
  injection C as <- _.
  pose proof (inv_data s I t Hin) as Hd. rewrite Htg in Hd.
  unfold is_dup in D. apply orb_false_iff in D; destruct D as [D1 D2].
  destruct (common_point _ _ _ M1 M2) as [Mtq|[Mqt|Po]].
  - (* the existing name contains the new one: the owner must exclude the new name *)
    destruct (is_star (fst (q_name q)) && is_star (snd (q_name q))) eqn:SS.
    + (* new = *.* is contained in t's name only if t's name is *.* too: then it is a duplicate *)
      apply andb_prop in SS; destruct SS as [S1 S2]. apply is_star_true in S1, S2.
      assert (t_name t = q_name q).
      { destruct (t_name t) as [a b], (q_name q) as [c d]; cbn [fst snd] in *; subst. unfold match_name in Mtq; cbn [fst snd] in Mtq.
        unfold is_star in Mtq. destruct (String.eqb_spec a "*"), (String.eqb_spec b "*"); cbn in Mtq; try discriminate; subst; reflexivity. }
      rewrite <- H in D1. apply mem_name_In in Hd. rewrite H in Hd, D1. congruence.
    + cbn [negb andb] in D2.
      assert (Hall := D2). rewrite <- not_true_iff_false in Hall.
      destruct (name_eqb_spec (t_name t) (q_name q)) as [E|NE].
      { apply mem_name_In in Hd. rewrite E in Hd. congruence. }
      assert (CA : contain_any (t_name t) = true).
      { destruct (contain_any (t_name t)) eqn:CA; [reflexivity|]. exfalso. apply NE.
        apply match_concrete; [|exact Mtq]. unfold contain_any in CA. apply orb_false_iff in CA; destruct CA as [C1 C2].
        split; intros E; apply is_star_true in E; congruence. }
      assert (OK : mem_name (q_name q) (b_excl (book_of s (q_target q))) && owner_excludes (tasks s) (q_target q) (t_name t) (q_name q) = true).
      { destruct (mem_name (q_name q) (b_excl (book_of s (q_target q))) && owner_excludes (tasks s) (q_target q) (t_name t) (q_name q)) eqn:OK; [reflexivity|].
        exfalso; apply Hall. apply existsb_exists. exists (t_name t); split; [exact Hd|]. rewrite Mtq, CA, OK; reflexivity. }
      apply andb_prop in OK; destruct OK as [_ OE]. unfold owner_excludes in OE.
      rewrite (find_task_unique (tasks s) (q_target q) (t_name t) t (inv_names s I) Hin Htg eq_refl) in OE.
      apply mem_name_In in OE.
      assert (excluded (t_excl t) (p1, p2) = true); [|congruence].
      unfold excluded; apply existsb_exists; exists (q_name q); split; assumption.
  - (* the new name contains the existing one: it is among the new task's excludes *)
    assert (excluded (new_excludes (book_of s (q_target q)) (q_name q)) (p1, p2) = true); [|congruence].
    unfold excluded; apply existsb_exists; exists (t_name t); split; [|exact M1].
    unfold new_excludes; apply filter_In; split; assumption.
  - (* partial overlap is rejected *)
    destruct (is_star (fst (q_name q)) && is_star (snd (q_name q))) eqn:SS.
    + apply andb_prop in SS; destruct SS as [S1 S2]. unfold partial_overlap in Po.
      assert (match_name (q_name q) (t_name t) = true).
      { destruct (q_name q), (t_name t); unfold match_name; cbn [fst snd] in *. rewrite S1, S2, !orb_true_r; reflexivity. }
      rewrite H in Po. rewrite andb_false_r in Po; discriminate.
    + cbn [negb andb] in D2. rewrite <- not_true_iff_false in D2. apply D2.
      apply existsb_exists; exists (t_name t); split; [exact Hd|]. rewrite Po. apply orb_true_r.
Qed.

(* wf of a freshly accepted task *)
Lemma accepted_wf s q ex bk' :
  snd (q_name q) <> "" -> (q_form q = true -> fst (q_name q) = "default") ->
  check_dup (tasks s) (book_of s (q_target q)) q = Some (ex, bk') ->
  wf_task {| t_id := q_id q; t_target := q_target q; t_form := q_form q; t_name := q_name q; t_excl := ex; t_role := q_role q |}.
Proof.
  intros H1 H2 C. unfold check_dup in C.
  destruct (b_extra (book_of s (q_target q)) && q_role q); [discriminate|].
  destruct (is_dup (tasks s) (q_target q) (book_of s (q_target q)) (q_name q)) eqn:D; [discriminate|].
  destruct (negb (forallb (fun m => match_name (q_name q) m) (q_mapping q))); [discriminate|].
  injection C as <- _. constructor; cbn; [exact H1|exact H2|].
  intros e He. unfold new_excludes in He. apply filter_In in He; destruct He as [Hin M]. split; [exact M|].
  intros ->. unfold is_dup in D. apply orb_false_iff in D; destruct D as [D1 _].
  apply mem_name_In in Hin. congruence.
Qed.

Definition op_wf (o : op) : Prop :=
  match o with
  | Create q _ => snd (q_name q) <> "" /\ (q_form q = true -> fst (q_name q) = "default")
  | _ => True
  end.

Lemma book_of_upd s tg b tg' tasks' :
  book_of {| tasks := tasks'; books := aupsert (books s) tg b |} tg' = if String.eqb tg tg' then b else book_of s tg'.
Proof.
  unfold book_of; cbn. destruct (String.eqb_spec tg tg') as [->|N].
  - rewrite alookup_aupsert_same; reflexivity.
  - rewrite alookup_aupsert_other by exact N; reflexivity.
Qed.

Lemma In_filter_tasks id (ts : list task) t :
  In t (filter (fun t' => negb (String.eqb (t_id t') id)) ts) <-> In t ts /\ t_id t <> id.
Proof.
  rewrite filter_In. split; intros [A B]; split; try exact A.
  - apply negb_true_iff in B. destruct (String.eqb_spec (t_id t) id); congruence.
  - apply negb_true_iff. destruct (String.eqb_spec (t_id t) id); congruence.
Qed.

Lemma NoDup_map_filter {A B} (f : A -> B) (p : A -> bool) l : NoDup (map f l) -> NoDup (map f (filter p l)).
Proof.
  induction l as [|x r IH]; cbn; [auto|]. intros H; inversion H as [|? ? Hn Hr]; subst.
  destruct (p x); cbn; [constructor|]; auto.
  intros Hin; apply Hn. apply in_map_iff in Hin; destruct Hin as [y [E Hy]].
  apply filter_In in Hy; destruct Hy as [Hy _]. apply in_map_iff; exists y; auto.
Qed.

(* the books rebuilt by a reload contain every task's name *)
Definition rebuild (ts : list task) (bs : list (string * book)) : list (string * book) :=
  fold_left (fun bs t =>
     let bk := match alookup bs (t_target t) with Some b => b | None => empty_book end in
     aupsert bs (t_target t) {| b_data := b_data bk ++ [t_name t]; b_excl := b_excl bk ++ t_excl t;
                                b_extra := b_extra bk || t_role t |}) ts bs.
Definition data_of (bs : list (string * book)) tg : list name :=
  b_data (match alookup bs tg with Some b => b | None => empty_book end).

Lemma rebuild_keeps ts : forall bs tg x, In x (data_of bs tg) -> In x (data_of (rebuild ts bs) tg).
Proof.
  induction ts as [|t r IH]; cbn; intros bs tg x H; [exact H|].
  apply IH. unfold data_of in *. destruct (String.eqb_spec (t_target t) tg) as [->|N].
  - rewrite alookup_aupsert_same; cbn. apply in_or_app; left; exact H.
  - rewrite alookup_aupsert_other by exact N; exact H.
Qed.
Lemma rebuild_has ts : forall bs t, In t ts -> In (t_name t) (data_of (rebuild ts bs) (t_target t)).
Proof.
  induction ts as [|t0 r IH]; cbn; intros bs t H; [destruct H|destruct H as [->|H]].
  - apply rebuild_keeps. unfold data_of. rewrite alookup_aupsert_same; cbn. apply in_or_app; right; left; reflexivity.
  - apply IH; exact H.
Qed.

Lemma NoDup_app_one {A} (l : list A) x : NoDup l -> ~ In x l -> NoDup (l ++ [x])%list.
Proof.
  induction l as [|y r IH]; cbn; intros H Hn; [constructor; [tauto|constructor]|].
  inversion H as [|? ? Hy Hr]; subst. constructor.
  - intros Hin. apply in_app_or in Hin; destruct Hin as [Hin|[E|[]]]; [tauto|]. apply Hn; left; congruence.
  - apply IH; [exact Hr|tauto].
Qed.

Theorem step_inv s o : Inv s -> op_wf o -> Inv (fst (step s o)).
Proof.
  intros I Wo. destruct o as [q f | id f | ]; cbn [step]; unfold set_book.
  - (* create *)
    destruct (existsb (fun t => String.eqb (t_id t) (q_id q)) (tasks s)) eqn:Ex; [exact I|].
    destruct (check_dup (tasks s) (book_of s (q_target q)) q) as [[ex bk']|] eqn:C; [|exact I].
    destruct Wo as [W1 W2].
    pose proof (accepted_wf s q ex bk' W1 W2 C) as Wn.
    assert (Hbk : b_data bk' = (b_data (book_of s (q_target q)) ++ [q_name q])%list /\ ~ In (q_name q) (b_data (book_of s (q_target q)))).
    { unfold check_dup in C.
      destruct (b_extra (book_of s (q_target q)) && q_role q); [discriminate|].
      destruct (is_dup (tasks s) (q_target q) (book_of s (q_target q)) (q_name q)) eqn:D; [discriminate|].
      destruct (negb (forallb (fun m => match_name (q_name q) m) (q_mapping q))); [discriminate|].
      injection C as _ <-. cbn. split; [reflexivity|]. unfold is_dup in D. apply orb_false_iff in D; destruct D as [D1 _].
      intros H; apply mem_name_In in H; congruence. }
    destruct Hbk as [Hbk Hnew].
    destruct f; cbn [fst].
    + (* accepted *)
      set (tn := {| t_id := q_id q; t_target := q_target q; t_form := q_form q; t_name := q_name q; t_excl := ex; t_role := q_role q |}) in *.
      constructor; cbn [tasks books].
      * intros t Hin. apply in_app_or in Hin; destruct Hin as [Hin|[<-|[]]]; [apply (inv_wf s I t Hin)|exact Wn].
      * rewrite map_app; cbn. apply NoDup_app_one; [apply (inv_ids s I)|].
        intros Hin. apply in_map_iff in Hin; destruct Hin as [t [E Hin]].
        rewrite <- not_true_iff_false in Ex. apply Ex. apply existsb_exists; exists t; split; [exact Hin|]. rewrite E; apply String.eqb_refl.
      * intros t Hin. rewrite book_of_upd.
        apply in_app_or in Hin; destruct Hin as [Hin|[<-|[]]].
        -- destruct (String.eqb_spec (q_target q) (t_target t)) as [E|N].
           ++ rewrite Hbk. apply in_or_app; left. rewrite E. apply (inv_data s I t Hin).
           ++ apply (inv_data s I t Hin).
        -- cbn. rewrite String.eqb_refl. rewrite Hbk. apply in_or_app; right; left; reflexivity.
      * intros a b Ha Hb Ht Hn.
        apply in_app_or in Ha; apply in_app_or in Hb.
        destruct Ha as [Ha|[<-|[]]], Hb as [Hb|[<-|[]]]; [apply (inv_names s I); assumption| | |reflexivity].
        -- exfalso; apply Hnew. cbn in Ht, Hn. rewrite <- Hn, <- Ht. apply (inv_data s I a Ha).
        -- exfalso; apply Hnew. cbn in Ht, Hn. rewrite Hn, Ht. apply (inv_data s I b Hb).
      * intros a b p Ha Hb Nab Ht Hp Ra Rb.
        apply in_app_or in Ha; apply in_app_or in Hb.
        destruct Ha as [Ha|[<-|[]]], Hb as [Hb|[<-|[]]].
        -- apply (inv_excl s I a b p); assumption.
        -- apply (accepted_disjoint s q ex bk' a p I C Ha Ht Hp Wn Ra Rb).
        -- apply (accepted_disjoint s q ex bk' b p I C Hb (eq_sym Ht) Hp Wn Rb Ra).
        -- congruence.
    + (* failed after the check: reverted *)
      all: constructor; cbn [tasks books];
        [ apply (inv_wf s I) | apply (inv_ids s I)
        | intros t Hin; rewrite book_of_upd;
          destruct (String.eqb_spec (q_target q) (t_target t)) as [E|N];
          [ cbn; rewrite Hbk, (remove_once_app_new _ _ Hnew), E; apply (inv_data s I t Hin) | apply (inv_data s I t Hin) ]
        | apply (inv_names s I) | apply (inv_excl s I) ].
    + all: constructor; cbn [tasks books];
        [ apply (inv_wf s I) | apply (inv_ids s I)
        | intros t Hin; rewrite book_of_upd;
          destruct (String.eqb_spec (q_target q) (t_target t)) as [E|N];
          [ cbn; rewrite Hbk, (remove_once_app_new _ _ Hnew), E; apply (inv_data s I t Hin) | apply (inv_data s I t Hin) ]
        | apply (inv_names s I) | apply (inv_excl s I) ].
    + all: constructor; cbn [tasks books];
        [ apply (inv_wf s I) | apply (inv_ids s I)
        | intros t Hin; rewrite book_of_upd;
          destruct (String.eqb_spec (q_target q) (t_target t)) as [E|N];
          [ cbn; rewrite Hbk, (remove_once_app_new _ _ Hnew), E; apply (inv_data s I t Hin) | apply (inv_data s I t Hin) ]
        | apply (inv_names s I) | apply (inv_excl s I) ].
  - (* delete *)
    destruct (find (fun t => String.eqb (t_id t) id) (tasks s)) as [t0|] eqn:F; [|exact I].
    destruct f; cbn [fst]; [|exact I|exact I].
    apply find_some in F; destruct F as [Hin0 E0]. apply String.eqb_eq in E0.
    constructor; cbn [tasks books].
    + intros t Hin. apply In_filter_tasks in Hin. apply (inv_wf s I); tauto.
    + apply NoDup_map_filter, (inv_ids s I).
    + intros t Hin. apply In_filter_tasks in Hin; destruct Hin as [Hin Nid]. rewrite book_of_upd.
      destruct (String.eqb_spec (t_target t0) (t_target t)) as [E|N]; [|apply (inv_data s I t Hin)].
      cbn. apply In_remove_once.
      * intros En. assert (t = t0) by (apply (inv_names s I); congruence). congruence.
      * rewrite E. apply (inv_data s I t Hin).
    + intros a b Ha Hb. apply In_filter_tasks in Ha, Hb. apply (inv_names s I); tauto.
    + intros a b p Ha Hb. apply In_filter_tasks in Ha, Hb. apply (inv_excl s I); tauto.
  - (* restart *)
    cbn [fst]. constructor; cbn [tasks books].
    + apply (inv_wf s I). + apply (inv_ids s I).
    + intros t Hin. apply (rebuild_has (tasks s) [] t Hin).
    + apply (inv_names s I). + apply (inv_excl s I).
Qed.

(* ---------- every reachable state ---------- *)
Lemma init_inv : Inv init.
Proof.
  constructor; cbn; try (intros; tauto); try constructor.
  all: intros; tauto.
Qed.

Lemma run_app ops o : run (ops ++ [o]) = fst (step (run ops) o).
Proof. unfold run; rewrite fold_left_app; reflexivity. Qed.

Theorem run_inv ops : Forall op_wf ops -> Inv (run ops).
Proof.
  induction ops as [|o r IH] using rev_ind; intros H; [exact init_inv|].
  rewrite run_app. apply Forall_app in H; destruct H as [H1 H2]. inversion H2; subst.
  apply step_inv; [apply IH; exact H1|assumption].
Qed.

Theorem exclusive ops : Forall op_wf ops -> forall a b p,
  In a (tasks (run ops)) -> In b (tasks (run ops)) -> a <> b -> t_target a = t_target b -> concrete p ->
  ~ (should_read a (fst p) (snd p) = true /\ should_read b (fst p) (snd p) = true).
Proof. intros H a b p Ha Hb N T C [R1 R2]. exact (inv_excl _ (run_inv ops H) a b p Ha Hb N T C R1 R2). Qed.

Theorem exact_selection ops : Forall op_wf ops -> forall t db coll, In t (tasks (run ops)) -> db <> "*" -> coll <> "*" ->
  should_read t db coll = match_name (t_name t) (db, coll) && negb (excluded (t_excl t) (db, coll)).
Proof. intros H t db coll Hin. apply selects_exact. exact (inv_wf _ (run_inv ops H) t Hin). Qed.

(* ---------- a request that is not accepted changes nothing ---------- *)
Theorem client_reject_pure s o : snd (step s o) = 1%N -> fst (step s o) = s.
Proof.
  destruct o as [q f|id f|]; cbn.
  - destruct (existsb _ (tasks s)); [discriminate|].
    destruct (check_dup _ _ q) as [[ex bk']|]; [destruct f; discriminate|reflexivity].
  - destruct (find _ (tasks s)); [destruct f; cbn; try discriminate; reflexivity|reflexivity].
  - discriminate.
Qed.

Lemma count_cons x z r : count_name x (z :: r) = (if name_eqb x z then 1 else 0) + count_name x r.
Proof. unfold count_name; cbn [filter]. destruct (name_eqb x z); reflexivity. Qed.

Lemma count_remove_once x y l : count_name x (remove_once y l) =
  if name_eqb x y && mem_name y l then count_name x l - 1 else count_name x l.
Proof.
  induction l as [|z r IH].
  - cbn. rewrite andb_false_r; reflexivity.
  - cbn [remove_once]. unfold mem_name in *. cbn [existsb].
    destruct (name_eqb_spec y z) as [->|Nyz].
    + cbn [orb]. rewrite andb_true_r, count_cons. destruct (name_eqb x z); lia.
    + cbn [orb]. rewrite !count_cons, IH.
      destruct (name_eqb_spec x y) as [->|Nxy]; cbn [andb]; [|reflexivity].
      destruct (name_eqb_spec y z); [congruence|]. destruct (existsb (name_eqb y) r); lia.
Qed.

Lemma count_app x a b : count_name x (a ++ b) = count_name x a + count_name x b.
Proof. unfold count_name; rewrite filter_app, app_length; reflexivity. Qed.

Lemma mem_count y l : mem_name y l = true <-> count_name y l > 0.
Proof.
  unfold count_name; induction l as [|z r IH]; cbn; [split; [discriminate|lia]|].
  destruct (name_eqb y z); cbn; [split; [lia|reflexivity]|exact IH].
Qed.

Lemma count_remove_all ex : forall l, (forall x, count_name x ex <= count_name x l) ->
  forall x, count_name x (remove_all_once ex l) = count_name x l - count_name x ex.
Proof.
  unfold remove_all_once. induction ex as [|e r IH]; cbn [fold_left]; intros l H x; [change (count_name x []) with 0; lia|].
  assert (He : mem_name e l = true).
  { apply mem_count. specialize (H e). rewrite count_cons, name_eqb_refl in H. lia. }
  rewrite IH.
  - rewrite count_remove_once, He, andb_true_r, count_cons. destruct (name_eqb x e); lia.
  - intros y. rewrite count_remove_once, He, andb_true_r. specialize (H y). rewrite count_cons in H.
    destruct (name_eqb y e); lia.
Qed.

(* a create that fails after the duplicate check (store failure, task limit) restores the book of its
   target: names exactly, user-role flag exactly, excludes as a multiset; tasks and other books untouched *)
Theorem failed_create_restores s q f : f <> FNone -> snd (step s (Create q f)) = 2%N ->
  let s' := fst (step s (Create q f)) in
  tasks s' = tasks s
  /\ (forall tg, tg <> q_target q -> book_of s' tg = book_of s tg)
  /\ b_data (book_of s' (q_target q)) = b_data (book_of s (q_target q))
  /\ b_extra (book_of s' (q_target q)) = b_extra (book_of s (q_target q))
  /\ (forall x, count_name x (b_excl (book_of s' (q_target q))) = count_name x (b_excl (book_of s (q_target q)))).
Proof.
  intros Hf. cbn [step].
  destruct (existsb _ (tasks s)); [discriminate|].
  destruct (check_dup (tasks s) (book_of s (q_target q)) q) as [[ex bk']|] eqn:C; [|discriminate].
  unfold check_dup in C.
  destruct (b_extra (book_of s (q_target q)) && q_role q) eqn:ER; [discriminate|].
  destruct (is_dup (tasks s) (q_target q) (book_of s (q_target q)) (q_name q)) eqn:D; [discriminate|].
  destruct (negb (forallb (fun m => match_name (q_name q) m) (q_mapping q))); [discriminate|].
  injection C as <- <-.
  destruct f; [congruence| | | ].
  all: intros _; cbn [fst]; unfold set_book.
  all: split; [reflexivity|]; split;
    [ intros tg N; rewrite book_of_upd; destruct (String.eqb_spec (q_target q) tg); congruence |].
  all: rewrite book_of_upd, String.eqb_refl; cbn.
  all: split; [|split];
    [ apply remove_once_app_new; unfold is_dup in D; apply orb_false_iff in D; destruct D as [D1 _];
      intros H; apply mem_name_In in H; congruence
    | destruct (q_role q); [rewrite andb_true_r in ER; rewrite ER; reflexivity|apply orb_false_r]
    | intros x;
      match goal with |- Datatypes.length (filter (name_eqb x) ?l) = _ =>
        change (count_name x l = count_name x (b_excl (book_of s (q_target q)))) end;
      rewrite count_remove_all; [rewrite count_app; lia | intros y; rewrite count_app; lia] ].
Qed.

Theorem failed_delete_pure s id f : snd (step s (Delete id f)) <> 0%N -> fst (step s (Delete id f)) = s.
Proof.
  cbn. destruct (find _ (tasks s)); [|reflexivity]. destruct f; cbn; [congruence|reflexivity|reflexivity].
Qed.
