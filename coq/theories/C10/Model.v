(* C10 — executable model of the duplicate-detection bookkeeping of server/cdc_impl.go
   (checkDuplicateCollection, the revert in Create, delete, ReloadTask) and of the two selection
   paths (GetShouldReadFunc for streams; GetCollectionInfos + MatchCollection for DDL messages).
   Names are (database, collection) pairs; the Go code joins them with "." (requests whose names
   contain "." are C19's business).  The model is the code *after* the three repairs recorded in
   known_findings.json (C10-partial-overlap, C10-owner-exclude, C10-bookkeeping). *)
From Coq Require Import List String NArith Bool.
From Verif Require Import Base.Util.
Import ListNotations.
Local Open Scope string_scope.

Definition name := (string * string)%type.
Definition name_eqb (a b : name) : bool := String.eqb (fst a) (fst b) && String.eqb (snd a) (snd b).
Definition is_star (s : string) : bool := String.eqb s "*".

(* matchCollectionName sample target = (match_name, contain_any sample) *)
Definition match_name (s t : name) : bool :=
  (String.eqb (fst s) (fst t) || is_star (fst s)) && (String.eqb (snd s) (snd t) || is_star (snd s)).
Definition contain_any (s : name) : bool := is_star (fst s) || is_star (snd s).

(* the two patterns share a concrete name but neither contains the other *)
Definition overlap (a b : name) : bool :=
  (String.eqb (fst a) (fst b) || is_star (fst a) || is_star (fst b))
  && (String.eqb (snd a) (snd b) || is_star (snd a) || is_star (snd b)).
Definition partial_overlap (a b : name) : bool :=
  overlap a b && negb (match_name a b) && negb (match_name b a).

Record task := { t_id : string; t_target : string;
                 t_form : bool;            (* true: request used collection_infos (default database) *)
                 t_name : name; t_excl : list name; t_role : bool }.

Record book := { b_data : list name; b_excl : list name; b_extra : bool }.
Definition empty_book : book := {| b_data := []; b_excl := []; b_extra := false |}.

Record st := { tasks : list task; books : list (string * book) }.
Definition init : st := {| tasks := []; books := [] |}.
Definition book_of (s : st) (target : string) : book :=
  match alookup (books s) target with Some b => b | None => empty_book end.

Definition mem_name (x : name) (l : list name) : bool := existsb (name_eqb x) l.

(* removes the first occurrence *)
Fixpoint remove_once (x : name) (l : list name) : list name :=
  match l with
  | [] => []
  | y :: r => if name_eqb x y then r else y :: remove_once x r
  end.
Definition remove_all_once (xs l : list name) : list name := fold_left (fun acc x => remove_once x acc) xs l.

(* ---- selection ---- *)
(* GetCollectionInfos: the (single) collection info of the task that applies to this database *)
Definition get_infos (t : task) (db coll : string) : option string :=
  if t_form t then (if String.eqb db "default" then Some (snd (t_name t)) else None)
  else if String.eqb (fst (t_name t)) db then Some (snd (t_name t))
  else if existsb (fun e => String.eqb (fst e) db && String.eqb (snd e) coll) (t_excl t) then None
  else if is_star (fst (t_name t)) then Some (snd (t_name t)) else None.

(* IsValidCollectionInfo (GetMatchCollectionInfo ...) *)
Definition get_match (t : task) (info db coll : string) : bool :=
  if is_star info then negb (existsb (fun e => match_name e (db, coll)) (t_excl t))
  else String.eqb info coll && negb (String.eqb info "").

(* second component of GetShouldReadFunc for a live database *)
Definition should_read (t : task) (db coll : string) : bool :=
  match get_infos t db coll with None => false | Some i => get_match t i db coll end.
(* the DDL-message path of getChannelReader's dataHandleFunc (message names a collection) *)
Definition ddl_selects (t : task) (db coll : string) : bool :=
  match get_infos t db coll with
  | None => false
  | Some i => if String.eqb coll "" then true else get_match t i db coll
  end.

(* ---- checkDuplicateCollection ---- *)
Definition owner_excludes (ts : list task) (target : string) (owner new : name) : bool :=
  match find (fun t => String.eqb (t_target t) target && name_eqb (t_name t) owner) ts with
  | Some t => mem_name new (t_excl t)
  | None => false
  end.

Definition is_dup (ts : list task) (target : string) (bk : book) (new : name) : bool :=
  mem_name new (b_data bk)
  || (negb (is_star (fst new) && is_star (snd new))
      && existsb (fun n => (match_name n new && contain_any n
                            && negb (mem_name new (b_excl bk) && owner_excludes ts target n new))
                           || partial_overlap n new) (b_data bk)).

Definition new_excludes (bk : book) (new : name) : list name :=
  filter (fun ex => match_name new ex) (b_data bk).

Record creq := { q_id : string; q_target : string; q_form : bool; q_name : name; q_role : bool;
                 q_mapping : list name }.

(* None = rejected *)
Definition check_dup (ts : list task) (bk : book) (q : creq) : option (list name * book) :=
  if b_extra bk && q_role q then None
  else if is_dup ts (q_target q) bk (q_name q) then None
  else if negb (forallb (fun m => match_name (q_name q) m) (q_mapping q)) then None
  else let ex := new_excludes bk (q_name q) in
       Some (ex, {| b_data := b_data bk ++ [q_name q]; b_excl := b_excl bk ++ ex;
                    b_extra := b_extra bk || q_role q |}).

Definition revert (bk : book) (q : creq) (ex : list name) : book :=
  {| b_data := remove_once (q_name q) (b_data bk); b_excl := remove_all_once ex (b_excl bk);
     b_extra := if q_role q then false else b_extra bk |}.

Inductive cfault := FNone | FList | FLimit | FPut.
Inductive dfault := DNone | DGet | DCommit.
Inductive op :=
| Create (q : creq) (f : cfault)
| Delete (id : string) (f : dfault)
| Restart.

Definition set_book (s : st) (target : string) (b : book) : list (string * book) := aupsert (books s) target b.

(* result codes: 0 = 200, 1 = 400, 2 = 500 *)
Definition step (s : st) (o : op) : st * N :=
  match o with
  | Create q f =>
      if existsb (fun t => String.eqb (t_id t) (q_id q)) (tasks s) then (s, 0%N)
      else
      let bk := book_of s (q_target q) in
      match check_dup (tasks s) bk q with
      | None => (s, 1%N)
      | Some (ex, bk') =>
          match f with
          | FNone => ({| tasks := tasks s ++ [{| t_id := q_id q; t_target := q_target q; t_form := q_form q;
                                                 t_name := q_name q; t_excl := ex; t_role := q_role q |}];
                         books := set_book s (q_target q) bk' |}, 0%N)
          | _ => ({| tasks := tasks s; books := set_book s (q_target q) (revert bk' q ex) |}, 2%N)
          end
      end
  | Delete id f =>
      match find (fun t => String.eqb (t_id t) id) (tasks s) with
      | None => (s, 1%N)
      | Some t =>
          match f with
          | DNone =>
              let bk := book_of s (t_target t) in
              ({| tasks := filter (fun t' => negb (String.eqb (t_id t') id)) (tasks s);
                  books := set_book s (t_target t)
                             {| b_data := remove_once (t_name t) (b_data bk);
                                b_excl := remove_all_once (t_excl t) (b_excl bk);
                                b_extra := if t_role t then false else b_extra bk |} |}, 0%N)
          | _ => (s, 2%N)
          end
      end
  | Restart =>
      ({| tasks := tasks s;
          books := fold_left (fun bs t =>
                     let bk := match alookup bs (t_target t) with Some b => b | None => empty_book end in
                     aupsert bs (t_target t) {| b_data := b_data bk ++ [t_name t]; b_excl := b_excl bk ++ t_excl t;
                                                b_extra := b_extra bk || t_role t |}) (tasks s) [] |}, 0%N)
  end.

Definition run (ops : list op) : st := fold_left (fun s o => fst (step s o)) ops init.

(* ---- observation ---- *)
Record otask := { ot_id : string; ot_excl : list name; ot_read : list bool; ot_ddl : list bool }.
Record obook := { ob_target : string; ob_data : list name; ob_excl : list name; ob_extra : bool }.
Record obs := { o_code : N; o_books : list obook; o_tasks : list otask }.

Record case := { c_targets : list string; c_univ : list name; c_ops : list op; c_obs : list obs }.

Definition count_name (x : name) (l : list name) : nat := List.length (filter (name_eqb x) l).
Definition perm_eqb (a b : list name) : bool :=
  Nat.eqb (List.length a) (List.length b) && forallb (fun x => Nat.eqb (count_name x a) (count_name x b)) a.

Definition observe (targets : list string) (univ : list name) (s : st) (code : N) : obs :=
  {| o_code := code;
     o_books := map (fun tg => let b := book_of s tg in
                               {| ob_target := tg; ob_data := b_data b; ob_excl := b_excl b; ob_extra := b_extra b |}) targets;
     o_tasks := map (fun t => {| ot_id := t_id t; ot_excl := t_excl t;
                                 ot_read := map (fun p => should_read t (fst p) (snd p)) univ;
                                 ot_ddl := map (fun p => ddl_selects t (fst p) (snd p)) univ |}) (tasks s) |}.

Fixpoint run_obs (targets : list string) (univ : list name) (s : st) (ops : list op) : list obs :=
  match ops with
  | [] => []
  | o :: r => let '(s1, code) := step s o in observe targets univ s1 code :: run_obs targets univ s1 r
  end.

Definition obook_eqb (a b : obook) : bool :=
  String.eqb (ob_target a) (ob_target b) && perm_eqb (ob_data a) (ob_data b) && perm_eqb (ob_excl a) (ob_excl b)
  && Bool.eqb (ob_extra a) (ob_extra b).
Definition otask_eqb (a b : otask) : bool :=
  String.eqb (ot_id a) (ot_id b) && perm_eqb (ot_excl a) (ot_excl b)
  && list_eqb Bool.eqb (ot_read a) (ot_read b) && list_eqb Bool.eqb (ot_ddl a) (ot_ddl b).
(* tasks are compared as a set keyed by id: the store lists them by id, the model in creation order *)
Definition otasks_eqb (a b : list otask) : bool :=
  Nat.eqb (List.length a) (List.length b) && forallb (fun x => existsb (otask_eqb x) b) a.
Definition obs_eqb (a b : obs) : bool :=
  N.eqb (o_code a) (o_code b) && list_eqb obook_eqb (o_books a) (o_books b) && otasks_eqb (o_tasks a) (o_tasks b).

Definition agrees (c : case) : bool :=
  list_eqb obs_eqb (run_obs (c_targets c) (c_univ c) init (c_ops c)) (c_obs c).

(* ---- the property as a checker over the implementation's observations ---- *)
(* the request that created a task id (first accepted-looking one in the op list) *)
Fixpoint req_of (id : string) (ops : list op) : option creq :=
  match ops with
  | [] => None
  | Create q _ :: r => if String.eqb (q_id q) id then Some q else req_of id r
  | _ :: r => req_of id r
  end.

Definition covers (q : creq) (p : name) : bool :=
  if q_form q then String.eqb (fst p) "default" && (String.eqb (snd (q_name q)) (snd p) || is_star (snd (q_name q)))
  else match_name (q_name q) p.
Definition excluded (ex : list name) (p : name) : bool := existsb (fun e => match_name e p) ex.

Definition nth_bool (l : list bool) (i : nat) : bool := nth i l false.

Definition check_point (targets : list string) (univ : list name) (all_ops : list op) (prev : option obs) (o : op) (ob : obs) : bool :=
  let idx := seq 0 (List.length univ) in
  (* both paths agree and equal "specification minus excludes" *)
  forallb (fun t =>
     match req_of (ot_id t) all_ops with
     | None => false
     | Some q =>
         list_eqb Bool.eqb (ot_read t) (ot_ddl t)
         && list_eqb Bool.eqb (ot_read t) (map (fun p => covers q p && negb (excluded (ot_excl t) p)) univ)
     end) (o_tasks ob)
  (* at most one task per target selects a collection *)
  && forallb (fun tg =>
       forallb (fun i =>
          Nat.leb (List.length (filter (fun t => match req_of (ot_id t) all_ops with
                                                 | Some q => String.eqb (q_target q) tg && nth_bool (ot_read t) i
                                                 | None => false end) (o_tasks ob))) 1) idx) targets
  (* bookkeeping = what the stored tasks imply *)
  && forallb (fun bk =>
       let mine := filter (fun t => match req_of (ot_id t) all_ops with
                                    | Some q => String.eqb (q_target q) (ob_target bk) | None => false end) (o_tasks ob) in
       perm_eqb (ob_data bk) (flat_map (fun t => match req_of (ot_id t) all_ops with Some q => [q_name q] | None => [] end) mine)
       && perm_eqb (ob_excl bk) (flat_map ot_excl mine)
       && Bool.eqb (ob_extra bk) (existsb (fun t => match req_of (ot_id t) all_ops with Some q => q_role q | None => false end) mine))
       (o_books ob)
  (* a request that is not accepted changes nothing *)
  && match N.eqb (o_code ob) 0, prev with
     | false, Some p => list_eqb obook_eqb (o_books p) (o_books ob) && list_eqb otask_eqb (o_tasks p) (o_tasks ob)
     | false, None => forallb (fun bk => match ob_data bk, ob_excl bk, ob_extra bk with [], [], false => true | _, _, _ => false end) (o_books ob)
                      && match o_tasks ob with [] => true | _ => false end
     | true, _ => true
     end.

Fixpoint check_all (targets : list string) (univ : list name) (all_ops : list op) (prev : option obs)
         (todo : list op) (os : list obs) : bool :=
  match todo, os with
  | [], [] => true
  | o :: r, ob :: obr => check_point targets univ all_ops prev o ob && check_all targets univ all_ops (Some ob) r obr
  | _, _ => false
  end.

Definition check_C10 (c : case) : bool := check_all (c_targets c) (c_univ c) (c_ops c) None (c_ops c) (c_obs c).

Definition mismatches (l : list (N * case)) : list N := failing_ids agrees l.
Definition checkfails (l : list (N * case)) : list N := failing_ids check_C10 l.
Definition knownclass (l : list (N * case)) : list (N * N) := [].
