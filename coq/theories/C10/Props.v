(* C10 — property theorems only *)
From Coq Require Import List String NArith Bool.
From Verif Require Import Base.Util C10.Model C10.Proofs.
Import ListNotations.
Local Open Scope string_scope.

(* Histories: any list of create requests (any specification shape, target, user-role flag, name
   mapping; accepted, rejected, or failing after the duplicate check because the store or the task
   limit said no), deletes (succeeding or failing in the store) and restarts (reload from the store).
   op_wf: collection names are non-empty and a collection_infos request lives in the default database
   (what validCreateRequest lets through). *)

(* at most one task of a target selects a given (database, collection), in every reachable state *)
Theorem C10_exclusive : forall ops, Forall op_wf ops -> forall a b p,
  In a (tasks (run ops)) -> In b (tasks (run ops)) -> a <> b -> t_target a = t_target b -> concrete p ->
  ~ (should_read a (fst p) (snd p) = true /\ should_read b (fst p) (snd p) = true).
Proof. exact exclusive. Qed.
Print Assumptions C10_exclusive.

(* a task selects exactly what its specification names minus what it excludes *)
Theorem C10_exact : forall ops, Forall op_wf ops -> forall t db coll, In t (tasks (run ops)) -> db <> "*" -> coll <> "*" ->
  should_read t db coll = match_name (t_name t) (db, coll) && negb (excluded (t_excl t) (db, coll)).
Proof. exact exact_selection. Qed.
Print Assumptions C10_exact.

(* the stream path and the DDL-message path make the same selection *)
Theorem C10_paths_agree : forall t db coll, coll <> "" -> should_read t db coll = ddl_selects t db coll.
Proof. exact paths_agree. Qed.
Print Assumptions C10_paths_agree.

(* a request answered with a client error leaves tasks and bookkeeping exactly as they were *)
Theorem C10_reject_pure : forall s o, snd (step s o) = 1%N -> fst (step s o) = s.
Proof. exact client_reject_pure. Qed.
Print Assumptions C10_reject_pure.

(* a create failing after the duplicate check restores the bookkeeping (excludes as a multiset) *)
Theorem C10_failed_create_restores : forall s q f, f <> FNone -> snd (step s (Create q f)) = 2%N ->
  let s' := fst (step s (Create q f)) in
  tasks s' = tasks s
  /\ (forall tg, tg <> q_target q -> book_of s' tg = book_of s tg)
  /\ b_data (book_of s' (q_target q)) = b_data (book_of s (q_target q))
  /\ b_extra (book_of s' (q_target q)) = b_extra (book_of s (q_target q))
  /\ (forall x, count_name x (b_excl (book_of s' (q_target q))) = count_name x (b_excl (book_of s (q_target q)))).
Proof. exact failed_create_restores. Qed.
Print Assumptions C10_failed_create_restores.

Theorem C10_failed_delete_pure : forall s id f, snd (step s (Delete id f)) <> 0%N -> fst (step s (Delete id f)) = s.
Proof. exact failed_delete_pure. Qed.
Print Assumptions C10_failed_delete_pure.

(* non-vacuity: the history that broke the original code (see known_findings.json) is well-formed, ends
   with two live tasks on db1.* and *.* and the create of db1.c1 rejected *)
Definition mkq id d c := {| q_id := id; q_target := "k"; q_form := false; q_name := (d, c); q_role := false; q_mapping := [] |}.
Example C10_nonvacuous :
  let ops := [Create (mkq "t1" "db1" "c1") FNone; Create (mkq "t2" "db1" "*") FNone; Create (mkq "t3" "*" "*") FNone;
              Delete "t2" DNone; Restart; Delete "t1" DNone; Create (mkq "t4" "db1" "*") FNone] in
  Forall op_wf ops /\ map t_id (tasks (run ops)) = ["t3"; "t4"]
  /\ snd (step (run ops) (Create (mkq "t5" "db1" "c1") FNone)) = 1%N.
Proof. vm_compute. repeat split; try reflexivity. repeat constructor; cbn; intuition discriminate. Qed.
