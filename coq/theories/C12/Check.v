(* C12 — cases written by the harness, comparison with the model, and the checker of the property on the implementation's
   own dumps (it does not use the model's key / prefix / LIKE logic: it knows which structured names the script uses and
   computes their exact keys) *)
From Coq Require Import List String NArith ZArith Bool.
From Verif Require Import Base.Util C12.Model.
Import ListNotations.
Local Open Scope string_scope.

Record case := { k_backend : backend; k_labels : list label; k_obs : list (obs * list (string * value)) }.

(* ---------- equality up to the order inside channel maps ---------- *)
Definition pinfo_eqb (a b : pinfo) : bool :=
  N.eqb (pi_time a) (pi_time b) && String.eqb (pi_key a) (pi_key b) && N.eqb (pi_tok a) (pi_tok b) && Bool.eqb (pi_dropped a) (pi_dropped b).
Definition chmap_eqb (a b : chmap) : bool :=
  Nat.eqb (List.length a) (List.length b)
  && forallb (fun kv => match alookup b (fst kv) with Some v => pinfo_eqb v (snd kv) | None => false end) a
  && forallb (fun kv => match alookup a (fst kv) with Some v => pinfo_eqb v (snd kv) | None => false end) b.
Definition posrec_eqb (a b : posrec) : bool :=
  String.eqb (pr_task a) (pr_task b) && Z.eqb (pr_coll a) (pr_coll b) && String.eqb (pr_cname a) (pr_cname b)
  && chmap_eqb (pr_pos a) (pr_pos b) && chmap_eqb (pr_op a) (pr_op b) && chmap_eqb (pr_tgt a) (pr_tgt b).
Definition tinfo_eqb (a b : tinfo) : bool :=
  String.eqb (ti_task a) (ti_task b) && N.eqb (ti_state a) (ti_state b) && String.eqb (ti_reason a) (ti_reason b).
Definition value_eqb (a b : value) : bool :=
  match a, b with VI x, VI y => tinfo_eqb x y | VP x, VP y => posrec_eqb x y | VM x, VM y => N.eqb x y | _, _ => false end.
Definition res_eqb (a b : res) : bool := match a, b with ROk, ROk | RErr, RErr | RNotFound, RNotFound => true | _, _ => false end.
Definition obs_eqb (a b : obs) : bool :=
  match a, b with
  | OInfos x, OInfos y => list_eqb tinfo_eqb x y
  | OPoss x, OPoss y => list_eqb posrec_eqb x y
  | OMsgs x, OMsgs y => list_eqb N.eqb x y
  | ORes x, ORes y => res_eqb x y
  | ONone, ONone => true
  | _, _ => false end.
Definition dump_eqb (a b : list (string * value)) : bool := list_eqb (pair_eqb String.eqb value_eqb) a b.

Fixpoint agrees_from (bk : backend) (w : world) (ls : list label) (os : list (obs * list (string * value))) : bool :=
  match ls, os with
  | [], [] => true
  | LPar x y :: r, (o, d) :: os' =>
      let w1 := fst (step1 bk (fst (step1 bk w x)) y) in
      let w2 := fst (step1 bk (fst (step1 bk w y)) x) in
      obs_eqb ONone o
      && (if dump_eqb (dump bk w1) d then agrees_from bk w1 r os'
          else if dump_eqb (dump bk w2) d then agrees_from bk w2 r os' else false)
  | l :: r, (o, d) :: os' =>
      let '(w', o') := step bk w l in obs_eqb o' o && dump_eqb (dump bk w') d && agrees_from bk w' r os'
  | _, _ => false
  end.
Definition agrees (c : case) : bool := agrees_from (k_backend c) w0 (k_labels c) (k_obs c).

(* ---------- the universe of a script ---------- *)
Definition flat (l : label) : list label := match l with LPar x y => [x; y] | _ => [l] end.
Definition lab_task (l : label) : list string :=
  match l with
  | LPutInfo _ i => [ti_task i] | LGetInfo _ t | LDelInfo _ t | LGetPos _ t _ | LDelPos _ t _ | LUpdPos _ t _ _ _ _ _ _ | LDropState _ t _
  | LUpdState _ t _ _ _ | LDeleteTask _ t _ => [t]
  | LPutPos _ p => [pr_task p] | _ => [] end.
Definition lab_coll (l : label) : list Z :=
  match l with
  | LGetPos _ _ c | LDelPos _ _ c | LUpdPos _ _ c _ _ _ _ _ | LDropState _ _ c => [c] | LPutPos _ p => [pr_coll p] | _ => [] end.
Definition tasks_of (ls : list label) : list string := flat_map lab_task (flat_map flat ls).
Definition colls_of (ls : list label) : list Z := (-1)%Z :: flat_map lab_coll (flat_map flat ls).
Definition msgkeys_of (ls : list label) : list string := flat_map (fun l => match l with LPutMsg _ k _ | LDelMsg _ k => [k] | LGetMsg _ k false => [k] | _ => [] end) ls.

Definition dlookup (d : list (string * value)) (k : string) : option value :=
  match find (fun kv => String.eqb (fst kv) k) d with Some kv => Some (snd kv) | None => None end.
Definition ovalue_eqb (a b : option value) : bool := option_eqb value_eqb a b.

(* the exact keys the structured name (r, t, any collection of the script) owns *)
Definition pos_keys (ls : list label) (r t : string) : list string := map (fun c => pos_key r t c) (colls_of ls).

(* which keys may an operation change *)
Definition may_change1 (ls : list label) (l : label) : list string :=
  match l with
  | LPutInfo r i => [info_key r (ti_task i)]
  | LDelInfo r t => [info_key r t]
  | LPutPos r p => [pos_key r (pr_task p) (pr_coll p)]
  | LDelPos r t c => if Z.eqb c 0 then pos_keys ls r t else [pos_key r t c]
  | LUpdPos r t c _ _ _ _ _ => if Z.eqb c 0 then pos_keys ls r t else [pos_key r t c]
  | LDropState r t c => if Z.eqb c 0 then pos_keys ls r t else [pos_key r t c]
  | LUpdState r t _ _ _ => [info_key r t]
  | LDeleteTask r t _ => info_key r t :: pos_keys ls r t
  | LPutMsg r k _ | LDelMsg r k => [msg_key r k]
  | _ => [] end.
Definition may_change (ls : list label) (l : label) : list string := flat_map (may_change1 ls) (flat l).

Definition frame_ok (ls : list label) (l : label) (d d' : list (string * value)) : bool :=
  let allowed := may_change ls l in
  forallb (fun kv => mem_str (fst kv) allowed || ovalue_eqb (dlookup d' (fst kv)) (Some (snd kv))) d
  && forallb (fun kv => mem_str (fst kv) allowed || ovalue_eqb (dlookup d (fst kv)) (Some (snd kv))) d'.

(* inside the record a checkpoint update touches: only the named channel entries differ, a dropped entry stays as it was *)
Definition entries_ok (m m' : chmap) (allowed : list string) : bool :=
  forallb (fun kv => (if pi_dropped (snd kv) then false else mem_str (fst kv) allowed)
                     || match alookup m' (fst kv) with Some v => pinfo_eqb v (snd kv) | None => false end) m
  && forallb (fun kv => mem_str (fst kv) allowed || match alookup m (fst kv) with Some v => pinfo_eqb v (snd kv) | None => false end) m'.
Definition record_ok (l : label) (d d' : list (string * value)) : bool :=
  match l with
  | LUpdPos r t c _ ch p op tg =>
      forallb (fun kv => match snd kv, dlookup d' (fst kv) with
                         | VP a, Some (VP b) =>
                             entries_ok (pr_pos a) (pr_pos b) [ch] && entries_ok (pr_op a) (pr_op b) [ch]
                             && entries_ok (pr_tgt a) (pr_tgt b) (match tg with Some x => [pi_key x] | None => [] end)
                         | VP _, _ => false
                         | _, _ => true end) d
  | _ => true end.

(* deleting a task: all or nothing *)
Definition delete_ok (ls : list label) (l : label) (o : obs) (d d' : list (string * value)) : bool :=
  match l with
  | LDeleteTask r t _ =>
      let own := info_key r t :: pos_keys ls r t in
      dump_eqb d d'
      || (forallb (fun kv => negb (mem_str (fst kv) own)) d' && negb (String.eqb t ""))
  | _ => true end.

(* reads return exactly the records of the name asked for *)
Definition read_ok (ls : list label) (l : label) (o : obs) (d : list (string * value)) : bool :=
  match l, o with
  | LGetInfo r t, OInfos got =>
      let want := flat_map (fun t' => if String.eqb t "" || String.eqb t t' then match dlookup d (info_key r t') with Some (VI i) => [i] | _ => [] end else [])
                           (nodup string_dec (tasks_of ls)) in
      Nat.eqb (List.length got) (List.length want) && forallb (fun g => existsb (tinfo_eqb g) want) got && forallb (fun w => existsb (tinfo_eqb w) got) want
  | LGetPos r t c, OPoss got =>
      let want := flat_map (fun t' => if String.eqb t "" || String.eqb t t'
                                      then flat_map (fun c' => if Z.eqb c 0 || Z.eqb c c' then match dlookup d (pos_key r t' c') with Some (VP p) => [p] | _ => [] end else [])
                                                    (nodup Z.eq_dec (colls_of ls))
                                      else []) (nodup string_dec (tasks_of ls)) in
      Nat.eqb (List.length got) (List.length want) && forallb (fun g => existsb (posrec_eqb g) want) got && forallb (fun w => existsb (posrec_eqb w) got) want
  | LGetMsg r k false, OMsgs got =>
      list_eqb N.eqb got (match dlookup d (msg_key r k) with Some (VM m) => [m] | _ => [] end)
  | LGetMsg r k true, OMsgs got =>
      (* the only prefix read of the code base asks for all task messages of the root (k = "task_msg/") *)
      if String.eqb k "task_msg/"
      then let want := flat_map (fun k' => match dlookup d (msg_key r k') with Some (VM m) => [m] | _ => [] end) (nodup string_dec (msgkeys_of ls)) in
           Nat.eqb (List.length got) (List.length want) && forallb (fun g => existsb (N.eqb g) want) got
      else true
  | _, _ => true end.

(* two concurrent checkpoint operations on one record: both take effect - each named channel entry holds its new checkpoint
   (unless it was frozen before, or the concurrent operation is the drop mark and came first), no other entry changes, and after
   a concurrent drop mark every entry is frozen *)
Definition entry_is (m : chmap) (ch : string) (p : option pinfo) : bool :=
  match p with None => true | Some x => match alookup m ch with Some v => pinfo_eqb v x | None => false end end.
Definition entry_frozen_or (m m' : chmap) (ch : string) (p : option pinfo) : bool :=
  match alookup m ch with
  | Some o => if pi_dropped o then (match alookup m' ch with Some v => pinfo_eqb v o | None => false end) else entry_is m' ch p
  | None => entry_is m' ch p end.
Definition was_dropped (m m' : chmap) : bool :=
  forallb (fun kv => match alookup m' (fst kv) with Some v => pi_dropped v | None => false end) m.
Definition undropped (p : pinfo) : pinfo := {| pi_time := pi_time p; pi_key := pi_key p; pi_tok := pi_tok p; pi_dropped := false |}.
Definition par_ok (l : label) (d d' : list (string * value)) : bool :=
  match l with
  | LPar (LUpdPos r t c _ ch p op _) (LUpdPos _ _ _ _ ch' p' op' _) =>
      match dlookup d (pos_key r t c), dlookup d' (pos_key r t c) with
      | Some (VP a), Some (VP b) =>
          entry_frozen_or (pr_pos a) (pr_pos b) ch p && entry_frozen_or (pr_pos a) (pr_pos b) ch' p'
          && entry_frozen_or (pr_op a) (pr_op b) ch op && entry_frozen_or (pr_op a) (pr_op b) ch' op'
          && entries_ok (pr_pos a) (pr_pos b) [ch; ch'] && entries_ok (pr_op a) (pr_op b) [ch; ch']
      | _, _ => false end
  | LPar (LUpdPos r t c _ ch p op _) (LDropState _ _ _) =>
      match dlookup d (pos_key r t c), dlookup d' (pos_key r t c) with
      | Some (VP a), Some (VP b) =>
          (* every entry that existed is frozen afterwards (an entry first written after the mark is a new one) *)
          was_dropped (pr_pos a) (pr_pos b) && was_dropped (pr_op a) (pr_op b) && was_dropped (pr_tgt a) (pr_tgt b)
          (* every entry other than the updated channel keeps its checkpoint *)
          && forallb (fun kv => String.eqb (fst kv) ch || match alookup (pr_pos b) (fst kv) with Some v => pinfo_eqb (undropped v) (undropped (snd kv)) | None => false end) (pr_pos a)
      | _, _ => false end
  | _ => true end.

Fixpoint steps_ok (ls : list label) (rest : list label) (d : list (string * value)) (os : list (obs * list (string * value))) : bool :=
  match rest, os with
  | [], [] => true
  | l :: r, (o, d') :: os' =>
      frame_ok ls l d d' && record_ok l d d' && par_ok l d d' && delete_ok ls l o d d' && read_ok ls l o d && steps_ok ls r d' os'
  | _, _ => false end.

Definition check_C12 (c : case) : bool := steps_ok (k_labels c) (k_labels c) [] (k_obs c).

Definition mismatches (l : list (N * case)) : list N := failing_ids agrees l.
Definition checkfails (l : list (N * case)) : list N := failing_ids check_C12 l.
Definition knownclass (l : list (N * case)) : list (N * N) := [].
