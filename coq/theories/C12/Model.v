(* C12 — executable models of the two metadata backends behind server/store (etcd: one sorted key space with exact / prefix
   reads and deletes and atomic transactions; MySQL: three tables with the statements of mysql.go and mysql_replicate_store.go,
   LIKE with MySQL's wildcards and escape), of the store layer on top of them (meta_key.go, etcd.go, mysql.go) and of the
   multi-step operations of meta_op.go, for several root paths on one backend *)
From Coq Require Import List String NArith ZArith Bool Ascii DecimalString.
From Verif Require Import Base.Util.
Import ListNotations.
Local Open Scope string_scope.

(* ---------- records ---------- *)
Record tinfo := { ti_task : string; ti_state : N; ti_reason : string }.
Record pinfo := { pi_time : N; pi_key : string; pi_tok : N; pi_dropped : bool }.
Definition chmap := list (string * pinfo).
Record posrec := { pr_task : string; pr_coll : Z; pr_cname : string; pr_pos : chmap; pr_op : chmap; pr_tgt : chmap }.
Inductive value := VI (i : tinfo) | VP (p : posrec) | VM (tok : N).

(* ---------- keys (meta_key.go; path.Join of clean components is concatenation with '/') ---------- *)
Definition zstr (z : Z) : string :=
  match z with
  | Z0 => "0"
  | Zpos p => NilEmpty.string_of_uint (N.to_uint (Npos p))
  | Zneg p => "-" ++ NilEmpty.string_of_uint (N.to_uint (Npos p))
  end.
Definition info_prefix (r : string) : string := r ++ "/task_info/".
Definition info_key (r t : string) : string := info_prefix r ++ t.
Definition pos_prefix (r : string) : string := r ++ "/task_position/".
Definition pos_prefix_t (r t : string) : string := pos_prefix r ++ t ++ "/".
Definition pos_key (r t : string) (c : Z) : string := pos_prefix_t r t ++ zstr c.
Definition msg_prefix (r : string) : string := r ++ "/".
Definition msg_key (r k : string) : string := msg_prefix r ++ k.

(* ---------- a sorted key space ---------- *)
Definition kv := list (string * value).
Fixpoint kput (l : kv) (k : string) (v : value) : kv :=
  match l with
  | [] => [(k, v)]
  | (k', v') :: r => match String.compare k k' with
                     | Eq => (k, v) :: r
                     | Lt => (k, v) :: (k', v') :: r
                     | Gt => (k', v') :: kput r k v end
  end.
Definition kget (l : kv) (k : string) : list (string * value) := filter (fun x => String.eqb (fst x) k) l.
Definition kget_prefix (l : kv) (p : string) : list (string * value) := filter (fun x => String.prefix p (fst x)) l.
Definition kdel (l : kv) (k : string) : kv := filter (fun x => negb (String.eqb (fst x) k)) l.
Definition kdel_prefix (l : kv) (p : string) : kv := filter (fun x => negb (String.prefix p (fst x))) l.

(* ---------- LIKE ---------- *)
Definition la (s : string) : list ascii := list_ascii_of_string s.
Definition pct : ascii := "%"%char.
Definition und : ascii := "_"%char.
Definition bsl : ascii := "\"%char.
Fixpoint like (p : list ascii) : list ascii -> bool :=
  match p with
  | [] => fun s => match s with [] => true | _ => false end
  | c :: p' =>
      if Ascii.eqb c pct
      then (fix star (s : list ascii) : bool := like p' s || match s with [] => false | _ :: s' => star s' end)
      else if Ascii.eqb c und
      then fun s => match s with _ :: s' => like p' s' | [] => false end
      else if Ascii.eqb c bsl
      then match p' with
           | e :: p'' => fun s => match s with x :: s' => Ascii.eqb x e && like p'' s' | [] => false end
           | [] => fun s => match s with [x] => Ascii.eqb x bsl | _ => false end
           end
      else fun s => match s with x :: s' => Ascii.eqb x c && like p' s' | [] => false end
  end.
(* the escaping the store applies to a prefix before appending '%' (after the repair) *)
Fixpoint escape (p : list ascii) : list ascii :=
  match p with
  | [] => []
  | c :: r => if Ascii.eqb c pct || Ascii.eqb c und || Ascii.eqb c bsl then bsl :: c :: escape r else c :: escape r
  end.
Definition like_prefix (pfx s : string) : bool := like (escape (la pfx) ++ [pct]) (la s).

(* ---------- MySQL tables ---------- *)
Record row := { r_key : string; r_task : string; r_coll : Z; r_val : value }.
Definition table := list row.
(* INSERT ... ON DUPLICATE KEY UPDATE value; rows kept in primary-key order (InnoDB clustered index) *)
Fixpoint tput (l : table) (x : row) : table :=
  match l with
  | [] => [x]
  | y :: r => match String.compare (r_key x) (r_key y) with
              | Eq => {| r_key := r_key y; r_task := r_task y; r_coll := r_coll y; r_val := r_val x |} :: r
              | Lt => x :: y :: r
              | Gt => y :: tput r x end
  end.

(* ---------- the world: one backend, several roots ---------- *)
Inductive backend := Etcd | MySQL.
Record world := { w_kv : kv; w_info : table; w_pos : table; w_msg : table }.
Definition w0 : world := {| w_kv := []; w_info := []; w_pos := []; w_msg := [] |}.
Definition with_kv (w : world) (l : kv) : world := {| w_kv := l; w_info := w_info w; w_pos := w_pos w; w_msg := w_msg w |}.
Definition with_info (w : world) (t : table) : world := {| w_kv := w_kv w; w_info := t; w_pos := w_pos w; w_msg := w_msg w |}.
Definition with_pos (w : world) (t : table) : world := {| w_kv := w_kv w; w_info := w_info w; w_pos := t; w_msg := w_msg w |}.
Definition with_msg (w : world) (t : table) : world := {| w_kv := w_kv w; w_info := w_info w; w_pos := w_pos w; w_msg := t |}.

Definition infos_of (l : list value) : list tinfo := flat_map (fun v => match v with VI i => [i] | _ => [] end) l.
Definition poss_of (l : list value) : list posrec := flat_map (fun v => match v with VP p => [p] | _ => [] end) l.
Definition msgs_of (l : list value) : list N := flat_map (fun v => match v with VM m => [m] | _ => [] end) l.

(* ---- the store layer: task info ---- *)
Definition put_info (b : backend) (w : world) (r : string) (i : tinfo) : world :=
  match b with
  | Etcd => with_kv w (kput (w_kv w) (info_key r (ti_task i)) (VI i))
  | MySQL => with_info w (tput (w_info w) {| r_key := info_key r (ti_task i); r_task := ti_task i; r_coll := 0; r_val := VI i |})
  end.
Definition get_info (b : backend) (w : world) (r t : string) : list tinfo :=
  match b with
  | Etcd => infos_of (map snd (if String.eqb t "" then kget_prefix (w_kv w) (info_prefix r) else kget (w_kv w) (info_key r t)))
  | MySQL => infos_of (map r_val (filter (fun x => like_prefix (info_prefix r) (r_key x) && (String.eqb t "" || String.eqb (r_task x) t)) (w_info w)))
  end.
(* Delete refuses an empty task id (both backends) *)
Definition del_info (b : backend) (w : world) (r t : string) : world :=
  match b with
  | Etcd => with_kv w (kdel (w_kv w) (info_key r t))
  | MySQL => with_info w (filter (fun x => negb (String.eqb (r_key x) (info_key r t))) (w_info w))
  end.

(* ---- the store layer: positions ---- *)
Definition put_pos (b : backend) (w : world) (r : string) (p : posrec) : world :=
  match b with
  | Etcd => with_kv w (kput (w_kv w) (pos_key r (pr_task p) (pr_coll p)) (VP p))
  | MySQL => with_pos w (tput (w_pos w) {| r_key := pos_key r (pr_task p) (pr_coll p); r_task := pr_task p; r_coll := pr_coll p; r_val := VP p |})
  end.
Definition get_pos (b : backend) (w : world) (r t : string) (c : Z) : list posrec :=
  match b with
  | Etcd => poss_of (map snd (if negb (String.eqb t "") && negb (Z.eqb c 0) then kget (w_kv w) (pos_key r t c)
                              else if negb (String.eqb t "") then kget_prefix (w_kv w) (pos_prefix_t r t)
                              else kget_prefix (w_kv w) (pos_prefix r)))
  | MySQL => poss_of (map r_val (filter (fun x => like_prefix (pos_prefix r) (r_key x) && (String.eqb t "" || String.eqb (r_task x) t)
                                                  && (Z.eqb c 0 || Z.eqb (r_coll x) c)) (w_pos w)))
  end.
Definition del_pos (b : backend) (w : world) (r t : string) (c : Z) : world :=
  match b with
  | Etcd => with_kv w (if Z.eqb c 0 then kdel_prefix (w_kv w) (pos_prefix_t r t) else kdel (w_kv w) (pos_key r t c))
  | MySQL => with_pos w (filter (fun x => negb (like_prefix (pos_prefix r) (r_key x) && String.eqb (r_task x) t && (Z.eqb c 0 || Z.eqb (r_coll x) c))) (w_pos w))
  end.

(* ---- the store layer: task messages (replicate store) ---- *)
Definition put_msg (b : backend) (w : world) (r k : string) (m : N) : world :=
  match b with
  | Etcd => with_kv w (kput (w_kv w) (msg_key r k) (VM m))
  | MySQL => with_msg w (tput (w_msg w) {| r_key := msg_key r k; r_task := ""; r_coll := 0; r_val := VM m |})
  end.
Definition get_msg (b : backend) (w : world) (r k : string) (pfx : bool) : list N :=
  match b with
  | Etcd => msgs_of (map snd (if pfx then kget_prefix (w_kv w) (msg_key r k) else kget (w_kv w) (msg_key r k)))
  | MySQL => msgs_of (map r_val (filter (fun x => if pfx then like_prefix (msg_key r k) (r_key x) else String.eqb (r_key x) (msg_key r k)) (w_msg w)))
  end.
Definition del_msg (b : backend) (w : world) (r k : string) : world :=
  match b with
  | Etcd => with_kv w (kdel (w_kv w) (msg_key r k))
  | MySQL => with_msg w (filter (fun x => negb (String.eqb (r_key x) (msg_key r k))) (w_msg w))
  end.

(* ---------- meta_op.go ---------- *)
Definition cm_set (m : chmap) (k : string) (v : pinfo) : chmap := aupsert m k v.
(* one map of a position record: a dropped entry is never overwritten *)
Definition upd_entry (m : chmap) (k : string) (v : option pinfo) : chmap :=
  match v with
  | None => m
  | Some p => match alookup m k with
              | Some o => if pi_dropped o then m else cm_set m k p
              | None => cm_set m k p end
  end.

Inductive res := ROk | RErr | RNotFound.

(* UpdateTaskCollectionPosition *)
Definition upd_pos (b : backend) (w : world) (r t : string) (c : Z) (cname ch : string) (p op tg : option pinfo) : world :=
  match get_pos b w r t c with
  | [] =>
      let c' := if Z.eqb c 0 then (-1)%Z else c in
      put_pos b w r {| pr_task := t; pr_coll := c'; pr_cname := cname;
                       pr_pos := match p with Some x => [(ch, x)] | None => [] end;      (* a nil position is stored as null: harness never passes nil here *)
                       pr_op := match op with Some x => [(ch, x)] | None => [] end;
                       pr_tgt := match tg with Some x => [(pi_key x, x)] | None => [] end |}
  | m0 :: rest =>
      let m := match rest with m1 :: _ => if Z.ltb 0 (pr_coll m1) then m1 else m0 | [] => m0 end in
      put_pos b w r {| pr_task := pr_task m; pr_coll := pr_coll m; pr_cname := pr_cname m;
                       pr_pos := upd_entry (pr_pos m) ch p; pr_op := upd_entry (pr_op m) ch op;
                       pr_tgt := match tg with Some x => upd_entry (pr_tgt m) (pi_key x) tg | None => pr_tgt m end |}
  end.

Definition mark (m : chmap) : chmap := map (fun kv => (fst kv, {| pi_time := pi_time (snd kv); pi_key := pi_key (snd kv); pi_tok := pi_tok (snd kv); pi_dropped := true |})) m.
(* UpdateDropStateTaskCollectionPosition *)
Definition drop_state (b : backend) (w : world) (r t : string) (c : Z) : world * res :=
  match get_pos b w r t c with
  | [] => (w, RNotFound)
  | m :: _ => (put_pos b w r {| pr_task := pr_task m; pr_coll := pr_coll m; pr_cname := pr_cname m;
                                pr_pos := mark (pr_pos m); pr_op := mark (pr_op m); pr_tgt := mark (pr_tgt m) |}, ROk)
  end.

(* UpdateTaskState *)
Definition upd_state (b : backend) (w : world) (r t : string) (new : N) (olds : list N) (reason : string) : world * res :=
  if String.eqb t "" then (w, RErr)
  else match get_info b w r t with
       | [] => (w, RErr)
       | i :: _ => if negb (match olds with [] => true | _ => false end) && negb (existsb (N.eqb (ti_state i)) olds) then (w, RErr)
                   else (put_info b w r {| ti_task := ti_task i; ti_state := new; ti_reason := reason |}, ROk)
       end.

(* DeleteTask with a failure at one of its store calls.  The transaction body runs against a private copy (MySQL) or is a
   list of operations applied at commit (etcd): either way the world changes only at a successful commit *)
Inductive failpt := FNone | FGet | FTxn | FDelInfo | FDelPos | FCommitBefore | FCommitAfter.
Definition delete_task (b : backend) (w : world) (r t : string) (f : failpt) : world * res :=
  match f with
  | FGet => (w, RErr)
  | _ =>
      match get_info b w r t with
      | [] => (w, RNotFound)
      | _ :: _ =>
          match f with
          | FTxn | FDelInfo | FDelPos | FCommitBefore => (w, RErr)
          | _ =>
              if String.eqb t "" then (w, RErr)
              else let w' := del_pos b (del_info b w r t) r t 0 in
                   (w', match f with FCommitAfter => RErr | _ => ROk end)
          end
      end
  end.

(* ---------- labels ---------- *)
Inductive label :=
| LPutInfo (r : string) (i : tinfo)
| LGetInfo (r t : string)
| LDelInfo (r t : string)
| LPutPos (r : string) (p : posrec)
| LGetPos (r t : string) (c : Z)
| LDelPos (r t : string) (c : Z)
| LUpdPos (r t : string) (c : Z) (cname ch : string) (p op tg : option pinfo)
| LDropState (r t : string) (c : Z)
| LUpdState (r t : string) (new : N) (olds : list N) (reason : string)
| LDeleteTask (r t : string) (f : failpt)
| LPutMsg (r k : string) (m : N)
| LGetMsg (r k : string) (pfx : bool)
| LDelMsg (r k : string)
| LPar (a b : label).     (* two checkpoint operations (LUpdPos / LDropState) on one record issued by two goroutines: the consumers of two
                             downstream channels, or a consumer and the event loop *)

Inductive obs := OInfos (l : list tinfo) | OPoss (l : list posrec) | OMsgs (l : list N) | ORes (r : res) | ONone.

Definition step1 (b : backend) (w : world) (l : label) : world * obs :=
  match l with
  | LPutInfo r i => (put_info b w r i, ONone)
  | LGetInfo r t => (w, OInfos (get_info b w r t))
  | LDelInfo r t => if String.eqb t "" then (w, ORes RErr) else (del_info b w r t, ORes ROk)
  | LPutPos r p => (put_pos b w r p, ONone)
  | LGetPos r t c => (w, OPoss (get_pos b w r t c))
  | LDelPos r t c => if String.eqb t "" then (w, ORes RErr) else (del_pos b w r t c, ORes ROk)
  | LUpdPos r t c cname ch p op tg => (upd_pos b w r t c cname ch p op tg, ONone)
  | LDropState r t c => let '(w', x) := drop_state b w r t c in (w', ORes x)
  | LUpdState r t n o re => let '(w', x) := upd_state b w r t n o re in (w', ORes x)
  | LDeleteTask r t f => let '(w', x) := delete_task b w r t f in (w', ORes x)
  | LPutMsg r k m => (put_msg b w r k m, ONone)
  | LGetMsg r k pfx => (w, OMsgs (get_msg b w r k pfx))
  | LDelMsg r k => (del_msg b w r k, ONone)
  | LPar _ _ => (w, ONone)
  end.
(* the concurrent pair takes effect in one order or the other (the operations are serialised by the store layer's position lock):
   [step] takes the first order, the comparison with the implementation accepts both ([C12.Check.agrees]) *)
Definition step (b : backend) (w : world) (l : label) : world * obs :=
  match l with
  | LPar x y => (fst (step1 b (fst (step1 b w x)) y), ONone)
  | _ => step1 b w l
  end.

(* the full dump of the backend: every stored key with its value, in key order *)
Definition dump (b : backend) (w : world) : list (string * value) :=
  match b with
  | Etcd => w_kv w
  | MySQL => (map (fun x => (r_key x, r_val x)) (w_info w) ++ map (fun x => (r_key x, r_val x)) (w_pos w) ++ map (fun x => (r_key x, r_val x)) (w_msg w))%list
  end.

Fixpoint run_obs (b : backend) (w : world) (ls : list label) : list (obs * list (string * value)) :=
  match ls with
  | [] => []
  | l :: r => let '(w', o) := step b w l in (o, dump b w') :: run_obs b w' r
  end.
Definition run (b : backend) (ls : list label) : world := fold_left (fun w l => fst (step b w l)) ls w0.
