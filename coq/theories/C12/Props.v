(* C12 — property theorems only (model: C12/Model.v, proofs: C12/Proofs.v) *)
From Coq Require Import List String NArith ZArith Bool.
From Verif Require Import Base.Util C12.Model C12.Check C12.Proofs.
Import ListNotations.
Local Open Scope string_scope.

(* MySQL: the pattern the store builds from a key prefix (wildcards and the escape character escaped, '%' appended) matches
   exactly the keys that start with the prefix - for every prefix and every key, whatever characters they contain *)
Theorem C12_like_is_prefix : forall p s, like_prefix p s = String.prefix p s.
Proof. exact like_prefix_spec. Qed.
Print Assumptions C12_like_is_prefix.

(* the key space, for all root paths that are equal or independent (neither is a directory above the other) and all task ids
   without '/': the prefix of (root, task) covers exactly the checkpoint keys of that root and that task - not those of a task
   whose id merely starts the same, nor those of another root; exact keys name their root, task and collection; task-info
   and checkpoint keys never meet *)
Theorem C12_task_prefix : forall r t r' t' c', rel r r' -> noslash t = true -> noslash t' = true ->
  (String.prefix (pos_prefix_t r t) (pos_key r' t' c') = true <-> r = r' /\ t = t').
Proof. exact pos_prefix_t_sel. Qed.
Print Assumptions C12_task_prefix.

Theorem C12_keys_name_their_ids : forall r t c r' t' c', rel r r' -> noslash t = true -> noslash t' = true ->
  (pos_key r t c = pos_key r' t' c' -> r = r' /\ t = t' /\ c = c')
  /\ (info_key r t = info_key r' t' -> r = r' /\ t = t')
  /\ info_key r t <> pos_key r' t' c'
  /\ String.prefix (info_prefix r) (pos_key r' t' c') = false /\ String.prefix (pos_prefix r) (info_key r' t') = false.
Proof.
  intros r t c r' t' c' R N N'. split; [apply pos_key_inj; assumption|]. split; [apply info_key_inj; assumption|].
  split; [apply info_pos_distinct; assumption|]. split; [apply cross_info_pos|apply cross_pos_info]; assumption.
Qed.
Print Assumptions C12_keys_name_their_ids.

(* etcd: what writing one checkpoint record, deleting all checkpoints of a task, deleting a task record do to the key of any
   structured name: the target changes, every other checkpoint and every task record stays *)
Theorem C12_etcd_put_checkpoint : forall w r p r' t' c', rel r r' -> noslash (pr_task p) = true -> noslash t' = true ->
  ek (put_pos Etcd w r p) (pos_key r' t' c')
  = (if andb (String.eqb r r') (andb (String.eqb (pr_task p) t') (Z.eqb (pr_coll p) c')) then Some (VP p) else ek w (pos_key r' t' c'))
  /\ ek (put_pos Etcd w r p) (info_key r' t') = ek w (info_key r' t').
Proof. intros. split; [apply etcd_put_pos; assumption|apply etcd_put_pos_info; assumption]. Qed.
Print Assumptions C12_etcd_put_checkpoint.

Theorem C12_etcd_delete_checkpoints : forall w r t r' t' c', rel r r' -> noslash t = true -> noslash t' = true ->
  ek (del_pos Etcd w r t 0) (pos_key r' t' c') = (if andb (String.eqb r r') (String.eqb t t') then None else ek w (pos_key r' t' c'))
  /\ ek (del_pos Etcd w r t 0) (info_key r' t') = ek w (info_key r' t')
  /\ ek (del_info Etcd w r t) (info_key r' t') = (if andb (String.eqb r r') (String.eqb t t') then None else ek w (info_key r' t'))
  /\ ek (del_info Etcd w r t) (pos_key r' t' c') = ek w (pos_key r' t' c').
Proof.
  intros. split; [apply etcd_del_pos_all; assumption|]. split; [apply etcd_del_pos_all_info; assumption|].
  split; [apply etcd_del_info; assumption|apply etcd_del_info_pos; assumption].
Qed.
Print Assumptions C12_etcd_delete_checkpoints.

Theorem C12_etcd_task_read : forall w r t x r' t' c', rel r r' -> noslash t = true -> noslash t' = true ->
  In x (kget_prefix (w_kv w) (pos_prefix_t r t)) -> fst x = pos_key r' t' c' -> r = r' /\ t = t'.
Proof. exact etcd_get_pos_task_sound. Qed.
Print Assumptions C12_etcd_task_read.

(* MySQL, for every table whose rows carry the task and collection their key names (an invariant every insertion of the store
   keeps) and every set of pairwise equal-or-independent roots: deleting the checkpoints of (root, task) removes exactly the rows
   of that root and task; a read returns only rows of the root, task and collection asked for *)
Theorem C12_mysql_delete_checkpoints : forall R w r t r' t' c', roots_ok R -> In r R -> In r' R -> Forall (prow_ok R) (w_pos w) ->
  noslash t' = true ->
  tlookup (w_pos (del_pos MySQL w r t 0)) (pos_key r' t' c')
  = if andb (String.eqb r r') (String.eqb t t') then None else tlookup (w_pos w) (pos_key r' t' c').
Proof. exact mysql_del_pos_all. Qed.
Print Assumptions C12_mysql_delete_checkpoints.

Theorem C12_mysql_read : forall R w r t c x, roots_ok R -> In r R -> Forall (prow_ok R) (w_pos w) -> t <> "" ->
  In x (filter (fun x => like_prefix (pos_prefix r) (r_key x) && (String.eqb t "" || String.eqb (r_task x) t) && (Z.eqb c 0 || Z.eqb (r_coll x) c)) (w_pos w)) ->
  r_key x = pos_key r t (r_coll x) /\ (c = 0%Z \/ r_coll x = c).
Proof. exact mysql_get_pos_sound. Qed.
Print Assumptions C12_mysql_read.

Theorem C12_mysql_invariant : forall R w r p t c, In r R -> noslash (pr_task p) = true -> Forall (prow_ok R) (w_pos w) ->
  Forall (prow_ok R) (w_pos (put_pos MySQL w r p)) /\ Forall (prow_ok R) (w_pos (del_pos MySQL w r t c)).
Proof. intros. split; [apply put_pos_inv; assumption|apply del_pos_inv; assumption]. Qed.
Print Assumptions C12_mysql_invariant.

(* both backends: a checkpoint update writes back exactly one record - the one it read, or a new one for (task, collection) -,
   changes no entry of another channel, and never a dropped entry *)
Theorem C12_checkpoint_update : forall b w r t c cname ch p op tg, exists rec, upd_pos b w r t c cname ch p op tg = put_pos b w r rec
  /\ ((get_pos b w r t c = [] /\ pr_task rec = t /\ pr_coll rec = (if Z.eqb c 0 then (-1)%Z else c))
      \/ exists m, In m (get_pos b w r t c) /\ pr_task rec = pr_task m /\ pr_coll rec = pr_coll m
                   /\ (forall k', k' <> ch -> alookup (pr_pos rec) k' = alookup (pr_pos m) k' /\ alookup (pr_op rec) k' = alookup (pr_op m) k')
                   /\ (forall o, alookup (pr_pos m) ch = Some o -> pi_dropped o = true -> pr_pos rec = pr_pos m)
                   /\ (forall o, alookup (pr_op m) ch = Some o -> pi_dropped o = true -> pr_op rec = pr_op m)).
Proof. exact upd_pos_one. Qed.
Print Assumptions C12_checkpoint_update.

(* both backends, a failure at any store call: the world after DeleteTask is the world before, or the world with the task
   record and all its checkpoints removed; a reported failure other than a lost commit acknowledgement leaves it untouched *)
Theorem C12_delete_task_atomic : forall b w r t f,
  (fst (delete_task b w r t f) = w
   \/ (fst (delete_task b w r t f) = del_pos b (del_info b w r t) r t 0 /\ t <> "" /\ get_info b w r t <> []))
  /\ (snd (delete_task b w r t f) <> ROk -> f <> FCommitAfter -> fst (delete_task b w r t f) = w).
Proof. intros. split; [apply delete_task_atomic|apply delete_task_failed]. Qed.
Print Assumptions C12_delete_task_atomic.

Example C12_nonvacuous :
  rel "cdc" "cdc2" /\ rel "cdc_a" "cdcxa" /\ noslash "t1" = true /\ noslash "t10" = true
  /\ String.prefix (pos_prefix_t "cdc" "t1") (pos_key "cdc" "t10" 7) = false
  /\ like_prefix (info_prefix "cdc_a") (info_key "cdcxa" "t1") = false
  /\ like (la (info_prefix "cdc_a" ++ "%")) (la (info_key "cdcxa" "t1")) = true
  /\ (let ls := [LPutInfo "cdc" {| ti_task := "t1"; ti_state := 1; ti_reason := "" |};
                 LPutPos "cdc" {| pr_task := "t1"; pr_coll := 7; pr_cname := "c7"; pr_pos := []; pr_op := []; pr_tgt := [] |};
                 LPutPos "cdc" {| pr_task := "t10"; pr_coll := 7; pr_cname := "c7"; pr_pos := []; pr_op := []; pr_tgt := [] |};
                 LPutPos "cdc2" {| pr_task := "t1"; pr_coll := 7; pr_cname := "c7"; pr_pos := []; pr_op := []; pr_tgt := [] |};
                 LDeleteTask "cdc" "t1" FNone] in
      map fst (dump Etcd (run Etcd ls)) = ["cdc/task_position/t10/7"; "cdc2/task_position/t1/7"]
      /\ map fst (dump MySQL (run MySQL ls)) = ["cdc/task_position/t10/7"; "cdc2/task_position/t1/7"]).
Proof.
  split; [right; split; reflexivity|]. split; [right; split; reflexivity|]. vm_compute. repeat split.
Qed.
