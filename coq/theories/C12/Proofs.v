(* C12 — proofs: key space (prefixes of '/'-joined keys), LIKE with escaped prefixes, isolation of the store operations on
   both backends, the checkpoint update inside one record, all-or-nothing task deletion *)
From Coq Require Import List String NArith ZArith Bool Ascii Arith Lia DecimalString DecimalN DecimalPos.
From Verif Require Import Base.Util C12.Model.
Import ListNotations.
Local Open Scope string_scope.

(* ---------- prefixes ---------- *)
Lemma prefix_nil s : String.prefix "" s = true.
Proof. destruct s; reflexivity. Qed.
Lemma prefix_cons a p b s : String.prefix (String a p) (String b s) = Ascii.eqb a b && String.prefix p s.
Proof.
  cbn [String.prefix]. destruct (Ascii.ascii_dec a b) as [->|N]; [rewrite Ascii.eqb_refl; reflexivity|].
  destruct (Ascii.eqb_spec a b); [contradiction|reflexivity].
Qed.
Lemma prefix_cons_nil a p : String.prefix (String a p) "" = false.
Proof. reflexivity. Qed.

Lemma prefix_refl s : String.prefix s s = true.
Proof. induction s as [|a s IH]; [reflexivity|]. rewrite prefix_cons, Ascii.eqb_refl. exact IH. Qed.
Lemma prefix_app p s : String.prefix p (p ++ s) = true.
Proof. induction p as [|a p IH]; cbn [append]; [apply prefix_nil|]. rewrite prefix_cons, Ascii.eqb_refl. exact IH. Qed.
Lemma prefix_app_inv a b c : String.prefix (a ++ b) (a ++ c) = String.prefix b c.
Proof. induction a as [|x a IH]; cbn [append]; [reflexivity|]. rewrite prefix_cons, Ascii.eqb_refl. exact IH. Qed.
Lemma prefix_trans a b c : String.prefix a b = true -> String.prefix b c = true -> String.prefix a c = true.
Proof.
  revert b c. induction a as [|x a IH]; intros b c H1 H2; [apply prefix_nil|].
  destruct b as [|y b]; [discriminate|]. destruct c as [|z c]; [discriminate|].
  rewrite prefix_cons in *. apply andb_prop in H1, H2. destruct H1 as [E1 P1], H2 as [E2 P2].
  apply Ascii.eqb_eq in E1, E2. subst. rewrite Ascii.eqb_refl. cbn [andb]. eapply IH; eassumption.
Qed.
Lemma prefix_comparable a b s : String.prefix a s = true -> String.prefix b s = true -> String.prefix a b = true \/ String.prefix b a = true.
Proof.
  revert b s. induction a as [|x a IH]; intros b s H1 H2; [left; apply prefix_nil|].
  destruct b as [|y b]; [right; reflexivity|]. destruct s as [|z s]; [discriminate|].
  rewrite !prefix_cons in *. apply andb_prop in H1, H2. destruct H1 as [E1 P1], H2 as [E2 P2].
  apply Ascii.eqb_eq in E1, E2. subst. rewrite !Ascii.eqb_refl. cbn [andb]. eapply IH; eassumption.
Qed.
Lemma prefix_app_l a b s : String.prefix (a ++ b) s = true -> String.prefix a s = true.
Proof. intros H. eapply prefix_trans; [apply prefix_app|exact H]. Qed.
Lemma prefix_antisym a b : String.prefix a b = true -> String.prefix b a = true -> a = b.
Proof.
  revert b. induction a as [|x a IH]; intros [|y b] H1 H2; try reflexivity; try discriminate.
  rewrite prefix_cons in *. apply andb_prop in H1, H2. destruct H1 as [E1 P1], H2 as [E2 P2]. apply Ascii.eqb_eq in E1. subst. f_equal. apply IH; assumption.
Qed.

Lemma append_assoc a b c : (a ++ b) ++ c = a ++ (b ++ c).
Proof. induction a as [|x a IH]; cbn; [reflexivity|]. rewrite IH. reflexivity. Qed.

(* ---------- roots ---------- *)
(* two root paths are independent when neither is a directory above the other *)
Definition indep (r r' : string) : Prop := String.prefix (r ++ "/") (r' ++ "/") = false /\ String.prefix (r' ++ "/") (r ++ "/") = false.

Lemma root_sep r r' a b : r = r' \/ indep r r' ->
  String.prefix (r ++ "/" ++ a) (r' ++ "/" ++ b) = true -> r = r' /\ String.prefix a b = true.
Proof.
  intros [->|[I1 I2]] H.
  - split; [reflexivity|]. rewrite <- !append_assoc in H. rewrite prefix_app_inv in H. exact H.
  - exfalso. rewrite <- !append_assoc in H. apply prefix_app_l in H.
    assert (H2 : String.prefix (r' ++ "/") ((r' ++ "/") ++ b) = true) by apply prefix_app.
    destruct (prefix_comparable _ _ _ H H2) as [C|C]; congruence.
Qed.

(* ---------- task ids without '/' ---------- *)
Fixpoint noslash (s : string) : bool := match s with EmptyString => true | String a r => negb (Ascii.eqb a "/"%char) && noslash r end.

Lemma noslash_sep t t' x y : noslash t = true -> noslash t' = true ->
  String.prefix (t ++ "/" ++ x) (t' ++ "/" ++ y) = true -> t = t' /\ String.prefix x y = true.
Proof.
  revert t'. induction t as [|a t IH]; intros [|b t'] N1 N2 H; cbn [append] in *.
  - split; [reflexivity|]. rewrite prefix_cons in H. apply andb_prop in H. apply H.
  - rewrite prefix_cons in H. apply andb_prop in H. destruct H as [E _]. apply Ascii.eqb_eq in E. subst b.
    cbn in N2. discriminate.
  - rewrite prefix_cons in H. apply andb_prop in H. destruct H as [E _]. apply Ascii.eqb_eq in E. subst a.
    cbn in N1. discriminate.
  - rewrite prefix_cons in H. apply andb_prop in H. destruct H as [E P]. apply Ascii.eqb_eq in E. subst b.
    cbn [noslash] in N1, N2. apply andb_prop in N1, N2. destruct (IH t' (proj2 N1) (proj2 N2) P) as [-> Q]. split; [reflexivity|exact Q].
Qed.

(* ---------- LIKE with an escaped prefix is the prefix test ---------- *)
Lemma like_star_true p' : forall s, like p' s = true -> (fix star (s : list ascii) : bool := like p' s || match s with [] => false | _ :: s' => star s' end) s = true.
Proof. intros [|x s] H; rewrite H; reflexivity. Qed.

Lemma like_pct_any : forall s, like [pct] s = true.
Proof.
  cbn [like]. rewrite Ascii.eqb_refl. induction s as [|x s IH]; [reflexivity|]. cbn. destruct s; [reflexivity|]. exact IH.
Qed.

Fixpoint lprefix (p s : list ascii) : bool :=
  match p, s with [], _ => true | a :: p', b :: s' => Ascii.eqb a b && lprefix p' s' | _ :: _, [] => false end.

Lemma like_escape_prefix : forall p s, like (escape p ++ [pct]) s = lprefix p s.
Proof.
  induction p as [|c p IH]; intros s.
  - cbn [escape app lprefix]. apply like_pct_any.
  - cbn [escape]. destruct (Ascii.eqb c pct || Ascii.eqb c und || Ascii.eqb c bsl) eqn:E.
    + (* escaped: "\" c ... *)
      cbn [app like]. replace (Ascii.eqb bsl pct) with false by reflexivity. replace (Ascii.eqb bsl und) with false by reflexivity.
      rewrite Ascii.eqb_refl. destruct s as [|x s]; [reflexivity|]. cbn [lprefix]. rewrite IH. rewrite (Ascii.eqb_sym x c). reflexivity.
    + apply orb_false_iff in E. destruct E as [E E3]. apply orb_false_iff in E. destruct E as [E1 E2].
      cbn [app like]. rewrite E1, E2, E3. destruct s as [|x s]; [reflexivity|]. cbn [lprefix]. rewrite IH. rewrite (Ascii.eqb_sym x c). reflexivity.
Qed.

Lemma lprefix_prefix : forall p s, lprefix (la p) (la s) = String.prefix p s.
Proof.
  induction p as [|a p IH]; intros s; [rewrite prefix_nil; reflexivity|]. destruct s as [|b s]; [reflexivity|].
  cbn [la list_ascii_of_string lprefix]. rewrite prefix_cons. unfold la in IH. rewrite IH. reflexivity.
Qed.

Theorem like_prefix_spec p s : like_prefix p s = String.prefix p s.
Proof. unfold like_prefix. rewrite like_escape_prefix. apply lprefix_prefix. Qed.

(* ---------- the keys of structured names ---------- *)
Lemma info_key_nf r t : info_key r t = r ++ "/" ++ ("task_info/" ++ t).
Proof. unfold info_key, info_prefix. rewrite append_assoc. reflexivity. Qed.
Lemma info_prefix_nf r : info_prefix r = r ++ "/" ++ "task_info/".
Proof. reflexivity. Qed.
Lemma pos_key_nf r t c : pos_key r t c = r ++ "/" ++ ("task_position/" ++ (t ++ "/" ++ zstr c)).
Proof. unfold pos_key, pos_prefix_t, pos_prefix. rewrite !append_assoc. reflexivity. Qed.
Lemma pos_prefix_t_nf r t : pos_prefix_t r t = r ++ "/" ++ ("task_position/" ++ (t ++ "/" ++ "")).
Proof. unfold pos_prefix_t, pos_prefix. rewrite !append_assoc. reflexivity. Qed.
Lemma pos_prefix_nf r : pos_prefix r = r ++ "/" ++ "task_position/".
Proof. reflexivity. Qed.

Definition rel (r r' : string) : Prop := r = r' \/ indep r r'.

Lemma pos_prefix_t_sel r t r' t' c' : rel r r' -> noslash t = true -> noslash t' = true ->
  (String.prefix (pos_prefix_t r t) (pos_key r' t' c') = true <-> r = r' /\ t = t').
Proof.
  intros R N N'. rewrite pos_prefix_t_nf, pos_key_nf. split.
  - intros H. destruct (root_sep _ _ _ _ R H) as [-> P]. split; [reflexivity|].
    change "task_position/" with ("task_position/" ++ "") in P at 1. rewrite append_assoc in P.
    change ("task_position/" ++ "" ++ t ++ "/" ++ "") with ("task_position/" ++ (t ++ "/" ++ "")) in P.
    rewrite prefix_app_inv in P. destruct (noslash_sep _ _ _ _ N N' P) as [-> _]. reflexivity.
  - intros [-> ->]. rewrite !prefix_app_inv. apply prefix_nil.
Qed.

Lemma pos_prefix_sel r r' t' c' : rel r r' -> (String.prefix (pos_prefix r) (pos_key r' t' c') = true <-> r = r').
Proof.
  intros R. rewrite pos_prefix_nf, pos_key_nf. split.
  - intros H. destruct (root_sep _ _ _ _ R H) as [-> _]. reflexivity.
  - intros ->. rewrite !prefix_app_inv. apply prefix_app.
Qed.
Lemma info_prefix_sel r r' t' : rel r r' -> (String.prefix (info_prefix r) (info_key r' t') = true <-> r = r').
Proof.
  intros R. rewrite info_prefix_nf, info_key_nf. split.
  - intros H. destruct (root_sep _ _ _ _ R H) as [-> _]. reflexivity.
  - intros ->. rewrite !prefix_app_inv. apply prefix_app.
Qed.
Lemma cross_info_pos r r' t' c' : rel r r' -> String.prefix (info_prefix r) (pos_key r' t' c') = false.
Proof.
  intros R. destruct (String.prefix (info_prefix r) (pos_key r' t' c')) eqn:H; [|reflexivity]. exfalso.
  rewrite info_prefix_nf, pos_key_nf in H. destruct (root_sep _ _ _ _ R H) as [_ P]. cbn in P. discriminate.
Qed.
Lemma cross_pos_info r r' t' : rel r r' -> String.prefix (pos_prefix r) (info_key r' t') = false.
Proof.
  intros R. destruct (String.prefix (pos_prefix r) (info_key r' t')) eqn:H; [|reflexivity]. exfalso.
  rewrite pos_prefix_nf, info_key_nf in H. destruct (root_sep _ _ _ _ R H) as [_ P]. cbn in P. discriminate.
Qed.

(* exact keys name their structured id *)
Lemma zstr_inj c c' : zstr c = zstr c' -> c = c'.
Proof.
  assert (P : forall p q, NilEmpty.string_of_uint (N.to_uint (Npos p)) = NilEmpty.string_of_uint (N.to_uint (Npos q)) -> p = q).
  { intros p q H. apply (f_equal NilEmpty.uint_of_string) in H. rewrite !NilEmpty.usu in H. injection H as H.
    apply (f_equal Pos.of_uint) in H. rewrite !DecimalPos.Unsigned.of_to in H. congruence. }
  assert (D : forall p, exists a r, NilEmpty.string_of_uint (N.to_uint (Npos p)) = String a r /\ a <> "-"%char /\ (r = "" -> a <> "0"%char)).
  { intros p. unfold N.to_uint. pose proof (DecimalPos.Unsigned.to_uint_nonnil p) as NN.
    destruct (Pos.to_uint p) as [|u|u|u|u|u|u|u|u|u|u] eqn:E; try congruence; cbn [NilEmpty.string_of_uint]; eexists; eexists; (split; [reflexivity|split; [discriminate|try discriminate]]).
    intros Hr. destruct u; cbn in Hr; try discriminate. exfalso.
    pose proof (DecimalPos.Unsigned.of_to p) as OT. rewrite E in OT. cbn in OT. discriminate. }
  destruct c as [|p|p], c' as [|q|q]; cbn [zstr]; intros H; try reflexivity.
  - destruct (D q) as [a [r [E [_ Z]]]]. rewrite E in H. injection H as <- <-. exfalso. apply Z; reflexivity.
  - destruct (D q) as [a [r [E _]]]. cbn in H. discriminate.
  - destruct (D p) as [a [r [E [_ Z]]]]. rewrite E in H. injection H as -> ->. exfalso. apply Z; reflexivity.
  - f_equal. apply P. exact H.
  - destruct (D p) as [a [r [E [M _]]]]. rewrite E in H. cbn in H. injection H as -> _. congruence.
  - cbn in H. discriminate.
  - destruct (D q) as [a [r [E [M _]]]]. rewrite E in H. cbn in H. injection H as <- _. congruence.
  - cbn in H. injection H as H. f_equal. apply P. exact H.
Qed.

Lemma append_inj_l a b c : a ++ b = a ++ c -> b = c.
Proof. induction a as [|x a IH]; cbn; intros H; [exact H|]. injection H as H. apply IH, H. Qed.
Lemma rel_sym r r' : rel r r' -> rel r' r.
Proof. intros [->|[A B]]; [left; reflexivity|right; split; assumption]. Qed.

Lemma pos_key_inj r t c r' t' c' : rel r r' -> noslash t = true -> noslash t' = true ->
  pos_key r t c = pos_key r' t' c' -> r = r' /\ t = t' /\ c = c'.
Proof.
  intros R N N' E. rewrite !pos_key_nf in E.
  assert (P : String.prefix (r ++ "/" ++ "task_position/" ++ t ++ "/" ++ zstr c) (r' ++ "/" ++ "task_position/" ++ t' ++ "/" ++ zstr c') = true)
    by (rewrite E; apply prefix_refl).
  destruct (root_sep _ _ _ _ R P) as [-> _]. split; [reflexivity|].
  apply append_inj_l, append_inj_l, append_inj_l in E.
  assert (P2 : String.prefix (t ++ "/" ++ zstr c) (t' ++ "/" ++ zstr c') = true) by (rewrite E; apply prefix_refl).
  destruct (noslash_sep _ _ _ _ N N' P2) as [-> _]. split; [reflexivity|].
  apply append_inj_l, append_inj_l in E. apply zstr_inj, E.
Qed.
Lemma info_key_inj r t r' t' : rel r r' -> info_key r t = info_key r' t' -> r = r' /\ t = t'.
Proof.
  intros R E. rewrite !info_key_nf in E.
  assert (P : String.prefix (r ++ "/" ++ "task_info/" ++ t) (r' ++ "/" ++ "task_info/" ++ t') = true) by (rewrite E; apply prefix_refl).
  destruct (root_sep _ _ _ _ R P) as [-> _]. split; [reflexivity|]. apply append_inj_l, append_inj_l, append_inj_l in E. exact E.
Qed.
Lemma info_pos_distinct r t r' t' c' : rel r r' -> info_key r t <> pos_key r' t' c'.
Proof.
  intros R E. pose proof (cross_info_pos r r' t' c' R) as C. rewrite <- E in C.
  unfold info_key in C. rewrite prefix_app in C. discriminate.
Qed.

(* ---------- the key space of etcd ---------- *)
Fixpoint klookup (l : kv) (k : string) : option value :=
  match l with [] => None | (k', v) :: r => if String.eqb k k' then Some v else klookup r k end.

Lemma compare_eq_eqb a b : String.compare a b = Eq <-> String.eqb a b = true.
Proof.
  rewrite String.eqb_eq. split; [apply String.compare_eq_iff|intros ->]. induction b as [|x b IH]; cbn; [reflexivity|].
  assert (A : Ascii.compare x x = Eq) by (unfold Ascii.compare; apply N.compare_refl). rewrite A. exact IH.
Qed.

Lemma kput_spec l k v k' : klookup (kput l k v) k' = if String.eqb k' k then Some v else klookup l k'.
Proof.
  induction l as [|[k0 v0] r IH]; cbn [kput klookup]; [reflexivity|].
  destruct (String.compare k k0) eqn:C; cbn [klookup].
  - apply compare_eq_eqb, String.eqb_eq in C. subst k0. destruct (String.eqb k' k); reflexivity.
  - destruct (String.eqb k' k); reflexivity.
  - rewrite IH. destruct (String.eqb_spec k' k0) as [->|N]; [|reflexivity].
    destruct (String.eqb_spec k0 k) as [->|N2]; [|reflexivity]. exfalso.
    assert (E : String.compare k k = Eq) by (apply compare_eq_eqb, String.eqb_refl). congruence.
Qed.
Lemma kfilter_spec (f : string -> bool) l k : klookup (filter (fun x => f (fst x)) l) k = if f k then klookup l k else None.
Proof.
  induction l as [|[k0 v0] r IH]; cbn [filter klookup fst]; [destruct (f k); reflexivity|].
  destruct (f k0) eqn:F; cbn [klookup]; rewrite IH.
  - destruct (String.eqb_spec k k0) as [->|N]; [rewrite F; reflexivity|reflexivity].
  - destruct (String.eqb_spec k k0) as [->|N]; [rewrite F; reflexivity|reflexivity].
Qed.
Lemma kdel_spec l k k' : klookup (kdel l k) k' = if String.eqb k' k then None else klookup l k'.
Proof. unfold kdel. rewrite (kfilter_spec (fun x => negb (String.eqb x k)) l k'). destruct (String.eqb k' k); reflexivity. Qed.
Lemma kdel_prefix_spec l p k' : klookup (kdel_prefix l p) k' = if String.prefix p k' then None else klookup l k'.
Proof. unfold kdel_prefix. rewrite (kfilter_spec (fun x => negb (String.prefix p x)) l k'). destruct (String.prefix p k'); reflexivity. Qed.

(* ---------- etcd: what one operation does to the keys of structured names ---------- *)
Definition ek (w : world) (k : string) : option value := klookup (w_kv w) k.

Theorem etcd_put_pos w r p r' t' c' : rel r r' -> noslash (pr_task p) = true -> noslash t' = true ->
  ek (put_pos Etcd w r p) (pos_key r' t' c') = if andb (String.eqb r r') (andb (String.eqb (pr_task p) t') (Z.eqb (pr_coll p) c')) then Some (VP p) else ek w (pos_key r' t' c').
Proof.
  intros R N N'. unfold ek, put_pos. cbn [w_kv with_kv]. rewrite kput_spec.
  destruct (String.eqb_spec (pos_key r' t' c') (pos_key r (pr_task p) (pr_coll p))) as [E|NE].
  - destruct (pos_key_inj _ _ _ _ _ _ (rel_sym _ _ R) N' N E) as [-> [-> ->]]. rewrite !String.eqb_refl, Z.eqb_refl. reflexivity.
  - destruct (String.eqb_spec r r') as [->|]; [|reflexivity]. destruct (String.eqb_spec (pr_task p) t') as [<-|]; [|reflexivity].
    destruct (Z.eqb_spec (pr_coll p) c') as [<-|]; [congruence|reflexivity].
Qed.
Theorem etcd_put_pos_info w r p r' t' : rel r r' -> ek (put_pos Etcd w r p) (info_key r' t') = ek w (info_key r' t').
Proof.
  intros R. unfold ek, put_pos. cbn [w_kv with_kv]. rewrite kput_spec.
  destruct (String.eqb_spec (info_key r' t') (pos_key r (pr_task p) (pr_coll p))) as [E|NE]; [|reflexivity].
  exfalso. exact (info_pos_distinct _ _ _ _ _ (rel_sym _ _ R) E).
Qed.

Lemma prefix_t_root r t k : String.prefix (pos_prefix_t r t) k = true -> String.prefix (pos_prefix r) k = true.
Proof. intros H. unfold pos_prefix_t in H. eapply prefix_app_l, H. Qed.

Theorem etcd_del_pos_all w r t r' t' c' : rel r r' -> noslash t = true -> noslash t' = true ->
  ek (del_pos Etcd w r t 0) (pos_key r' t' c') = if andb (String.eqb r r') (String.eqb t t') then None else ek w (pos_key r' t' c').
Proof.
  intros R N N'. unfold ek, del_pos. cbn [Z.eqb w_kv with_kv]. rewrite kdel_prefix_spec.
  destruct (String.prefix (pos_prefix_t r t) (pos_key r' t' c')) eqn:P.
  - apply (pos_prefix_t_sel r t r' t' c' R N N') in P. destruct P as [-> ->]. rewrite !String.eqb_refl. reflexivity.
  - destruct (String.eqb_spec r r') as [->|]; [|reflexivity]. destruct (String.eqb_spec t t') as [->|]; [|reflexivity].
    exfalso. assert (Q : String.prefix (pos_prefix_t r' t') (pos_key r' t' c') = true) by (apply (pos_prefix_t_sel r' t' r' t' c'); [left; reflexivity|assumption|assumption|split; reflexivity]).
    congruence.
Qed.
Theorem etcd_del_pos_all_info w r t r' t' : rel r r' -> ek (del_pos Etcd w r t 0) (info_key r' t') = ek w (info_key r' t').
Proof.
  intros R. unfold ek, del_pos. cbn [Z.eqb w_kv with_kv]. rewrite kdel_prefix_spec.
  destruct (String.prefix (pos_prefix_t r t) (info_key r' t')) eqn:P; [|reflexivity]. exfalso.
  apply prefix_t_root in P. rewrite (cross_pos_info r r' t' R) in P. discriminate.
Qed.
Theorem etcd_del_info w r t r' t' : rel r r' ->
  ek (del_info Etcd w r t) (info_key r' t') = if andb (String.eqb r r') (String.eqb t t') then None else ek w (info_key r' t').
Proof.
  intros R. unfold ek, del_info. cbn [w_kv with_kv]. rewrite kdel_spec.
  destruct (String.eqb_spec (info_key r' t') (info_key r t)) as [E|NE].
  - destruct (info_key_inj _ _ _ _ (rel_sym _ _ R) E) as [-> ->]. rewrite !String.eqb_refl. reflexivity.
  - destruct (String.eqb_spec r r') as [->|]; [|reflexivity]. destruct (String.eqb_spec t t') as [->|]; [congruence|reflexivity].
Qed.
Theorem etcd_del_info_pos w r t r' t' c' : rel r r' -> ek (del_info Etcd w r t) (pos_key r' t' c') = ek w (pos_key r' t' c').
Proof.
  intros R. unfold ek, del_info. cbn [w_kv with_kv]. rewrite kdel_spec.
  destruct (String.eqb_spec (pos_key r' t' c') (info_key r t)) as [E|NE]; [|reflexivity]. exfalso. exact (info_pos_distinct _ _ _ _ _ R (eq_sym E)).
Qed.

(* reads: a prefix read of (root, task) returns only keys of that root and task *)
Theorem etcd_get_pos_task_sound w r t x r' t' c' : rel r r' -> noslash t = true -> noslash t' = true ->
  In x (kget_prefix (w_kv w) (pos_prefix_t r t)) -> fst x = pos_key r' t' c' -> r = r' /\ t = t'.
Proof.
  intros R N N' H E. unfold kget_prefix in H. apply filter_In in H. destruct H as [_ P]. rewrite E in P.
  apply (pos_prefix_t_sel r t r' t' c' R N N'). exact P.
Qed.

(* ---------- MySQL: rows, the invariant that ties the columns of a row to its key, selections ---------- *)
Fixpoint tlookup (l : table) (k : string) : option value :=
  match l with [] => None | x :: r => if String.eqb k (r_key x) then Some (r_val x) else tlookup r k end.

Definition roots_ok (R : list string) : Prop := forall a b, In a R -> In b R -> rel a b.
Definition prow_ok (R : list string) (x : row) : Prop :=
  exists r0, In r0 R /\ r_key x = pos_key r0 (r_task x) (r_coll x) /\ noslash (r_task x) = true.

Definition sel_pos (r t : string) (c : Z) (x : row) : bool :=
  like_prefix (pos_prefix r) (r_key x) && String.eqb (r_task x) t && (Z.eqb c 0 || Z.eqb (r_coll x) c).

Lemma sel_pos_spec R r t c x : roots_ok R -> In r R -> prow_ok R x ->
  (sel_pos r t c x = true <-> r_key x = pos_key r (r_task x) (r_coll x) /\ r_task x = t /\ (c = 0%Z \/ r_coll x = c)).
Proof.
  intros RO Hr [r0 [H0 [K N]]]. unfold sel_pos. rewrite like_prefix_spec, !andb_true_iff, orb_true_iff, String.eqb_eq, !Z.eqb_eq.
  rewrite K. rewrite (pos_prefix_sel r r0 (r_task x) (r_coll x) (RO _ _ Hr H0)). split.
  - intros [[-> T] C]. split; [reflexivity|]. split; assumption.
  - intros [E [T C]]. split; [split|]; [|exact T|exact C].
    destruct (pos_key_inj _ _ _ _ _ _ (RO _ _ H0 Hr) N N E) as [-> _]. reflexivity.
Qed.

Lemma tfilter_spec (f : row -> bool) l k b : (forall x, In x l -> r_key x = k -> f x = b) ->
  tlookup (filter f l) k = if b then tlookup l k else None.
Proof.
  induction l as [|x r IH]; intros H; cbn [filter tlookup]; [destruct b; reflexivity|].
  assert (IH' := IH (fun y Hy => H y (or_intror Hy))).
  destruct (String.eqb_spec k (r_key x)) as [E|NE].
  - rewrite (H x (or_introl eq_refl) (eq_sym E)). destruct b; cbn [tlookup]; [rewrite <- E, String.eqb_refl; reflexivity|exact IH'].
  - destruct (f x); cbn [tlookup]; [destruct (String.eqb_spec k (r_key x)); [contradiction|]|]; exact IH'.
Qed.

Theorem mysql_del_pos_all R w r t r' t' c' : roots_ok R -> In r R -> In r' R -> Forall (prow_ok R) (w_pos w) ->
  noslash t' = true ->
  tlookup (w_pos (del_pos MySQL w r t 0)) (pos_key r' t' c')
  = if andb (String.eqb r r') (String.eqb t t') then None else tlookup (w_pos w) (pos_key r' t' c').
Proof.
  intros RO Hr Hr' Inv N'. unfold del_pos. cbn [w_pos with_pos].
  change (fun x : row => negb (like_prefix (pos_prefix r) (r_key x) && String.eqb (r_task x) t && (Z.eqb 0 0 || Z.eqb (r_coll x) 0)))
    with (fun x => negb (sel_pos r t 0 x)).
  rewrite (tfilter_spec (fun x => negb (sel_pos r t 0 x)) (w_pos w) (pos_key r' t' c') (negb (andb (String.eqb r r') (String.eqb t t')))).
  - destruct (String.eqb r r' && String.eqb t t'); reflexivity.
  - intros x Hx Kx. rewrite Forall_forall in Inv. pose proof (Inv x Hx) as PX. f_equal.
    destruct (sel_pos r t 0 x) eqn:S.
    + apply (sel_pos_spec R r t 0 x RO Hr PX) in S. destruct S as [E [T _]]. rewrite Kx in E.
      destruct PX as [r0 [H0 [_ N]]]. destruct (pos_key_inj _ _ _ _ _ _ (RO _ _ Hr' Hr) N' N E) as [-> [-> _]].
      rewrite T, !String.eqb_refl. reflexivity.
    + symmetry. apply andb_false_iff. destruct (String.eqb_spec r r') as [->|]; [|left; reflexivity]. destruct (String.eqb_spec t t') as [->|]; [|right; reflexivity].
      exfalso. assert (S' : sel_pos r' t' 0 x = true).
      { apply (sel_pos_spec R r' t' 0 x RO Hr' PX). destruct PX as [r0 [H0 [K N]]]. rewrite Kx in K.
        destruct (pos_key_inj _ _ _ _ _ _ (RO _ _ Hr' H0) N' N K) as [-> [-> ->]]. split; [exact Kx|]. split; [reflexivity|left; reflexivity]. }
      congruence.
Qed.

(* a position read returns only rows of the root, task (and collection) asked for *)
Theorem mysql_get_pos_sound R w r t c x : roots_ok R -> In r R -> Forall (prow_ok R) (w_pos w) -> t <> "" ->
  In x (filter (fun x => like_prefix (pos_prefix r) (r_key x) && (String.eqb t "" || String.eqb (r_task x) t) && (Z.eqb c 0 || Z.eqb (r_coll x) c)) (w_pos w)) ->
  r_key x = pos_key r t (r_coll x) /\ (c = 0%Z \/ r_coll x = c).
Proof.
  intros RO Hr Inv Ht H. apply filter_In in H. destruct H as [Hx S]. rewrite Forall_forall in Inv. pose proof (Inv x Hx) as PX.
  destruct (String.eqb_spec t "") as [|_]; [contradiction|]. cbn [orb] in S.
  change (sel_pos r t c x = true) in S. apply (sel_pos_spec R r t c x RO Hr PX) in S. destruct S as [E [<- C]]. split; assumption.
Qed.

(* the invariant is kept by every insertion the store makes *)
Lemma tput_in l x y : In y (tput l x) -> y = x \/ In y l \/ exists z, In z l /\ r_key z = r_key x /\ r_key y = r_key z /\ r_task y = r_task z /\ r_coll y = r_coll z.
Proof.
  induction l as [|z r IH]; cbn [tput]; [intros [<-|[]]; left; reflexivity|].
  destruct (String.compare (r_key x) (r_key z)) eqn:C.
  - intros [<-|H]; [|right; left; right; exact H]. right. right. exists z. split; [left; reflexivity|]. cbn. repeat split.
    symmetry. apply compare_eq_eqb, String.eqb_eq in C. exact C.
  - intros [<-|[<-|H]]; [left; reflexivity|right; left; left; reflexivity|right; left; right; exact H].
  - intros [<-|H]; [right; left; left; reflexivity|]. destruct (IH H) as [A|[A|[z' [A B]]]]; [left; exact A|right; left; right; exact A|].
    right. right. exists z'. split; [right; exact A|exact B].
Qed.
Lemma put_pos_inv R w r p : In r R -> noslash (pr_task p) = true -> Forall (prow_ok R) (w_pos w) -> Forall (prow_ok R) (w_pos (put_pos MySQL w r p)).
Proof.
  intros Hr N Inv. unfold put_pos. cbn [w_pos with_pos]. rewrite Forall_forall in *. intros y Hy.
  destruct (tput_in _ _ _ Hy) as [->|[H|[z [Hz [_ [K [T C]]]]]]].
  - exists r. cbn. repeat split; assumption.
  - apply Inv, H.
  - destruct (Inv z Hz) as [r0 [H0 [K0 N0]]]. exists r0. rewrite K, T, C. repeat split; assumption.
Qed.
Lemma del_pos_inv R w r t c : Forall (prow_ok R) (w_pos w) -> Forall (prow_ok R) (w_pos (del_pos MySQL w r t c)).
Proof.
  intros Inv. unfold del_pos. cbn [w_pos with_pos]. rewrite Forall_forall in *. intros y Hy. apply filter_In in Hy. apply Inv, Hy.
Qed.

(* ---------- inside one record: a checkpoint update changes one channel entry and never a dropped one ---------- *)
Lemma alookup_aupsert' {A} (l : list (string * A)) k v k' :
  alookup (aupsert l k v) k' = if String.eqb k' k then Some v else alookup l k'.
Proof.
  induction l as [|[k0 v0] r IH]; cbn [aupsert alookup]; [destruct (String.eqb k' k); reflexivity|].
  destruct (String.eqb_spec k k0) as [->|Hne]; cbn [alookup].
  - destruct (String.eqb k' k0); reflexivity.
  - destruct (String.eqb_spec k' k0) as [->|Hne2]; [destruct (String.eqb_spec k0 k); [congruence|reflexivity]|exact IH].
Qed.

Lemma upd_entry_other m k v k' : k' <> k -> alookup (upd_entry m k v) k' = alookup m k'.
Proof.
  intros N. unfold upd_entry, cm_set. destruct v as [p|]; [|reflexivity].
  destruct (alookup m k) as [o|]; [destruct (pi_dropped o); [reflexivity|]|]; rewrite alookup_aupsert'; destruct (String.eqb_spec k' k); congruence.
Qed.
Lemma upd_entry_dropped m k v o : alookup m k = Some o -> pi_dropped o = true -> upd_entry m k v = m.
Proof. intros H D. unfold upd_entry. destruct v; [|reflexivity]. rewrite H, D. reflexivity. Qed.
Lemma upd_entry_set m k p : (forall o, alookup m k = Some o -> pi_dropped o = false) -> alookup (upd_entry m k (Some p)) k = Some p.
Proof.
  intros H. unfold upd_entry, cm_set. destruct (alookup m k) as [o|] eqn:E; [rewrite (H o eq_refl)|]; rewrite alookup_aupsert', String.eqb_refl; reflexivity.
Qed.

(* the update writes exactly one record back, the one it read (or a new one) *)
Lemma upd_pos_one b w r t c cname ch p op tg : exists rec, upd_pos b w r t c cname ch p op tg = put_pos b w r rec
  /\ ((get_pos b w r t c = [] /\ pr_task rec = t /\ pr_coll rec = (if Z.eqb c 0 then (-1)%Z else c))
      \/ exists m, In m (get_pos b w r t c) /\ pr_task rec = pr_task m /\ pr_coll rec = pr_coll m
                   /\ (forall k', k' <> ch -> alookup (pr_pos rec) k' = alookup (pr_pos m) k' /\ alookup (pr_op rec) k' = alookup (pr_op m) k')
                   /\ (forall o, alookup (pr_pos m) ch = Some o -> pi_dropped o = true -> pr_pos rec = pr_pos m)
                   /\ (forall o, alookup (pr_op m) ch = Some o -> pi_dropped o = true -> pr_op rec = pr_op m)).
Proof.
  unfold upd_pos. destruct (get_pos b w r t c) as [|m0 rest] eqn:G.
  - eexists. split; [reflexivity|]. left. cbn. repeat split.
  - set (m := match rest with m1 :: _ => if Z.ltb 0 (pr_coll m1) then m1 else m0 | [] => m0 end).
    eexists. split; [reflexivity|]. right. exists m. split.
    + unfold m. destruct rest as [|m1 r']; [left; reflexivity|]. destruct (Z.ltb 0 (pr_coll m1)); [right; left; reflexivity|left; reflexivity].
    + cbn [pr_task pr_coll pr_pos pr_op]. split; [reflexivity|]. split; [reflexivity|]. split; [|split].
      * intros k' N. split; apply upd_entry_other; exact N.
      * intros o H D. eapply upd_entry_dropped; eassumption.
      * intros o H D. eapply upd_entry_dropped; eassumption.
Qed.

(* ---------- deleting a task: all or nothing ---------- *)
Lemma delete_task_atomic b w r t f :
  fst (delete_task b w r t f) = w
  \/ (fst (delete_task b w r t f) = del_pos b (del_info b w r t) r t 0 /\ t <> "" /\ get_info b w r t <> []).
Proof.
  unfold delete_task. destruct f; try (left; reflexivity).
  all: destruct (get_info b w r t) as [|i l] eqn:G; [left; reflexivity|]; try (left; reflexivity).
  all: destruct (String.eqb_spec t ""); [left; reflexivity|right; split; [reflexivity|split; [assumption|discriminate]]].
Qed.
Lemma delete_task_failed b w r t f : snd (delete_task b w r t f) <> ROk -> f <> FCommitAfter -> fst (delete_task b w r t f) = w.
Proof.
  unfold delete_task. destruct f; intros H F; try reflexivity; try congruence.
  all: destruct (get_info b w r t); try reflexivity. all: destruct (String.eqb t ""); try reflexivity. cbn in H. congruence.
Qed.
