(* C11 — model of the task lifecycle in server/cdc_impl.go (Create / startInternal / pauseTaskWithReason /
   Resume / delete / Get / ReloadTask) over: the in-memory task table, the stored task table, the per-state
   task gauges, the per-target replicate entity (reference count and quit-function table) and, per task,
   the number of source collections being read and of rpc-channel readers registered at the dispatcher.
   A store failure is a label: the n-th call of a kind made by this API call fails.  The model is the code
   after the repair recorded in known_findings.json (C11-failed-state-update). *)
From Coq Require Import List String NArith ZArith Bool.
From Verif Require Import Base.Util.
Import ListNotations.
Local Open Scope string_scope.

Inductive tstate := SInitial | SRunning | SPaused.
Definition tstate_eqb (a b : tstate) : bool :=
  match a, b with SInitial, SInitial | SRunning, SRunning | SPaused, SPaused => true | _, _ => false end.

Record view := { v_state : tstate; v_reason : bool }.        (* reason: non-empty? *)
Record trec := { tid : string; ttarget : string; auto_off : bool;
                 mem : option view; sto : option view; started : Z; reg : Z }.
Record ent := { refcnt : Z; quit : list string }.
Record st := { ts : list trec; ents : list (string * ent); gi : list string; gr : list string; gp : list string }.
Definition init : st := {| ts := []; ents := []; gi := []; gr := []; gp := [] |}.

Inductive skind := KTaskGet | KTaskPut | KPosGet | KPosPut | KCommit.
Definition skind_eqb (a b : skind) : bool :=
  match a, b with KTaskGet, KTaskGet | KTaskPut, KTaskPut | KPosGet, KPosGet | KPosPut, KPosPut | KCommit, KCommit => true | _, _ => false end.
Definition fault := option (skind * nat).
Definition fails (f : fault) (k : skind) (n : nat) : bool :=
  match f with Some (k', n') => skind_eqb k k' && Nat.eqb n n' | None => false end.

Inductive op :=
| Create (id target : string) (aoff : bool) (f : fault)
| Pause (id : string) (f : fault)
| Resume (id : string) (f : fault)
| Delete (id : string) (f : fault)
| Get (id : string) (f : fault)
| Restart (f : fault).                    (* f = Some (KPosGet, n): the n-th task that is started fails to start *)

(* ---- helpers ---- *)
Definition find_task (s : st) (id : string) : option trec := find (fun t => String.eqb (tid t) id) (ts s).
Definition upd (s : st) (id : string) (g : trec -> trec) : st :=
  {| ts := map (fun t => if String.eqb (tid t) id then g t else t) (ts s); ents := ents s; gi := gi s; gr := gr s; gp := gp s |}.
Definition set_ents (s : st) (e : list (string * ent)) : st := {| ts := ts s; ents := e; gi := gi s; gr := gr s; gp := gp s |}.
Definition set_g (s : st) (i r p : list string) : st := {| ts := ts s; ents := ents s; gi := i; gr := r; gp := p |}.

Definition rm (x : string) (l : list string) : list string := filter (fun y => negb (String.eqb x y)) l.
Definition add (x : string) (l : list string) : list string := if mem_str x l then l else l ++ [x].

Definition g_get (s : st) (x : tstate) : list string := match x with SInitial => gi s | SRunning => gr s | SPaused => gp s end.
Definition g_set (s : st) (x : tstate) (l : list string) : st :=
  match x with SInitial => set_g s l (gr s) (gp s) | SRunning => set_g s (gi s) l (gp s) | SPaused => set_g s (gi s) (gr s) l end.
Definition g_add (s : st) (id : string) (x : tstate) : st := g_set s x (add id (g_get s x)).
Definition g_delete (s : st) (id : string) (x : tstate) : st := g_set s x (rm id (g_get s x)).
(* TaskNumMetric.UpdateState: only if the id is counted under the old state *)
Definition g_update (s : st) (id : string) (new old : tstate) : st :=
  if mem_str id (g_get s old) then g_add (g_delete s id old) id new else s.

(* the harness (re-)injects the replicate entity of a target that has none before every call *)
Definition ensure_ent (s : st) (tg : string) : st :=
  match alookup (ents s) tg with Some _ => s | None => set_ents s (aupsert (ents s) tg {| refcnt := 0; quit := [] |}) end.

(* field updaters *)
Definition with_sto (v : option view) (t : trec) : trec :=
  {| tid := tid t; ttarget := ttarget t; auto_off := auto_off t; mem := mem t; sto := v; started := started t; reg := reg t |}.
Definition with_mem (v : option view) (t : trec) : trec :=
  {| tid := tid t; ttarget := ttarget t; auto_off := auto_off t; mem := v; sto := sto t; started := started t; reg := reg t |}.
Definition reset_counters (t : trec) : trec :=
  {| tid := tid t; ttarget := ttarget t; auto_off := auto_off t; mem := mem t; sto := sto t; started := 0; reg := (reg t - 1)%Z |}.
Definition bump_reg (d : Z) (t : trec) : trec :=
  {| tid := tid t; ttarget := ttarget t; auto_off := auto_off t; mem := mem t; sto := sto t; started := started t; reg := (reg t + d)%Z |}.
Definition now_running (t : trec) : trec :=
  {| tid := tid t; ttarget := ttarget t; auto_off := auto_off t; mem := Some {| v_state := SRunning; v_reason := false |}; sto := sto t;
     started := (started t + 1)%Z; reg := reg t |}.
Definition set_mem (s : st) (id : string) (v : option view) : st := upd s id (with_mem v).
Definition set_sto (s : st) (id : string) (v : option view) : st := upd s id (with_sto v).

(* run the task's quit function if registered (stop its collection readers if they were started, deregister
   the rpc-channel reader), drop the reference; release the entity at zero *)
Definition release (s : st) (id tg : string) : st :=
  match alookup (ents s) tg with
  | None => s
  | Some e =>
      if mem_str id (quit e)
      then let s1 := upd s id reset_counters in
           let e1 := {| refcnt := (refcnt e - 1)%Z; quit := rm id (quit e) |} in
           if (refcnt e1 =? 0)%Z then set_ents s1 (aremove (ents s1) tg) else set_ents s1 (aupsert (ents s1) tg e1)
      else if (refcnt e =? 0)%Z then set_ents s (aremove (ents s) tg) else set_ents s (aupsert (ents s) tg e)
  end.

(* store.UpdateTaskState: Some s' on success *)
Definition update_state (s : st) (id : string) (new : tstate) (guard : list tstate) (reason : bool) (fget fput : bool) : option st :=
  if fget then None
  else match find_task s id with
       | None => None
       | Some t =>
           match sto t with
           | None => None
           | Some v =>
               if negb (match guard with [] => true | _ => existsb (tstate_eqb (v_state v)) guard end) then None
               else if fput then None
               else Some (g_update (set_sto s id (Some {| v_state := new; v_reason := reason |})) id new (v_state v))
           end
       end.

(* startInternal: (state, succeeded) *)
Definition start (s : st) (id : string) (ignore : bool) (fposget fget fput : bool) : st * bool :=
  match find_task s id with
  | None => (s, false)
  | Some t =>
      (* no entity for the target: newReplicateEntity has to build one, which fails in the harness' world
         (no source etcd / MQ); the harness injects entities only between API calls *)
      match alookup (ents s) (ttarget t) with
      | None => (s, false)
      | Some e =>
          if fposget then (s, false)
          else
            (* channel reader registered, quit function stored, reference taken *)
            let s1 := set_ents (upd s id (bump_reg 1))
                        (aupsert (ents s) (ttarget t) {| refcnt := (refcnt e + 1)%Z; quit := add id (quit e) |}) in
            match (if ignore then Some s1 else update_state s1 id SRunning [SInitial; SPaused] false fget fput) with
            | None =>
                (* the state update failed: the registration is rolled back *)
                (set_ents (upd s1 id (bump_reg (-1)))
                   (aupsert (ents s1) (ttarget t) {| refcnt := (refcnt e + 1 - 1)%Z; quit := rm id (add id (quit e)) |}), false)
            | Some s2 => (upd s2 id now_running, true)
            end
      end
  end.

(* pauseTaskWithReason: (state, store update succeeded) *)
Definition pause_with (s : st) (id : string) (guard : list tstate) (fget fput : bool) : st * bool :=
  let paused := Some {| v_state := SPaused; v_reason := true |} in
  match update_state s id SPaused guard true fget fput with
  | None =>
      match guard with
      | _ :: _ => (s, false)           (* a manual pause that cannot be saved changes nothing *)
      | [] => match find_task s id with
              | None => (s, false)
              | Some t => match mem t with None => (s, false) | Some _ => (release (upd s id (with_mem paused)) id (ttarget t), false) end
              end
      end
  | Some s1 =>
      match find_task s1 id with
      | None => (s1, true)
      | Some t => match mem t with None => (s1, true) | Some _ => (release (upd s1 id (with_mem paused)) id (ttarget t), true) end
      end
  end.

(* MetaCDC.delete: (state, succeeded) *)
Definition delete (s : st) (id : string) (fget fcommit : bool) : st * bool :=
  match find_task s id with
  | None => (s, false)
  | Some t =>
      if fget then (s, false)
      else match sto t with
           | None => (s, false)
           | Some v =>
               if fcommit then (s, false)
               else let s1 := g_delete (set_sto s id None) id (v_state v) in
                    let s2 := set_mem s1 id None in
                    (release s2 id (ttarget t), true)
           end
  end.

Definition in_mem (s : st) (id : string) : option view := match find_task s id with Some t => mem t | None => None end.

(* ReloadTask for one stored task; k counts the tasks started so far (the fault label names the k-th) *)
Definition reload_one (f : fault) (acc : st * nat) (t : trec) : st * nat :=
  let '(s, k) := acc in
  match sto t with
  | None => (s, k)
  | Some v =>
      let s1 := g_add (set_mem s (tid t) (Some v)) (tid t) (v_state v) in
      if auto_off t then
        (if tstate_eqb (v_state v) SPaused then s1 else fst (pause_with s1 (tid t) [] false false), k)
      else
        let k' := S k in
        let r := start s1 (tid t) (tstate_eqb (v_state v) SRunning) (fails f KPosGet k') false false in
        (if snd r then fst r else fst (pause_with (fst r) (tid t) [] false false), k')
  end.

(* a crash: volatile parts are lost; the harness injects fresh entities for every target *)
Definition crashed (s0 : st) : st :=
  let s := {| ts := map (fun t => {| tid := tid t; ttarget := ttarget t; auto_off := auto_off t; mem := None; sto := sto t;
                                     started := 0; reg := 0 |}) (ts s0);
              ents := []; gi := []; gr := []; gp := [] |} in
  fold_left (fun s t => ensure_ent s (ttarget t)) (ts s) s.

(* codes: 0 = 200, 1 = 400, 2 = 500 *)
Definition step (s0 : st) (o : op) : st * N :=
  match o with
  | Create id tg aoff f =>
      let s := ensure_ent s0 tg in
      match in_mem s id with
      | Some _ => (s, 0%N)
      | None =>
          if fails f KTaskGet 1 || fails f KPosPut 1 || fails f KTaskPut 1 then (s, 2%N)
          else
            let fresh := {| tid := id; ttarget := tg; auto_off := aoff;
                            mem := Some {| v_state := SInitial; v_reason := false |};
                            sto := Some {| v_state := SInitial; v_reason := false |}; started := 0; reg := 0 |} in
            let s1 := {| ts := (filter (fun t => negb (String.eqb (tid t) id)) (ts s)) ++ [fresh]; ents := ents s; gi := gi s; gr := gr s; gp := gp s |} in
            let s1 := g_add s1 id SInitial in
            let '(s2, ok) := start s1 id false (fails f KPosGet 1) (fails f KTaskGet 2) (fails f KTaskPut 2) in
            if ok then (s2, 0%N) else (fst (delete s2 id false false), 2%N)
      end
  | Pause id f =>
      match in_mem s0 id with
      | None => (s0, 1%N)
      | Some v =>
          let s := match find_task s0 id with Some t => ensure_ent s0 (ttarget t) | None => s0 end in
          if tstate_eqb (v_state v) SPaused then (s, 1%N)
          else let '(s1, ok) := pause_with s id [SRunning] (fails f KTaskGet 1) (fails f KTaskPut 1) in
               (s1, if ok then 0%N else 2%N)
      end
  | Resume id f =>
      match in_mem s0 id with
      | None => (s0, 1%N)
      | Some v =>
          let s := match find_task s0 id with Some t => ensure_ent s0 (ttarget t) | None => s0 end in
          if tstate_eqb (v_state v) SRunning then (s, 1%N)
          else let '(s1, ok) := start s id false (fails f KPosGet 1) (fails f KTaskGet 1) (fails f KTaskPut 1) in
               (s1, if ok then 0%N else 2%N)
      end
  | Delete id f =>
      match in_mem s0 id with
      | None => (s0, 1%N)
      | Some _ =>
          let s := match find_task s0 id with Some t => ensure_ent s0 (ttarget t) | None => s0 end in
          let '(s1, ok) := delete s id (fails f KTaskGet 1) (fails f KCommit 1) in
          (s1, if ok then 0%N else 2%N)
      end
  | Get id f =>
      if fails f KTaskGet 1 then (s0, 2%N)
      else match find_task s0 id with
           | Some t => match sto t with Some _ => (s0, 0%N) | None => (s0, 1%N) end
           | None => (s0, 1%N)
           end
  | Restart f =>
      let s := crashed s0 in
      let stored := filter (fun t => match sto t with Some _ => true | None => false end) (ts s) in
      (fst (fold_left (reload_one f) stored (s, 0%nat)), 0%N)
  end.

Definition run (ops : list op) : st := fold_left (fun s o => fst (step s o)) ops init.

(* ---- observation ---- *)
Record otask := { o_id : string; o_mem : option view; o_sto : option view; o_started : Z; o_reg : Z }.
Record obs := { o_code : N; o_tasks : list otask; o_ents : list (string * (Z * list string));
                o_gauges : option (Z * Z * Z) }.          (* None after a restart in the same process *)
Record case := { c_ops : list op; c_obs : list obs }.

Definition zlen (l : list string) : Z := Z.of_nat (List.length l).
Definition observe (s : st) (code : N) (restarted : bool) : obs :=
  {| o_code := code;
     o_tasks := map (fun t => {| o_id := tid t; o_mem := mem t; o_sto := sto t; o_started := started t; o_reg := reg t |}) (ts s);
     o_ents := map (fun e => (fst e, (refcnt (snd e), quit (snd e)))) (ents s);
     o_gauges := if restarted then None else Some (zlen (gi s), zlen (gr s), zlen (gp s)) |}.

Fixpoint run_obs (s : st) (restarted : bool) (ops : list op) : list obs :=
  match ops with
  | [] => []
  | o :: r => let '(s1, code) := step s o in
              let rs := restarted || match o with Restart _ => true | _ => false end in
              observe s1 code rs :: run_obs s1 rs r
  end.

Definition view_eqb (a b : view) : bool := tstate_eqb (v_state a) (v_state b) && Bool.eqb (v_reason a) (v_reason b).
Definition otask_eqb (a b : otask) : bool :=
  String.eqb (o_id a) (o_id b) && option_eqb view_eqb (o_mem a) (o_mem b) && option_eqb view_eqb (o_sto a) (o_sto b)
  && Z.eqb (o_started a) (o_started b) && Z.eqb (o_reg a) (o_reg b).
Definition strset_eqb (a b : list string) : bool := forallb (fun x => mem_str x b) a && forallb (fun x => mem_str x a) b.
Definition oent_eqb (a b : string * (Z * list string)) : bool :=
  String.eqb (fst a) (fst b) && Z.eqb (fst (snd a)) (fst (snd b)) && strset_eqb (snd (snd a)) (snd (snd b)).
Definition set_eqb {A} (eqb : A -> A -> bool) (a b : list A) : bool :=
  Nat.eqb (List.length a) (List.length b) && forallb (fun x => existsb (eqb x) b) a.
Definition g_eqb (a b : Z * Z * Z) : bool :=
  let '(a1, a2, a3) := a in let '(b1, b2, b3) := b in Z.eqb a1 b1 && Z.eqb a2 b2 && Z.eqb a3 b3.
(* tasks that no longer exist anywhere are not listed by the harness *)
Definition live (t : otask) : bool := match o_mem t, o_sto t with None, None => negb (Z.eqb (o_started t) 0 && Z.eqb (o_reg t) 0) | _, _ => true end.
(* an entity without references and without quit functions is only the harness' placeholder *)
Definition used (e : string * (Z * list string)) : bool := negb (Z.eqb (fst (snd e)) 0 && match snd (snd e) with [] => true | _ => false end).
Definition obs_eqb (a b : obs) : bool :=
  N.eqb (o_code a) (o_code b) && set_eqb otask_eqb (filter live (o_tasks a)) (filter live (o_tasks b))
  && set_eqb oent_eqb (filter used (o_ents a)) (filter used (o_ents b))
  && match o_gauges a, o_gauges b with Some x, Some y => g_eqb x y | _, _ => true end.
Definition agrees (c : case) : bool := list_eqb obs_eqb (run_obs init false (c_ops c)) (c_obs c).

(* ---- the property as a checker over the implementation's observations ---- *)
Definition target_of (ops : list op) (id : string) : string :=
  match find (fun o => match o with Create i _ _ _ => String.eqb i id | _ => false end) ops with
  | Some (Create _ tg _ _) => tg | _ => "" end.

Definition count_state (ob : obs) (x : tstate) : Z :=
  Z.of_nat (List.length (filter (fun t => match o_sto t with Some v => tstate_eqb (v_state v) x | None => false end) (o_tasks ob))).

Definition check_point (ops : list op) (prev : option obs) (o : op) (ob : obs) : bool :=
  (* one state; API (= store), memory and gauges agree; a paused task shows a reason *)
  forallb (fun t =>
     match o_mem t, o_sto t with
     | None, None => Z.eqb (o_started t) 0 && Z.eqb (o_reg t) 0
     | Some m, Some s =>
         tstate_eqb (v_state m) (v_state s) && negb (tstate_eqb (v_state s) SInitial)
         && (if tstate_eqb (v_state s) SPaused then v_reason s && v_reason m else true)
         (* readers exactly while running *)
         && (if tstate_eqb (v_state s) SRunning then Z.eqb (o_started t) 1 && Z.eqb (o_reg t) 1
             else Z.eqb (o_started t) 0 && Z.eqb (o_reg t) 0)
     | _, _ => false
     end) (o_tasks ob)
  && match o_gauges ob with
     | Some (i, r, p) => Z.eqb i 0 && Z.eqb r (count_state ob SRunning) && Z.eqb p (count_state ob SPaused)
     | None => true end
  (* per target: reference count = number of running tasks, quit table = the running tasks *)
  && forallb (fun e =>
       let running := filter (fun t => String.eqb (target_of ops (o_id t)) (fst e)
                                       && match o_sto t with Some v => tstate_eqb (v_state v) SRunning | None => false end) (o_tasks ob) in
       Z.eqb (fst (snd e)) (Z.of_nat (List.length running)) && strset_eqb (snd (snd e)) (map o_id running)) (o_ents ob)
  && forallb (fun t => match o_sto t with
                       | Some v => if tstate_eqb (v_state v) SRunning then existsb (fun e => String.eqb (fst e) (target_of ops (o_id t))) (o_ents ob) else true
                       | None => true end) (o_tasks ob)
  (* transitions *)
  && match prev with
     | None => true
     | Some p =>
         forallb (fun t =>
            let before := match find (fun t' => String.eqb (o_id t') (o_id t)) (o_tasks p) with Some t' => o_sto t' | None => None end in
            match before, o_sto t, o with
            | None, None, _ => true
            | Some a, Some b, _ =>
                tstate_eqb (v_state a) (v_state b)
                || match o with
                   | Pause id _ => String.eqb id (o_id t) && tstate_eqb (v_state a) SRunning && tstate_eqb (v_state b) SPaused && N.eqb (o_code ob) 0
                   | Resume id _ => String.eqb id (o_id t) && tstate_eqb (v_state a) SPaused && tstate_eqb (v_state b) SRunning && N.eqb (o_code ob) 0
                   | Restart _ => true
                   | _ => false end
            | None, Some b, Create id _ _ _ => String.eqb id (o_id t) && tstate_eqb (v_state b) SRunning && N.eqb (o_code ob) 0
            | Some _, None, Delete id _ => String.eqb id (o_id t) && N.eqb (o_code ob) 0
            | _, _, _ => false
            end) (o_tasks ob)
         && forallb (fun t' => existsb (fun t => String.eqb (o_id t) (o_id t')) (o_tasks ob)
                               || match o_sto t', o with None, _ => true | Some _, Delete id _ => String.eqb id (o_id t') && N.eqb (o_code ob) 0 | _, _ => false end) (o_tasks p)
     end.

Fixpoint check_all (ops : list op) (prev : option obs) (todo : list op) (os : list obs) : bool :=
  match todo, os with
  | [], [] => true
  | o :: r, ob :: obr => check_point ops prev o ob && check_all ops (Some ob) r obr
  | _, _ => false
  end.
Definition check_C11 (c : case) : bool := check_all (c_ops c) None (c_ops c) (c_obs c).

(* "no busy background work": a probe closes n idle barriers and measures the CPU time of the process over
   a window; the model has no enabled internal step for a closed barrier, so the time must stay small *)
Inductive kase := KHist (c : case) | KBarrier (n cpu_ms window_ms : N).
Definition kagrees (k : kase) : bool :=
  match k with KHist c => agrees c | KBarrier _ cpu w => N.leb (4 * cpu) w end.
Definition kcheck (k : kase) : bool :=
  match k with KHist c => check_C11 c | KBarrier _ cpu w => N.leb (4 * cpu) w end.

Definition mismatches (l : list (N * kase)) : list N := failing_ids kagrees l.
Definition checkfails (l : list (N * kase)) : list N := failing_ids kcheck l.
Definition knownclass (l : list (N * kase)) : list (N * N) := [].
