(* C11 — property theorems only *)
From Coq Require Import List String NArith ZArith Bool.
From Verif Require Import Base.Util C11.Model C11.Proofs.
(* the store-level harness of this check (h_c12) evaluates its cases with the C12 model and checker *)
From Verif Require C12.Model C12.Check.
Import ListNotations.
Local Open Scope string_scope.

(* Histories: any list of create / pause / resume / delete / get calls and restarts over any number of
   tasks and targets, each call with or without a store failure at any one of the store calls it makes
   (a restart: with a start failure of any one of the reloaded tasks).  No hypothesis on the history. *)

(* in every reachable state every task is either nowhere, or both in memory and in the store with the
   same state, which is Running or Paused (one state; API view = stored view = in-memory view) *)
Theorem C11_views_agree : forall ops id t, find_task (run ops) id = Some t ->
  match mem t, sto t with
  | None, None => True
  | Some m, Some v => v_state m = v_state v /\ v_state v <> SInitial
  | _, _ => False
  end.
Proof. exact views_agree. Qed.
Print Assumptions C11_views_agree.

(* the per-state gauges count exactly the stored Running and Paused tasks, none is counted Initial *)
Theorem C11_gauges_agree : forall ops,
  let s := run ops in
  gi s = [] /\ NoDup (gr s) /\ NoDup (gp s)
  /\ (forall id, In id (gr s) <-> exists t, find_task s id = Some t /\ runningb t = true)
  /\ (forall id, In id (gp s) <-> exists t, find_task s id = Some t /\ pausedb t = true).
Proof. exact gauges_agree. Qed.
Print Assumptions C11_gauges_agree.

(* a running task reads its collection, has its rpc-channel reader registered and holds one reference of
   its target's entity; a paused or deleted task has no reader and no reference; an entity's reference
   count is the number of its quit functions, which belong to exactly the running tasks of the target *)
Theorem C11_cleanup : forall ops,
  let s := run ops in
  (forall id t, find_task s id = Some t ->
     if runningb t then started t = 1%Z /\ reg t = 1%Z /\ in_quit s (ttarget t) id
     else started t = 0%Z /\ reg t = 0%Z /\ forall tg, ~ in_quit s tg id)
  /\ (forall tg e, alookup (ents s) tg = Some e ->
        NoDup (quit e) /\ refcnt e = Z.of_nat (List.length (quit e))
        /\ forall id, In id (quit e) <-> exists t, find_task s id = Some t /\ ttarget t = tg /\ runningb t = true).
Proof. exact cleanup. Qed.
Print Assumptions C11_cleanup.

(* after a restart (and after any further calls) no stored task is missing from memory *)
Theorem C11_reloaded : forall ops id, ~ unloaded (run ops) id.
Proof. intros ops id. exact (inv_loaded _ (run_inv ops) id). Qed.
Print Assumptions C11_reloaded.

(* non-vacuity: a history with a failing pause, a failing resume, a restart with a start failure; the
   end state has a running and a paused task *)
Example C11_nonvacuous :
  let ops := [Create "t1" "k" false None; Create "t2" "k" false None; Pause "t1" (Some (KTaskPut, 1%nat));
              Pause "t1" None; Resume "t1" (Some (KTaskGet, 1%nat)); Restart (Some (KPosGet, 2%nat))] in
  map (fun t => (tid t, option_map v_state (sto t), started t)) (ts (run ops))
  = [("t1", Some SRunning, 1%Z); ("t2", Some SPaused, 0%Z)].
Proof. vm_compute. reflexivity. Qed.

(* ---- crash points and reload: API calls cut by a crash after n writes of the task record, restarts with the real
   ReloadTask (model: C11/Reload.v, cases of harness h_c11r checked by C11.LCheck) ---- *)
Require Verif.C11.Reload Verif.C11.ReloadProofs Verif.C11.LCheck Verif.C11.LCheckProofs.

(* for every history of creates, pauses and resumes each cut by a crash before, between or after its writes of the task
   record, resumes the store refuses, deletes and restarts: in a live process the persisted state and the in-memory state of the
   task agree and are never Initial, the replicate entity of the target is registered while the task runs and is not registered
   when the task is gone *)
Theorem C11_reload_every_history : forall ls,
  let s := Reload.run Reload.cfg_now Reload.init ls in
  Reload.dead s = false ->
  Reload.stored s = Reload.mem s /\ Reload.stored s <> Some Reload.SInitial
  /\ (Reload.mem s = Some Reload.SRunning -> Reload.ent s = true) /\ (Reload.mem s = None -> Reload.ent s = false).
Proof. exact ReloadProofs.reload_every_history. Qed.
Print Assumptions C11_reload_every_history.

(* after a restart every persisted task runs, whatever state the crash left in the store *)
Theorem C11_restart_runs : forall s x, Reload.stored s = Some x ->
  let s' := Reload.step Reload.cfg_now s Reload.LRestart in
  Reload.stored s' = Some Reload.SRunning /\ Reload.mem s' = Some Reload.SRunning /\ Reload.dead s' = false /\ Reload.ent s' = true.
Proof. exact ReloadProofs.restart_runs. Qed.
Print Assumptions C11_restart_runs.

(* a delete releases the entity of the target, whatever was left registered - also the idle entity that a refused resume
   leaves behind; so does a pause *)
Theorem C11_delete_releases : forall s x, Reload.dead s = false -> Reload.mem s = Some x ->
  Reload.ent (Reload.step Reload.cfg_now s Reload.LDelete) = false.
Proof. exact ReloadProofs.delete_releases. Qed.
Print Assumptions C11_delete_releases.
Theorem C11_pause_releases : forall s, Reload.dead s = false -> Reload.mem s = Some Reload.SRunning ->
  Reload.ent (Reload.step Reload.cfg_now s (Reload.LPause None)) = false.
Proof. exact ReloadProofs.pause_releases. Qed.
Print Assumptions C11_pause_releases.

(* the checker evaluated on the implementation's observations accepts every trace of this model *)
Theorem C11_reload_checker_accepts_model : forall k,
  LCheck.lc_obs k = Reload.trace Reload.cfg_now Reload.init (LCheck.lc_ops k) -> LCheck.check_C11r k = true.
Proof. exact LCheckProofs.agreeing_case_accepted. Qed.
Print Assumptions C11_reload_checker_accepts_model.

(* a reload that does not persist Initial -> Running leaves the views apart after a crash inside a create *)
Theorem C11_reload_skip_refuted : exists ls, ~ ReloadProofs.Inv (Reload.run Reload.cfg_skip Reload.init ls).
Proof. exact ReloadProofs.reload_skip_refuted. Qed.
Print Assumptions C11_reload_skip_refuted.
